import Tbx.Proofs.FlowTheory
import Tbx.Proofs.FlowSweep
import Tbx.Proofs.FlowCut
import Tbx.Proofs.FlowDinicDfs
import Tbx.Proofs.FlowSweepTotal
import Tbx.Model.FlowDinic
import Tbx.Proofs.FlowDinicRerun
import Tbx.Proofs.FlowEKRerun
/-
C02 — the returned node assignment is the canonical minimum cut.

Property theorems only.  Registered in Tbx/Audit/C02.lean.
Spec: for the merged input capacities `c`, a residual graph `r` with `ResInv c r`, conservation, and the
target not reachable from the source through positive residual edges (the state every finished run ends
in; the driver checks exactly this on every real run through `minCutOK`), the assignment `A` is the
set of nodes reachable from the source through positive residual edges.
-/
namespace Tbx.Props.C02
open Tbx Tbx.Flow Tbx.FlowSpec Tbx.FlowTheory

def d1E : List E := [(0,1,10),(1,2,10),(1,3,10),(1,4,3),(2,4,10),(3,4,10)]
def d1R : List E :=
  [(0,1,0),(1,0,10),(1,2,3),(1,3,10),(1,4,0),(2,1,7),(2,4,3),(3,1,0),(3,4,10),(4,1,3),(4,2,7),(4,3,0)]
def d1R' : List E :=
  [(0,1,0),(1,0,10),(1,2,10),(1,3,3),(1,4,0),(2,1,0),(2,4,10),(3,1,7),(3,4,3),(4,1,3),(4,2,0),(4,3,7)]
def d1Edges : List Edge := [⟨0,1,10⟩,⟨1,2,10⟩,⟨1,3,10⟩,⟨1,4,3⟩,⟨2,4,10⟩,⟨3,4,10⟩]
/-- a network whose minimum cut is not unique: 0→1(1), 1→2(1); canonical source side {0} -/
def chainE : List E := [(0,1,1),(1,2,1)]
def chainR : List E := [(0,1,0),(1,0,1),(1,2,0),(2,1,1)]

/-- **assign_closure** (about the model of `assignment`): on a finished solver whose residual graph has
    valid edge heads, `assignment(src)` returns one bit per node and marks exactly the nodes reachable
    from `src` through residual edges of positive capacity (the least set containing `src` closed under
    such edges) -/
theorem assign_closure (g : Graph) (src : Nat) (hT : TargetsOK g) (r : Array Bool)
    (h : assignmentOut g true src = .ok r) :
    r.size = g.numNodes ∧ (∀ v, gt r v = true ↔ ReachG g src v) ∧
    (∀ (S : Nat → Prop), S src → (∀ u v, S u → PosEdge g u v → S v) → ∀ v, gt r v = true → S v) := by
  obtain ⟨a, b⟩ := assignmentOut_closure g src hT r h
  refine ⟨a, b, ?_⟩
  intro S hs hcl v hv
  have := (b v).mp hv
  induction this with
  | refl => exact hs
  | step hr he ih => exact hcl _ _ (ih ((b _).mpr hr)) he

/-- the final state of the model's Dinic run on D1's witness -/
def d1Final : Option Dinic := (Dinic.fromEdgeList d1Edges 0 4).bind (·.run 100)
example : (d1Final.map fun d => d.assignment? 0) = some (.ok #[true, false, false, false, false]) := by
  decide +kernel
example : (d1Final.map fun d => decide (∀ e < 12, 0 < gt d.g.cap e → gt d.g.tgt e < d.g.numNodes)) = some true := by
  decide +kernel

/-- **assign_is_min_cut**: after a finished run (residual invariant, conservation, target unreachable)
    the closure `A` of the source contains the source, excludes the target, the capacity of the input
    edges leaving it equals the flow value, that value is the maximum flow, and no separating set has a
    smaller capacity -/
theorem assign_is_min_cut {n : Nat} {c r : Fin n → Fin n → ℤ} {s t : Fin n} (h : ResInv c r)
    (hc : Conserved c r s t) (A : Finset (Fin n)) (hA : ∀ v, v ∈ A ↔ Reach r s v) (ht : t ∉ A) :
    s ∈ A ∧ t ∉ A ∧ cutCap c A = value (resFlow c r) s ∧
    IsMaxFlowValue c s t (value (resFlow c r) s) ∧
    (∀ S' : Finset (Fin n), s ∈ S' → t ∉ S' → cutCap c A ≤ cutCap c S') :=
  closure_is_min_cut h hc A hA ht

/-- non-vacuity: the saturated two-node network 0 →(3) 1; the closure of 0 is {0} -/
def exC : Fin 2 → Fin 2 → ℤ := fun u v => if u = 0 ∧ v = 1 then 3 else 0
def exR : Fin 2 → Fin 2 → ℤ := fun u v => if u = 1 ∧ v = 0 then 3 else 0
theorem exR_reach (v : Fin 2) : Reach exR 0 v ↔ v = 0 := by
  constructor
  · intro h
    induction h with
    | refl => rfl
    | @step u w _ hpos ih =>
      subst ih
      exfalso; revert hpos; revert w; decide
  · intro h; subst h; exact Reach.refl

example : (0 : Fin 2) ∈ ({0} : Finset (Fin 2)) ∧ (1 : Fin 2) ∉ ({0} : Finset (Fin 2)) ∧
    cutCap exC {0} = value (resFlow exC exR) 0 ∧ IsMaxFlowValue exC 0 1 (value (resFlow exC exR) 0) := by
  have key : ∀ u : Fin 2, u ≠ 0 → u ≠ 1 → False := by decide
  have h := assign_is_min_cut (c := exC) (r := exR) (s := 0) (t := 1) ⟨by decide, by decide⟩
    (fun u h0 h1 => (key u h0 h1).elim) {0} (fun v => by rw [exR_reach]; simp) (by decide)
  exact ⟨h.1, h.2.1, h.2.2.1, h.2.2.2.1⟩

/-- **assign_minimal**: the closure is contained in the source side of every minimum cut -/
theorem assign_minimal {n : Nat} {c r : Fin n → Fin n → ℤ} {s t : Fin n} (h : ResInv c r)
    (hc : Conserved c r s t) (A : Finset (Fin n)) (hA : ∀ v, v ∈ A ↔ Reach r s v)
    (S' : Finset (Fin n)) (hs : s ∈ S') (ht : t ∉ S') (heq : cutCap c S' = value (resFlow c r) s) :
    A ⊆ S' :=
  closure_minimal h hc A hA S' hs ht heq

/-- **assign_solver_independent**: the set is a function of (c, s, t) alone — two finished runs, with
    whatever augmenting paths, end with the same closure -/
theorem assign_solver_independent {n : Nat} {c r1 r2 : Fin n → Fin n → ℤ} {s t : Fin n}
    (h1 : ResInv c r1) (hc1 : Conserved c r1 s t) (h2 : ResInv c r2) (hc2 : Conserved c r2 s t)
    (A1 A2 : Finset (Fin n)) (hA1 : ∀ v, v ∈ A1 ↔ Reach r1 s v) (hA2 : ∀ v, v ∈ A2 ↔ Reach r2 s v)
    (ht1 : t ∉ A1) (ht2 : t ∉ A2) : A1 = A2 :=
  closure_solver_independent h1 hc1 h2 hc2 A1 A2 hA1 hA2 ht1 ht2

/-- **C02 for the EdmondsKarp / FordFulkerson models, end to end**: for every edge list with
    non-negative capacities and every source ≠ target, after a `run` that returns, `assignment(s)`
    yields one bit per node; the set contains s, excludes t, the merged input capacity leaving it equals
    the reported flow, which is the maximum flow; it is a minimum cut and it is contained in every
    minimum cut -/
theorem ek_ff_assignment_canonical (es : List Edge) (s t : Nat) (hnn : ∀ e, e ∈ es → 0 ≤ e.cap)
    (hst : s ≠ t) (hN : nNodes (es.map toE) ≤ INV) (pop : List Nat → Option (Nat × List Nat))
    (hp : PopOK pop) (fuel : Nat) (sv' : Solver)
    (h : (Solver.fromEdgeList es s t).run pop fuel = some sv')
    (bits : Array Bool) (hb : sv'.assignment? s = .ok bits) :
    ∃ (hs : s < nNodes (es.map toE)) (ht : t < nNodes (es.map toE)),
      let n := nNodes (es.map toE)
      let c := cF (es.map toE) n
      let A := setOf n (fun v => gt bits v)
      bits.size = n ∧ ⟨s, hs⟩ ∈ A ∧ ⟨t, ht⟩ ∉ A ∧ cutCap c A = sv'.maxFlow ∧
      IsMaxFlowValue c ⟨s, hs⟩ ⟨t, ht⟩ sv'.maxFlow ∧
      (∀ S' : Finset (Fin n), ⟨s, hs⟩ ∈ S' → ⟨t, ht⟩ ∉ S' → cutCap c A ≤ cutCap c S') ∧
      (∀ S' : Finset (Fin n), ⟨s, hs⟩ ∈ S' → ⟨t, ht⟩ ∉ S' → cutCap c S' = sv'.maxFlow → A ⊆ S') :=
  Flow.ek_ff_assignment es s t hnn hst hN pop hp fuel sv' h bits hb

example : (((Solver.fromEdgeList d1Edges 0 4).runEK 100).map fun sv => sv.assignment? 0) =
    some (.ok #[true, false, false, false, false]) := by decide +kernel

/-- **C02 for the Dinic model, end to end** (same statement as for EdmondsKarp / FordFulkerson) -/
theorem dinic_assignment_canonical (es : List Edge) (s t : Nat) (hnn : ∀ e, e ∈ es → 0 ≤ e.cap)
    (hst : s ≠ t) (hN : nNodes (es.map toE) + 2 < INV) (d : Dinic)
    (hd : Dinic.fromEdgeList es s t = some d) (fuel : Nat) (d' : Dinic) (h : d.run fuel = some d')
    (bits : Array Bool) (hb : d'.assignment? s = .ok bits) :
    ∃ (hs : s < nNodes (es.map toE)) (ht : t < nNodes (es.map toE)),
      let n := nNodes (es.map toE)
      let c := cF (es.map toE) n
      let A := setOf n (fun v => gt bits v)
      bits.size = n ∧ ⟨s, hs⟩ ∈ A ∧ ⟨t, ht⟩ ∉ A ∧ cutCap c A = d'.maxFlow ∧
      IsMaxFlowValue c ⟨s, hs⟩ ⟨t, ht⟩ d'.maxFlow ∧
      (∀ S' : Finset (Fin n), ⟨s, hs⟩ ∈ S' → ⟨t, ht⟩ ∉ S' → cutCap c A ≤ cutCap c S') ∧
      (∀ S' : Finset (Fin n), ⟨s, hs⟩ ∈ S' → ⟨t, ht⟩ ∉ S' → cutCap c S' = d'.maxFlow → A ⊆ S') :=
  Flow.dinic_assignment es s t hnn hst hN d hd fuel d' h bits hb

/-- `assignment(source)` on a finished solver returns `Ok` within its fuel (each node is marked at most
    once) -/
theorem assignment_returns (g : Graph) (hT : TargetsOK g) (src : Nat) (hs : src < g.numNodes) :
    ∃ r, assignmentOut g true src = .ok r :=
  assignmentOut_total g hT src hs

/-- **C02 headline, total, for the three models**: for every edge list with non-negative capacities and
    every pair of distinct nodes s, t, each model — run with the fuel the driver passes — returns,
    `assignment(s)` is `Ok bits` with the SAME bit vector for the three, and the set it denotes contains s,
    excludes t, the merged input capacity leaving it equals the reported flow value, which is the maximum
    flow; it is a minimum cut and it is contained in every minimum cut (the canonical one) -/
theorem solvers_return_canonical_cut (es : List Edge) (s t : Nat) (hnn : ∀ e, e ∈ es → 0 ≤ e.cap)
    (hst : s ≠ t) (hs : s < nNodes (es.map toE)) (ht : t < nNodes (es.map toE))
    (hN : nNodes (es.map toE) + 2 < INV) :
    ∃ (bits : Array Bool) (x : ℤ) (d d' : Dinic) (ek ff : Solver),
      Dinic.fromEdgeList es s t = some d ∧ d.run ((es.map Edge.cap).sum.toNat + 2) = some d' ∧
      (Solver.fromEdgeList es s t).runEK ((es.map Edge.cap).sum.toNat + 2) = some ek ∧
      (Solver.fromEdgeList es s t).runFF ((es.map Edge.cap).sum.toNat + 2) = some ff ∧
      d'.maxFlow? = .ok x ∧ ek.maxFlow? = .ok x ∧ ff.maxFlow? = .ok x ∧
      d'.assignment? s = .ok bits ∧ ek.assignment? s = .ok bits ∧ ff.assignment? s = .ok bits ∧
      bits.size = nNodes (es.map toE) ∧
      (let n := nNodes (es.map toE)
       let c := cF (es.map toE) n
       let A := setOf n (fun v => gt bits v)
       ⟨s, hs⟩ ∈ A ∧ ⟨t, ht⟩ ∉ A ∧ cutCap c A = x ∧ IsMaxFlowValue c ⟨s, hs⟩ ⟨t, ht⟩ x ∧
       (∀ S' : Finset (Fin n), ⟨s, hs⟩ ∈ S' → ⟨t, ht⟩ ∉ S' → cutCap c A ≤ cutCap c S') ∧
       (∀ S' : Finset (Fin n), ⟨s, hs⟩ ∈ S' → ⟨t, ht⟩ ∉ S' → cutCap c S' = x → A ⊆ S')) :=
  Flow.solvers_return_canonical_cut es s t hnn hst hs ht hN

example : nNodes (d1Edges.map toE) = 5 ∧ (∀ e, e ∈ d1Edges → 0 ≤ e.cap) := by decide

/-- **the judge's check is sound**: if `minCutOK` accepts a solver's (residual graph, value, bit vector)
    then the value is the maximum flow, the bit vector contains s, not t, the input edges leaving it
    carry exactly the value, it is the positive-residual closure of s, it is a minimum cut and it is
    contained in every minimum cut.  All hypotheses of the three theorems above are discharged by the
    executable check, on every real run -/
theorem minCutOK_sound (es : List E) (s t : Nat) (res : List E) (x : ℤ) (bits : List Bool)
    (h : minCutOK es s t res x bits = true) :
    ∃ (hs : s < nNodes es) (ht : t < nNodes es),
      let n := nNodes es
      let c := cF es n
      let A := setOf n (fun v => bits.getD v false)
      IsMaxFlowValue c ⟨s, hs⟩ ⟨t, ht⟩ x ∧
      ⟨s, hs⟩ ∈ A ∧ ⟨t, ht⟩ ∉ A ∧ cutCap c A = x ∧ cutCapL es (fun v => bits.getD v false) = x ∧
      (∀ v, v ∈ A ↔ Reach (cF res n) ⟨s, hs⟩ v) ∧
      (∀ S' : Finset (Fin n), ⟨s, hs⟩ ∈ S' → ⟨t, ht⟩ ∉ S' → cutCap c A ≤ cutCap c S') ∧
      (∀ S' : Finset (Fin n), ⟨s, hs⟩ ∈ S' → ⟨t, ht⟩ ∉ S' → cutCap c S' = x → A ⊆ S') :=
  FlowTheory.minCutOK_sound es s t res x bits h

example : minCutOK d1E 0 4 d1R 10 [true, false, false, false, false] = true := by decide +kernel
example : minCutOK d1E 0 4 d1R' 10 [true, false, false, false, false] = true := by decide +kernel
/-- {0,1} is also a minimum cut of the chain, but not the canonical one: rejected -/
example : minCutOK chainE 0 2 chainR 1 [true, false, false] = true := by decide +kernel
example : minCutOK chainE 0 2 chainR 1 [true, true, false] = false := by decide +kernel

/-- two accepted observations of the same input carry the same bit vector (what the driver's D-line
    comparison between the three solvers and the model relies on) -/
theorem accepted_assignments_agree (es : List E) (s t : Nat) (r1 r2 : List E) (x1 x2 : ℤ)
    (b1 b2 : List Bool) (h1 : minCutOK es s t r1 x1 b1 = true) (h2 : minCutOK es s t r2 x2 b2 = true) :
    b1 = b2 := by
  have hl1 : b1.length = nNodes es := by
    simp only [minCutOK, cutPart, Bool.and_eq_true, decide_eq_true_eq] at h1; exact h1.2.1.1.1.1.1
  have hl2 : b2.length = nNodes es := by
    simp only [minCutOK, cutPart, Bool.and_eq_true, decide_eq_true_eq] at h2; exact h2.2.1.1.1.1.1
  obtain ⟨hs, ht, m1, sA1, tA1, c1, _, _, _, min1⟩ := FlowTheory.minCutOK_sound es s t r1 x1 b1 h1
  obtain ⟨_, _, m2, sA2, tA2, c2, _, _, _, min2⟩ := FlowTheory.minCutOK_sound es s t r2 x2 b2 h2
  have hx : x1 = x2 := maxFlowValue_unique m1 m2
  have hsub1 := min1 _ sA2 tA2 (by rw [c2, hx])
  have hsub2 := min2 _ sA1 tA1 (by rw [c1, hx])
  have hset := Finset.Subset.antisymm hsub1 hsub2
  apply List.ext_getElem (by rw [hl1, hl2])
  intro i h1' h2'
  have hi : i < nNodes es := by omega
  have := Finset.ext_iff.mp hset ⟨i, hi⟩
  simp only [mem_setOf] at this
  have e1 : b1.getD i false = b1[i] := by simp [List.getD_eq_getElem?_getD, h1']
  have e2 : b2.getD i false = b2[i] := by simp [List.getD_eq_getElem?_getD, h2']
  rw [e1, e2] at this
  cases hb1 : b1[i] <;> cases hb2 : b2[i] <;> simp_all

/-- **dinic_rerun_same_cut**: after a completed run of the Dinic model, `k` further `run()` calls on the same
    object leave the source-side assignment exactly as it was (the residual graph is untouched,
    `runAgainN_fixed`) -/
theorem dinic_rerun_same_cut (es : List Edge) (s t : Nat) (hnn : ∀ e, e ∈ es → 0 ≤ e.cap) (hst : s ≠ t)
    (hN : nNodes (es.map toE) + 2 < INV) (d : Dinic) (hd : Dinic.fromEdgeList es s t = some d)
    (fuel : Nat) (d' : Dinic) (h : d.run fuel = some d') (fuel' k src : Nat) :
    ∃ d'', Dinic.runAgainN (fuel' + 1) k d' = some d'' ∧ d''.assignment? src = d'.assignment? src := by
  obtain ⟨hs, ht, hq⟩ := run_quiet es s t hnn hst hN d hd fuel d' h
  obtain ⟨d'', h2, _, g2, q2⟩ := runAgainN_fixed (fun e => hst (Fin.mk.inj e)) hN fuel' k d' hq
  refine ⟨d'', h2, ?_⟩
  unfold Dinic.assignment?; rw [g2, q2.fin, hq.fin]

/-- **ek_ff_rerun_same_cut**: the same for EdmondsKarp / FordFulkerson -/
theorem ek_ff_rerun_same_cut (es : List Edge) (s t : Nat) (hnn : ∀ e, e ∈ es → 0 ≤ e.cap) (hst : s ≠ t)
    (hN : nNodes (es.map toE) ≤ INV) (pop : List Nat → Option (Nat × List Nat)) (hp : PopOK pop)
    (hl : PopLen pop) (fuel : Nat) (sv' : Solver) (h : (Solver.fromEdgeList es s t).run pop fuel = some sv')
    (fuel' k src : Nat) :
    ∃ sv'', Solver.runN pop (fuel' + 1) k sv' = some sv'' ∧ sv''.assignment? src = sv'.assignment? src := by
  obtain ⟨s2, h2, _, g2, f2, f1⟩ := Flow.ek_ff_rerun es s t hnn hst hN pop hp hl fuel sv' h fuel' k
  refine ⟨s2, h2, ?_⟩
  unfold Solver.assignment?; rw [g2, f2, f1]

/-- the tabulated checker the judge executes is the reference checker -/
theorem judge_checker_eq (es : List E) (s t : Nat) (res : List E) (x : ℤ) (bits : List Bool) :
    minCutFast es s t res x bits = minCutOK es s t res x bits := minCutFast_eq es s t res x bits

example : minCutFast d1E 0 4 d1R 10 [true, false, false, false, false] = true := by decide +kernel

end Tbx.Props.C02
