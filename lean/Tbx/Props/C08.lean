import Tbx.Model.Dijkstra
import Tbx.Model.DijkstraLegacy
import Tbx.Spec.ShortestPath
import Tbx.Proofs.DijkstraBasic
import Tbx.Proofs.CellIndex
import Tbx.Proofs.CellExact
import Tbx.Proofs.DijkstraExact
import Tbx.Proofs.DijkstraFuel
import Tbx.Proofs.DijkstraHeapInst
/-
C08 — Dijkstra searches and cell matrices return true shortest-path distances.

Property theorems only (helper lemmas live in Tbx/Proofs).  Registered in Tbx/Audit/C08.lean.
All theorems are about the executable models in Tbx/Model/Dijkstra.lean on top of the heap model
Tbx/Model/AHeap.lean; the queue interface the proofs use (`HeapLaws`) is DISCHARGED here from C10's
refinement theorems (`Tbx.Dijkstra.heapLaws : HeapLaws AHeap.Inv`), so nothing about the heap is assumed.

Notation: `adj u` = out-edges (target, weight) of u in edge order; `n` = number of nodes;
`WFq q` = the queue's weight-type constants are (0, usize::MAX); `UMAX` = usize::MAX.
-/
namespace Tbx.Props.C08
open Tbx Tbx.Dijkstra

/-! ### the judge -/

/-- the judge's distance oracle: Bellman-Ford labels that pass the certificate check are the true
distances, missing labels mean unreachable -/
theorem judge_oracle_sound {g : SP.Adj} {n s : Nat} (h : SP.certB g n s (SP.distB g n s) = true) (t : Nat) :
    match gt (SP.distB g n s) t with
    | some d => SP.IsDist g s t d
    | none => ¬ SP.Reachable g s t := SP.distB_spec h t

/-- the witness graph of D2/D3 in static-graph edge order: 0→1(1), 0→2(10), 1→2(1), 2→3(1), 0→3(5) -/
def exAdj : Adj := staticAdj [(0, 1, 1), (0, 2, 10), (1, 2, 1), (2, 3, 1), (0, 3, 5)]

def resultOf {α : Type} (r : Res (α × Int)) : Option Int := match r with | .ok (_, d) => some d | _ => none
def stateOf {α β : Type} (r : Res (α × β)) : Option α := match r with | .ok (st, _) => some st | _ => none

/-- non-vacuity: the certificate check succeeds on the witness graph (and the oracle says 3) -/
example : SP.certB exAdj 4 0 (SP.distB exAdj 4 0) = true ∧ gt (SP.distB exAdj 4 0) 3 = some 3 := by decide

/-! ### reuse (P0): `run` starts with `clear` -/

/-- the result of `run` (returned value AND complete search state) on a used object equals the
result on a fresh object -/
theorem reuse_eq_fresh (adj : Adj) (n : Nat) (st : Uni) (s t : Nat) (h : WFq st.queue) :
    uniRun adj n st s t = uniRun adj n Uni.new s t := uniRun_reuse adj n st s t h

theorem reuse_eq_fresh_o2m (adj : Adj) (n : Nat) (st : O2M) (source : Nat) (targets : List Nat) (h : WFq st.queue) :
    o2mRun adj n st source targets = o2mRun adj n O2M.new source targets := o2mRun_reuse adj n st source targets h

/-- `WFq` holds for a new object and is preserved by `run`, so it holds before every query of a history -/
theorem wf_preserved :
    WFq Uni.new.queue ∧ WFq O2M.new.queue ∧
    (∀ adj n st st' s t r, uniRun adj n st s t = .ok (st', r) → WFq st.queue → WFq st'.queue) ∧
    (∀ adj n st st' s ts ok, o2mRun adj n st s ts = .ok (st', ok) → WFq st.queue → WFq st'.queue) :=
  ⟨WFq_new_uni, WFq_new_o2m, fun adj n st st' s t r h hw => uniRun_params adj n st st' s t r h hw,
   fun adj n st st' s ts ok h hw => o2mRun_params adj n st st' s ts ok h hw⟩

/-- histories: any sequence of queries on ONE object yields, query by query, what a fresh object yields -/
theorem reuse_seq (adj : Adj) (n : Nat) (qs : List (Nat × Nat)) (ps : List (Nat × List Nat)) :
    uniSeq adj n Uni.new qs = uniSeqFresh adj n qs ∧ o2mSeq adj n O2M.new ps = o2mSeqFresh adj n ps :=
  ⟨uniSeq_eq_fresh adj n Uni.new WFq_new_uni qs, o2mSeq_eq_fresh adj n O2M.new WFq_new_o2m ps⟩

/-- non-vacuity: a used object (after the query 0→3) satisfies `WFq`, and a second query on it returns 2 -/
example : ∃ st, stateOf (uniRun exAdj 4 Uni.new 0 3) = some st ∧ WFq st.queue ∧
    resultOf (uniRun exAdj 4 st 0 2) = some 2 := by
  refine ⟨_, rfl, ⟨rfl, rfl⟩, rfl⟩

/-! ### cell matrices (P0): pure index arithmetic -/

/-- after `BaseCell::process` the matrix has |incoming|·|outgoing| entries and entry `i·|out| + j`
holds what the search from the i-th source id reported for the j-th target id (`cellEntry`: the
one-to-many run on a FRESH object — the reused one gives the same by `reuse_eq_fresh_o2m` — or
0/MAX for a boundary node without incident edge) -/
theorem matrix_index (c : BaseCell) (mc : MatrixCell) (h : process c = .ok mc) :
    mc.incoming = c.incoming ∧ mc.outgoing = c.outgoing ∧
    mc.matrix.size = c.incoming.length * c.outgoing.length ∧
    ∃ newEdges seenF sourceIds targetIds,
      renumber c.edges (c.outgoing.foldl orInsert (c.incoming.foldl orInsert [])) = some (newEdges, seenF) ∧
      lookupAll seenF c.incoming = some sourceIds ∧ lookupAll seenF c.outgoing = some targetIds ∧
      ∀ (i j source target : Nat), sourceIds[i]? = some source → targetIds[j]? = some target →
        i * c.outgoing.length + j < mc.matrix.size ∧
        gt mc.matrix (i * c.outgoing.length + j) =
          cellEntry (staticAdj newEdges) (staticNodes newEdges) c.edges.isEmpty targetIds source target UMAX :=
  process_matrix c mc h

/-- distinct (row, column) pairs have distinct addresses, so no entry is overwritten -/
theorem matrix_index_injective {m i j i' j' : Nat} (hj : j < m) (hj' : j' < m) (h : i * m + j = i' * m + j') :
    i = i' ∧ j = j' := idx_inj hj hj' h

/-- `get_distance_row(u)` is the slice `[i·|out|, (i+1)·|out|)` of the matrix for the (first) index
`i` of `u` in `incoming`: it has |out| entries and entry `j` is `matrix[i·|out| + j]` -/
theorem row_slice (c : MatrixCell) (u : Nat) (row : Array Int) (h : distanceRow c u = some row) :
    ∃ i, c.incoming[i]? = some u ∧ (∀ k, k < i → c.incoming[k]? ≠ some u) ∧
      row = c.matrix.extract (i * c.outgoing.length) ((i + 1) * c.outgoing.length) ∧
      row.size = c.outgoing.length ∧
      ∀ j, j < c.outgoing.length →
        i * c.outgoing.length + j < c.matrix.size ∧ gt row j = gt c.matrix (i * c.outgoing.length + j) :=
  distanceRow_spec c u row h

/-- `overlay_edges` lists, row-major, exactly the finite matrix cells: edge (i, j) is
`(incoming[i], outgoing[j], matrix[i·|out| + j])` -/
theorem overlay_index (c : MatrixCell) (r : Array (Nat × Nat × Int)) (h : overlayEdges c = some r) :
    r.toList = (List.range c.incoming.length).flatMap
      (fun i => (List.range c.outgoing.length).filterMap (overlayEntry c i)) := overlayEdges_spec c r h

/-- the D5 witness cell: 2 incoming × 3 outgoing -/
def exCell : BaseCell :=
  { incoming := [0, 1], outgoing := [2, 3, 4], edges := [(0, 2, 1), (0, 3, 2), (0, 4, 3), (1, 2, 4), (1, 3, 5), (1, 4, 6)] }

def matrixOf (r : Res MatrixCell) : Option (List Int) := match r with | .ok mc => some mc.matrix.toList | _ => none

/-- non-vacuity: `process` succeeds on a non-square cell; rows and overlay are as specified -/
example : matrixOf (process exCell) = some [1, 2, 3, 4, 5, 6] := by rfl
example : (distanceRow ⟨[0, 1], [2, 3, 4], #[1, 2, 3, 4, 5, 6]⟩ 1).map Array.toList = some [4, 5, 6] := by rfl
example : (overlayEdges ⟨[0, 1], [2, 3, 4], #[1, 2, 3, UMAX, 5, 6]⟩).map Array.toList =
    some [(0, 2, 1), (0, 3, 2), (0, 4, 3), (1, 3, 5), (1, 4, 6)] := by decide

/-- D5 (fixed): the legacy index expressions violate `row_slice` / `overlay_index` on the 2×3 witness:
row(1) had 4 entries and the overlay repeated column 0 -/
example : (Legacy.distanceRowD5 ⟨[0, 1], [2, 3, 4], #[1, 2, 3, 4, 5, 6]⟩ 1).map Array.toList = some [3, 4, 5, 6] := by rfl
example : (Legacy.overlayD5 ⟨[0, 1], [2, 3, 4], #[1, 2, 3, 4, 5, 6]⟩).map (fun e => e.2.2) = [1, 1, 1, 2, 3, 4] := by decide

/-! ### distances (P0: label_sound; P1: exactness, totality) -/

/-- **label_sound.**  After `run` every stored weight (of every node ever inserted, settled or still
queued) is the weight of a real walk from the source. -/
theorem label_sound (adj : Adj) (n : Nat) (st st' : Uni) (s t : Nat) (r : Int) (hw : WFq st.queue)
    (h : uniRun adj n st s t = .ok (st', r)) (v : Nat) (hv : AHeap.inserted st'.queue (v : Int) = true) :
    ∃ d : Nat, AHeap.weight st'.queue (v : Int) = (d : Int) ∧ SP.Walk adj s v d := by
  have := uniRun_spec heapLaws adj n st s t hw
  rw [h] at this
  obtain ⟨v', d, hv', hd, hwalk⟩ := (UniPost.core this).sound v hv
  have : v = v' := by omega
  subst this
  exact ⟨d, hd, hwalk⟩

theorem label_sound_o2m (adj : Adj) (n : Nat) (st st' : O2M) (s : Nat) (ts : List Nat) (ok : Bool)
    (hnd : ts.Nodup) (hw : WFq st.queue) (h : o2mRun adj n st s ts = .ok (st', ok)) (v : Nat)
    (hv : AHeap.inserted st'.queue (v : Int) = true) :
    ∃ d : Nat, st'.distance v = (d : Int) ∧ SP.Walk adj s v d := by
  have := o2mRun_spec heapLaws adj n st s ts hnd hw
  rw [h] at this
  obtain ⟨v', d, hv', hd, hwalk⟩ := this.1.linv.sound v hv
  have : v = v' := by omega
  subst this
  exact ⟨d, hd, hwalk⟩

/-- **dijkstra_exact.**  If `run(s,t)` returns `r` then `r` is the true distance, or `r` is the
unreachable marker and no walk s ⇝ t exists; and `run` never reaches a panic branch. -/
theorem dijkstra_exact (adj : Adj) (n : Nat) (st : Uni) (s t : Nat) (hw : WFq st.queue) :
    uniRun adj n st s t ≠ .panic ∧
    ∀ st' r, uniRun adj n st s t = .ok (st', r) →
      (∃ d : Nat, r = (d : Int) ∧ SP.IsDist adj s t d) ∨ (r = UMAX ∧ ¬ SP.Reachable adj s t) := by
  have := uniRun_spec heapLaws adj n st s t hw
  constructor
  · intro h; rw [h] at this; exact this
  · intro st' r h; rw [h] at this; exact UniPost.exact this

/-- with the side condition "distances stay below usize::MAX": marker ⇔ unreachable -/
theorem dijkstra_marker_iff (adj : Adj) (n : Nat) (st st' : Uni) (s t : Nat) (r : Int) (hw : WFq st.queue)
    (h : uniRun adj n st s t = .ok (st', r)) (hside : ∀ d, SP.IsDist adj s t d → (d : Int) < UMAX) :
    r = UMAX ↔ ¬ SP.Reachable adj s t := by
  rcases (dijkstra_exact adj n st s t hw).2 st' r h with ⟨d, hr, hd⟩ | ⟨hr, hn⟩
  · constructor
    · intro e; have := hside d hd; omega
    · intro hn; exact absurd ⟨d, hd.1⟩ hn
  · exact ⟨fun _ => hn, fun _ => hr⟩

/-- **fuel_sufficient / totality.**  On a graph whose edges stay below `n` and a source `< n`, the
`n + 1` iterations the model allows are enough: `run` returns. -/
theorem dijkstra_total (adj : Adj) (n : Nat) (st : Uni) (s t : Nat) (hw : WFq st.queue)
    (hb : Bounded adj n) (hs : s < n) : ∃ st' r, uniRun adj n st s t = .ok (st', r) := by
  obtain ⟨a, ha, _⟩ := Res.ok_of (uniRun_spec heapLaws adj n st s t hw) (uniRun_fuel heapLaws hb hs t st hw)
  exact ⟨a.1, a.2, ha⟩

/-- **one_to_many_exact.**  For distinct targets: `run` never panics; the success flag is true iff
all targets are reachable; and — whether or not it is true — `distance(t)` of every target is its
true distance, or the unreachable marker for an unreachable target.  (`BaseCell::process` relies on
the second part also when the flag is false.) -/
theorem one_to_many_exact (adj : Adj) (n : Nat) (st : O2M) (s : Nat) (ts : List Nat) (hnd : ts.Nodup)
    (hw : WFq st.queue) :
    o2mRun adj n st s ts ≠ .panic ∧
    ∀ st' ok, o2mRun adj n st s ts = .ok (st', ok) →
      (ok = true ↔ ∀ t ∈ ts, SP.Reachable adj s t) ∧
      ∀ t ∈ ts, (∃ d : Nat, st'.distance t = (d : Int) ∧ SP.IsDist adj s t d) ∨
                (st'.distance t = UMAX ∧ ¬ SP.Reachable adj s t) := by
  have := o2mRun_spec heapLaws adj n st s ts hnd hw
  constructor
  · intro h; rw [h] at this; exact this
  · intro st' ok h
    rw [h] at this
    obtain ⟨P, hok⟩ := this
    have := P.exact heapLaws
    simp only at hok
    rw [hok]
    exact this

theorem one_to_many_total (adj : Adj) (n : Nat) (st : O2M) (s : Nat) (ts : List Nat) (hnd : ts.Nodup)
    (hw : WFq st.queue) (hb : Bounded adj n) (hs : s < n) : ∃ st' ok, o2mRun adj n st s ts = .ok (st', ok) := by
  obtain ⟨a, ha, _⟩ := Res.ok_of (o2mRun_spec heapLaws adj n st s ts hnd hw) (o2mRun_fuel heapLaws hb hs ts st hw)
  exact ⟨a.1, a.2, ha⟩

/-- non-vacuity of the hypotheses above: the witness graph is bounded by 4, the run 0→3 returns 3
(the value the legacy heap got wrong: 5), one-to-many {3,2} succeeds with distances 3 and 2 -/
example : Bounded exAdj 4 := by
  intro u hu v w h
  have : u = 0 ∨ u = 1 ∨ u = 2 ∨ u = 3 := by omega
  rcases this with rfl | rfl | rfl | rfl <;> simp [exAdj, staticAdj, sortEdges, insertSorted, edgeLe] at h <;> omega
example : resultOf (uniRun exAdj 4 Uni.new 0 3) = some 3 := by rfl
example : (match o2mRun exAdj 4 O2M.new 0 [3, 2] with
    | .ok (st, ok) => some (ok, st.distance 3, st.distance 2) | _ => none) = some (true, 3, 2) := by rfl

/-! ### the matrix holds the true boundary distances -/

/-- **matrix_exact.**  For every cell whose outgoing boundary list has no duplicates (nodes may be
incoming AND outgoing, boundary nodes may have no incident edge, incoming may be in any order):
`process` returns (no panic, enough fuel), the matrix has |in|·|out| entries, and
`matrix[i·|out| + j]` is the true distance from `incoming[i]` to `outgoing[j]` in the cell's own
graph `cellGraph c.edges` (original node ids) — or the unreachable marker iff no walk exists. -/
theorem matrix_exact (c : BaseCell) (hout : c.outgoing.Nodup) :
    ∃ mc, process c = .ok mc ∧ mc.incoming = c.incoming ∧ mc.outgoing = c.outgoing ∧
      mc.matrix.size = c.incoming.length * c.outgoing.length ∧
      ∀ (i j a b : Nat), c.incoming[i]? = some a → c.outgoing[j]? = some b →
        (∃ d : Nat, gt mc.matrix (i * c.outgoing.length + j) = (d : Int) ∧ SP.IsDist (cellGraph c.edges) a b d) ∨
        (gt mc.matrix (i * c.outgoing.length + j) = UMAX ∧ ¬ SP.Reachable (cellGraph c.edges) a b) :=
  process_exact c hout

/-- non-vacuity: the witness cell of the overlap defect (node 2 incoming and outgoing) satisfies the
hypothesis and gets the matrix [4, 9, 0, 5] -/
example : ([2, 3] : List Nat).Nodup := by decide
example : matrixOf (process { incoming := [1, 2], outgoing := [2, 3], edges := [(1, 2, 4), (2, 3, 5)] }) =
    some [4, 9, 0, 5] := by rfl
/-- … and a boundary node beyond the searched subgraph reaches nothing -/
example : matrixOf (process { incoming := [1, 2], outgoing := [3], edges := [(1, 1, 5)] }) = some [UMAX, UMAX] := by rfl

end Tbx.Props.C08
