import Tbx.Model.Dijkstra
import Tbx.Spec.ShortestPath
/-
C08 — Dijkstra searches and cell matrices return true shortest-path distances.
Property theorems only (helper lemmas live in Tbx/Proofs).  Registered in Tbx/Audit/C08.lean.
-/
namespace Tbx.Props.C08
open Tbx Tbx.Dijkstra

/-- the judge's distance oracle: Bellman-Ford labels that pass the certificate check are the true
distances, missing labels mean unreachable -/
theorem judge_oracle_sound {g : SP.Adj} {n s : Nat} (h : SP.certB g n s (SP.distB g n s) = true) (t : Nat) :
    match gt (SP.distB g n s) t with
    | some d => SP.IsDist g s t d
    | none => ¬ SP.Reachable g s t := SP.distB_spec h t

end Tbx.Props.C08
