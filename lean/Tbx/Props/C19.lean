import Tbx.Proofs.GeoCross
import Tbx.Proofs.GeoBBox
import Tbx.Proofs.GeoZOrder
import Tbx.Proofs.GeoHull
import Tbx.Proofs.GeoHullFlat
import Tbx.Proofs.GeoScaffold
import Tbx.Proofs.GeoEncloseAsm
import Tbx.Proofs.GeoHullSpec
import Tbx.Proofs.GeoHullI64
import Tbx.Proofs.MercatorReal
/-
C19 — geometric primitives: hulls enclose, z-order is total, projections invert.

Property theorems only (helper lemmas live in Tbx/Proofs/Geo*.lean), each with a non-vacuity
example.  Registered in Tbx/Audit/C19.lean.  Not stated in Lean: the floating-point clauses (box distance,
Mercator and tile inverses); they are judged on the real code's bit patterns (Tbx/Drv/C19.lean).
Every clause is also tested on every generated case with the kernel-checked checkers of
Tbx/Spec/Geometry.lean.
-/
namespace Tbx.Props.C19
open Tbx Tbx.Geo

/-! ### orientation test -/

/-- for valid coordinates no intermediate of `cross_product` / `is_clock_wise_turn` leaves the i64 range
(every checked step returns `some`), the results are the integer cross product and its sign test -/
theorem cross_no_overflow (o a b : Coord) (ho : ValidCoord o) (ha : ValidCoord a) (hb : ValidCoord b) :
    crossI64 o a b = some (cross o a b) ∧ isCWI64 o a b = some (isCW o a b) ∧
    (isCW o a b = true ↔ 0 < cross o a b) :=
  crossI64_eq ho ha hb

/-- non-vacuity: the extreme corners of the range are valid and give the largest products -/
example : ValidCoord ⟨90000000, -180000000⟩ ∧ ValidCoord ⟨-90000000, 180000000⟩ ∧ ValidCoord ⟨90000000, 180000000⟩ ∧
    crossI64 ⟨90000000, -180000000⟩ ⟨-90000000, 180000000⟩ ⟨90000000, 180000000⟩ = some 64800000000000000 := by
  decide
/-- the range hypothesis is needed: on arbitrary i32 coordinates the product leaves the i64 range -/
example : crossI64 ⟨-2147483648, -2147483648⟩ ⟨2147483647, 2147483647⟩ ⟨2147483647, -2147483648⟩ = none := by
  decide

/-! ### bounding boxes -/

/-- `contains` is true exactly for the coordinates between the corners -/
theorem bbox_contains_iff (b : BoxCorners) (q : Coord) : boxContains b q = true ↔ Between b q :=
  boxContains_iff b q

example : boxContains ⟨10, 10, 20, 20⟩ ⟨15, 15⟩ = true ∧ boxContains ⟨10, 10, 20, 20⟩ ⟨9, 15⟩ = false := by decide

/-- `extend_with` only grows: everything contained in either box is contained afterwards, and the result
is the least such box (componentwise join of the corners) -/
theorem bbox_extend_mono (b o : BoxCorners) :
    (∀ q, Between b q → Between (boxExtend b o) q) ∧ (∀ q, Between o q → Between (boxExtend b o) q) ∧
    boxExtend b o = joinCorners b o ∧
    (∀ r : BoxCorners,
      (r.minLat ≤ b.minLat ∧ r.minLon ≤ b.minLon ∧ b.maxLat ≤ r.maxLat ∧ b.maxLon ≤ r.maxLon) →
      (r.minLat ≤ o.minLat ∧ r.minLon ≤ o.minLon ∧ o.maxLat ≤ r.maxLat ∧ o.maxLon ≤ r.maxLon) →
      r.minLat ≤ (boxExtend b o).minLat ∧ r.minLon ≤ (boxExtend b o).minLon ∧
      (boxExtend b o).maxLat ≤ r.maxLat ∧ (boxExtend b o).maxLon ≤ r.maxLon) :=
  ⟨fun _ h => between_extend_left h, fun _ h => between_extend_right h, rfl, fun _ hb ho => extend_least hb ho⟩

example : Between ⟨10, -20, 15, -10⟩ ⟨12, -15⟩ ∧ ¬ Between ⟨12, 0, 14, 10⟩ ⟨12, -15⟩ ∧
    boxExtend ⟨10, -20, 15, -10⟩ ⟨12, 0, 14, 10⟩ = ⟨10, -20, 15, 10⟩ := by decide

/-- the box of a non-empty list of i32 coordinates has exactly the componentwise minimum and maximum as
corners (each corner value is attained, every coordinate is inside), hence contains exactly the points
between the componentwise minimum and maximum of the list -/
theorem bbox_from_coordinates (cs : List Coord) (hne : cs ≠ []) (hI : ∀ c ∈ cs, CoordI32 c) :
    IsBoxOf (boxFromCoordinates cs) cs ∧
    ∀ q, boxContains (boxFromCoordinates cs) q = true ↔
      (∃ c ∈ cs, c.lat ≤ q.lat) ∧ (∃ c ∈ cs, q.lat ≤ c.lat) ∧ (∃ c ∈ cs, c.lon ≤ q.lon) ∧ (∃ c ∈ cs, q.lon ≤ c.lon) := by
  have h := boxFromCoordinates_isBoxOf cs hne hI
  exact ⟨h, fun q => (boxContains_iff _ q).trans (isBoxOf_between_iff h q)⟩

example : ([⟨11, 50⟩, ⟨50, 37⟩] : List Coord) ≠ [] ∧ (∀ c ∈ ([⟨11, 50⟩, ⟨50, 37⟩] : List Coord), CoordI32 c) ∧
    boxFromCoordinates [⟨11, 50⟩, ⟨50, 37⟩] = ⟨11, 37, 50, 50⟩ := by decide

/-- the judge's box check is the Spec -/
theorem judge_box_sound (b : BoxCorners) (cs : List Coord) : isBoxOfB b cs = true ↔ IsBoxOf b cs :=
  isBoxOfB_iff b cs

/-! ### z-order -/

/-- `zorder_cmp` is the comparison of the interleaved keys: sign bits flipped, latitude the more
significant bit of every pair -/
theorem zorder_key (a b : Coord) (ha : CoordI32 a) (hb : CoordI32 b) :
    zorderCmp a b = compare (zkey a) (zkey b) :=
  zorderCmp_eq_key a b ha hb

example : CoordI32 ⟨-1, 5⟩ ∧ CoordI32 ⟨0, -7⟩ ∧ zorderCmp ⟨-1, 5⟩ ⟨0, -7⟩ = .lt ∧ zkey ⟨-1, 5⟩ < zkey ⟨0, -7⟩ := by
  decide

/-- hence a strict total order consistent with equality -/
theorem zorder_strict_total (a b c : Coord) (ha : CoordI32 a) (hb : CoordI32 b) (hc : CoordI32 c) :
    zorderCmp a a = .eq ∧
    (zorderCmp a b = .eq ↔ a = b) ∧
    (zorderCmp a b = .lt ↔ zorderCmp b a = .gt) ∧
    (zorderCmp a b = .lt → zorderCmp b c = .lt → zorderCmp a c = .lt) ∧
    (zorderCmp a b = .lt ∨ a = b ∨ zorderCmp a b = .gt) :=
  zorderCmp_strict_total a b c ha hb hc

example : CoordI32 ⟨-2147483648, 2147483647⟩ ∧ CoordI32 ⟨2147483647, -2147483648⟩ ∧ CoordI32 ⟨0, 1⟩ := by decide

/-! ### hulls -/

/-- up to three points are returned as they are -/
theorem hull_small (pts : List Coord) (h : pts.length ≤ 3) : monotoneChain pts = pts := by
  simp [monotoneChain, h]

example : monotoneChain [⟨33424732, -114905286⟩, ⟨33412827, -114981799⟩, ⟨33440700, -114920131⟩] =
    [⟨33424732, -114905286⟩, ⟨33412827, -114981799⟩, ⟨33440700, -114920131⟩] := by decide

/-- every vertex of the returned hull is an input point -/
theorem hull_subset (pts : List Coord) : ∀ v ∈ monotoneChain pts, v ∈ pts :=
  monotoneChain_subset pts

example : monotoneChain [⟨0, 0⟩, ⟨0, 2⟩, ⟨2, 2⟩, ⟨2, 0⟩, ⟨1, 1⟩, ⟨0, 1⟩] = [⟨0, 0⟩, ⟨0, 2⟩, ⟨2, 2⟩, ⟨2, 0⟩] := by decide

/-- stack invariant: in each of the two chains (the stack after each pass, in push order) every three
consecutive points make a strict turn (`cross > 0`), and the output is the lower chain without its last
point followed by the upper chain without its last point -/
theorem hull_chain_turns (pts : List Coord) :
    ConsecTurns (lowerStack (sortLonLat pts)).reverse ∧
    ConsecTurns (lowerStack (sortLonLat pts).reverse).reverse ∧
    (3 < pts.length → monotoneChain pts =
      (lowerStack (sortLonLat pts)).reverse.dropLast ++ (lowerStack (sortLonLat pts).reverse).reverse.dropLast) :=
  ⟨lowerStack_consecTurns _, lowerStack_consecTurns _, monotoneChain_eq pts⟩

/-- non-vacuity: a chain with an actual triple (and a popped point (1,1)) -/
example : (lowerStack (sortLonLat [⟨0, 0⟩, ⟨1, 1⟩, ⟨0, 2⟩, ⟨3, 3⟩, ⟨3, 0⟩])).reverse = [⟨0, 0⟩, ⟨0, 2⟩, ⟨3, 3⟩] ∧
    [(⟨0, 0⟩ : Coord), ⟨0, 2⟩, ⟨3, 3⟩] <:+: [⟨0, 0⟩, ⟨0, 2⟩, ⟨3, 3⟩] ∧ 0 < cross ⟨0, 0⟩ ⟨0, 2⟩ ⟨3, 3⟩ := by
  refine ⟨by decide, List.infix_refl _, by decide⟩

/-- more than three points without any strict turn among them (all collinear, in particular all equal):
the hull is the smallest and the largest point of the (lon, lat) order, which are input points bounding
all others; all points equal: that point twice -/
theorem hull_degenerate (pts : List Coord) (hn : 3 < pts.length)
    (hflat : ∀ o ∈ pts, ∀ a ∈ pts, ∀ p ∈ pts, cross o a p = 0) :
    ∃ lo hi, monotoneChain pts = [lo, hi] ∧ lo ∈ pts ∧ hi ∈ pts ∧
      (sortLonLat pts).head? = some lo ∧ (sortLonLat pts).getLast? = some hi ∧
      (∀ q ∈ pts, lonLatLe lo q = true ∧ lonLatLe q hi = true) ∧
      ((∀ q ∈ pts, ∀ q' ∈ pts, q = q') → lo = hi) :=
  monotoneChain_flat pts hn hflat

/-- non-vacuity: a collinear input with duplicates, and four equal points -/
example : (∀ o ∈ ([⟨1, 1⟩, ⟨3, 3⟩, ⟨2, 2⟩, ⟨2, 2⟩, ⟨0, 0⟩] : List Coord), ∀ a ∈ ([⟨1, 1⟩, ⟨3, 3⟩, ⟨2, 2⟩, ⟨2, 2⟩, ⟨0, 0⟩] : List Coord),
      ∀ p ∈ ([⟨1, 1⟩, ⟨3, 3⟩, ⟨2, 2⟩, ⟨2, 2⟩, ⟨0, 0⟩] : List Coord), cross o a p = 0) ∧
    monotoneChain [⟨1, 1⟩, ⟨3, 3⟩, ⟨2, 2⟩, ⟨2, 2⟩, ⟨0, 0⟩] = [⟨0, 0⟩, ⟨3, 3⟩] ∧
    monotoneChain [⟨5, 7⟩, ⟨5, 7⟩, ⟨5, 7⟩, ⟨5, 7⟩] = [⟨5, 7⟩, ⟨5, 7⟩] := by decide

/-- the hull of more than three points encloses every input point: each input point lies on the left of
(or on) every directed edge of the returned polygon (orientation +1: `cross > 0` is the inner side).
Loop invariant in Tbx/Proofs/GeoEnclose.lean, four orientation lemmas in Tbx/Proofs/GeoPlane.lean. -/
theorem hull_encloses (pts : List Coord) (hn : 3 < pts.length) : Encloses 1 (monotoneChain pts) pts :=
  monotoneChain_encloses pts hn

/-- non-vacuity: an input with interior, collinear-boundary and duplicate points -/
example : 3 < ([⟨0, 0⟩, ⟨0, 2⟩, ⟨2, 2⟩, ⟨2, 0⟩, ⟨1, 1⟩, ⟨0, 1⟩, ⟨2, 2⟩] : List Coord).length ∧
    monotoneChain [⟨0, 0⟩, ⟨0, 2⟩, ⟨2, 2⟩, ⟨2, 0⟩, ⟨1, 1⟩, ⟨0, 1⟩, ⟨2, 2⟩] = [⟨0, 0⟩, ⟨0, 2⟩, ⟨2, 2⟩, ⟨2, 0⟩] ∧
    ¬ Encloses 1 [⟨0, 0⟩, ⟨0, 2⟩, ⟨2, 2⟩] [⟨0, 0⟩, ⟨0, 2⟩, ⟨2, 2⟩, ⟨2, 0⟩] := by
  refine ⟨by decide, by decide, ?_⟩
  rw [← enclosesB_iff]; decide

/-- … and, unless all input points are collinear, is globally strictly convex: at least three pairwise
different vertices, and every vertex other than an edge's own end points lies strictly on the inner side
of that edge (Tbx/Proofs/GeoConvex.lean, GeoConvexAsm.lean) -/
theorem hull_strictly_convex (pts : List Coord) (hn : 3 < pts.length)
    (hnd : ∃ o ∈ pts, ∃ a ∈ pts, ∃ p ∈ pts, cross o a p ≠ 0) : StrictlyConvex 1 (monotoneChain pts) :=
  monotoneChain_strictlyConvex pts hn hnd

example : (∃ o ∈ ([⟨0, 0⟩, ⟨0, 2⟩, ⟨2, 2⟩, ⟨2, 0⟩, ⟨1, 1⟩] : List Coord), ∃ a ∈ ([⟨0, 0⟩, ⟨0, 2⟩, ⟨2, 2⟩, ⟨2, 0⟩, ⟨1, 1⟩] : List Coord),
    ∃ p ∈ ([⟨0, 0⟩, ⟨0, 2⟩, ⟨2, 2⟩, ⟨2, 0⟩, ⟨1, 1⟩] : List Coord), cross o a p ≠ 0) ∧
    ¬ StrictlyConvex 1 [⟨0, 0⟩, ⟨0, 1⟩, ⟨0, 2⟩, ⟨2, 2⟩, ⟨2, 0⟩] := by
  refine ⟨⟨⟨0, 0⟩, by simp, ⟨0, 2⟩, by simp, ⟨2, 2⟩, by simp, by decide⟩, ?_⟩
  rw [← strictlyConvexB_iff]; decide

/-- headline clause: for every input the model's output satisfies the whole hull Spec — up to three points
are returned as they are; otherwise the output consists of input points and is a strictly convex polygon
enclosing all input points, or the two end points of the segment carrying them, or copies of the single point -/
theorem hull_spec (pts : List Coord) : HullSpec pts (monotoneChain pts) :=
  monotoneChain_hullSpec pts

/-- on the valid latitude/longitude range the hull computation with the i64 orientation test of the source
never overflows and returns exactly the model's hull, so `hull_spec` speaks about the i64 algorithm -/
theorem hull_no_overflow (pts : List Coord) (hv : ∀ p ∈ pts, ValidCoord p) :
    monotoneChainI64 pts = some (monotoneChain pts) ∧ HullSpec pts (monotoneChain pts) :=
  ⟨monotoneChainI64_eq pts hv, monotoneChain_hullSpec pts⟩

example : (∀ p ∈ ([⟨90000000, 180000000⟩, ⟨-90000000, 180000000⟩, ⟨90000000, -180000000⟩, ⟨-90000000, -180000000⟩, ⟨0, 0⟩] : List Coord),
      ValidCoord p) ∧
    monotoneChainI64 [⟨90000000, 180000000⟩, ⟨-90000000, 180000000⟩, ⟨90000000, -180000000⟩, ⟨-90000000, -180000000⟩, ⟨0, 0⟩] =
      some [⟨-90000000, -180000000⟩, ⟨-90000000, 180000000⟩, ⟨90000000, 180000000⟩, ⟨90000000, -180000000⟩] ∧
    monotoneChainI64 [⟨2147483647, 2147483647⟩, ⟨-2147483648, 2147483647⟩, ⟨2147483647, -2147483648⟩,
      ⟨-2147483648, -2147483648⟩, ⟨0, 0⟩] = none := by decide

/-- the judge's hull check is the Spec -/
theorem judge_hull_sound (pts h : List Coord) : hullSpecB pts h = true ↔ HullSpec pts h :=
  hullSpecB_iff pts h

example : HullSpec [⟨0, 0⟩, ⟨0, 2⟩, ⟨2, 2⟩, ⟨2, 0⟩, ⟨1, 1⟩, ⟨0, 1⟩] [⟨0, 0⟩, ⟨0, 2⟩, ⟨2, 2⟩, ⟨2, 0⟩] ∧
    ¬ HullSpec [⟨0, 0⟩, ⟨0, 2⟩, ⟨2, 2⟩, ⟨2, 0⟩, ⟨1, 1⟩, ⟨0, 1⟩] [⟨0, 0⟩, ⟨0, 1⟩, ⟨0, 2⟩, ⟨2, 2⟩, ⟨2, 0⟩] := by
  rw [← judge_hull_sound, ← judge_hull_sound]; decide

/-! ### scaffold -/

/-- one feature per distinct cell id; its ring is the hull of exactly the nodes carrying that id, closed
by repeating the first vertex -/
theorem scaffold_groups (ns : List SNode) :
    ((scaffoldFeatures ns).map (·.id)).Nodup ∧
    (∀ id, id ∈ (scaffoldFeatures ns).map (·.id) ↔ ∃ n ∈ ns, n.pid = id) ∧
    (∀ f ∈ scaffoldFeatures ns,
      f.ring = monotoneChain (cellOf ns f.id) ++ (monotoneChain (cellOf ns f.id)).take 1 ∧
      ∀ c, c ∈ cellOf ns f.id ↔ ∃ n ∈ ns, n.pid = f.id ∧ n.p = c) := by
  have hid : (scaffoldFeatures ns).map (·.id) = cellIds ns := by
    simp [scaffoldFeatures, List.map_map, Function.comp_def]
  refine ⟨hid ▸ cellIds_nodup ns, fun id => hid ▸ mem_cellIds ns id, ?_⟩
  intro f hf
  simp only [scaffoldFeatures, List.mem_map] at hf
  obtain ⟨id, _, rfl⟩ := hf
  exact ⟨rfl, fun c => mem_cellOf ns id c⟩

/-- … and that ring is closed and is a correct hull (whole hull Spec) of exactly the nodes of its cell -/
theorem scaffold_closed_hulls (ns : List SNode) : ∀ f ∈ scaffoldFeatures ns,
    ∃ h, f.ring = h ++ h.take 1 ∧ HullSpec (cellOf ns f.id) h ∧ f.ring.head? = f.ring.getLast? := by
  intro f hf
  obtain ⟨hr, _⟩ := (scaffold_groups ns).2.2 f hf
  refine ⟨monotoneChain (cellOf ns f.id), hr, monotoneChain_hullSpec _, ?_⟩
  rw [hr]
  cases monotoneChain (cellOf ns f.id) with
  | nil => rfl
  | cons a t =>
    have : a :: t ++ List.take 1 (a :: t) = (a :: t) ++ [a] := rfl
    rw [this, List.getLast?_append]
    rfl

example : (scaffoldFeatures [⟨⟨0, 0⟩, 7⟩, ⟨⟨1, 1⟩, 3⟩, ⟨⟨0, 5⟩, 7⟩]).map (fun f => (f.id, f.ring)) =
    [(3, [⟨1, 1⟩, ⟨1, 1⟩]), (7, [⟨0, 0⟩, ⟨0, 5⟩, ⟨0, 0⟩])] := by decide

/-! ### Mercator over the reals -/

/-- partial (what is missing: the clamp of `y_to_lat` to ±180, i.e. |lat_to_y φ| ≤ 180 on the range, which
needs a numeric bound on ln/sin near 85.05°): over the reals, on the property's latitude range the
latitude clamp of `lat_to_y` is inactive and the unclamped `y_to_lat` formula inverts `lat_to_y` -/
theorem mercator_inverse_real_partial (φ : ℝ) (h : |φ| ≤ 85.05) : Merc.yToLatU (Merc.latToYR φ) = φ :=
  Merc.yToLatU_latToYR φ h

example : |(51 : ℝ)| ≤ 85.05 := by norm_num

/-- full strength, with both clamps of the source (stated, not proved; the f64 functions are checked by the
judge within the documented tolerances on every generated latitude) -/
def mercator_inverse_real_statement : Prop :=
  ∀ φ : ℝ, |φ| ≤ 85.05 → Merc.yToLatR (Merc.latToYR φ) = φ

end Tbx.Props.C19
