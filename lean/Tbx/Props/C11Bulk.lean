import Tbx.Model.LruL0
/-
C11 bulk cases: the closed form the driver uses as its judge (`Tbx.Drv.C11.bulkLines`) proved from
the recency-list specification `Tbx.LruL0`.

History: `push 0 (v 0); push 1 (v 1); …; push (n-1) (v (n-1))` on the empty cache of capacity `c ≥ 1`
(`bulkOps v n`).  Result: the entries, most recent first, are the keys n-1, n-2, …, n - min n c with
their values (`bulk_items`); everything the driver prints for a bulk case follows.
-/
namespace Tbx.Props.C11Bulk
open Tbx.LruL0

variable {V : Type}

/-- the bulk history: the distinct keys 0..n-1 in increasing order, key `i` with value `v i` -/
def bulkOps (v : Nat → V) (n : Nat) : List (Op Nat V) :=
  (List.range n).map (fun i => Op.push i (v i))

/-- the state after the bulk history -/
def bulkState (c : Nat) (v : Nat → V) (n : Nat) : Cache Nat V :=
  run (init c) (bulkOps v n)

/-- the closed form: keys n-1, n-2, …, n - min n c, most recent first -/
def closedItems (c : Nat) (v : Nat → V) (n : Nat) : List (Nat × V) :=
  (List.range' (n - min n c) (min n c)).reverse.map (fun k => (k, v k))

/-! ### helper lemmas -/

theorem bulkOps_succ (v : Nat → V) (n : Nat) :
    bulkOps v (n + 1) = bulkOps v n ++ [Op.push n (v n)] := by
  simp [bulkOps, List.range_succ]

theorem bulkState_succ (c : Nat) (v : Nat → V) (n : Nat) :
    bulkState c v (n + 1) = push (bulkState c v n) n (v n) := by
  simp [bulkState, bulkOps_succ, run, List.foldl_append, step]

theorem mem_closedItems (c : Nat) (v : Nat → V) (n : Nat) (p : Nat × V) :
    p ∈ closedItems c v n ↔ (n - min n c ≤ p.1 ∧ p.1 < n) ∧ p.2 = v p.1 := by
  rcases p with ⟨k, x⟩
  simp only [closedItems, List.mem_map, List.mem_reverse, List.mem_range'_1, Prod.mk.injEq]
  constructor
  · rintro ⟨a, ⟨h1, h2⟩, rfl, rfl⟩
    exact ⟨⟨h1, by omega⟩, rfl⟩
  · rintro ⟨⟨h1, h2⟩, h3⟩
    exact ⟨k, ⟨h1, by omega⟩, rfl, h3.symm⟩

theorem length_closedItems (c : Nat) (v : Nat → V) (n : Nat) :
    (closedItems c v n).length = min n c := by
  simp [closedItems]

/-- one push on the closed form, cache not full -/
theorem closedItems_succ_room (c : Nat) (v : Nat → V) (n : Nat) (h : n < c) :
    closedItems c v (n + 1) = (n, v n) :: closedItems c v n := by
  have e1 : min (n + 1) c = n + 1 := by omega
  have e2 : min n c = n := by omega
  simp only [closedItems, e1, e2, Nat.sub_self]
  rw [List.range'_concat]
  simp

/-- one push on the closed form, cache full: the back entry leaves -/
theorem closedItems_succ_full (c : Nat) (hc : 1 ≤ c) (v : Nat → V) (n : Nat) (h : c ≤ n) :
    closedItems c v (n + 1) = (n, v n) :: (closedItems c v n).dropLast := by
  have e1 : min (n + 1) c = c := by omega
  have e2 : min n c = c := by omega
  simp only [closedItems, e1, e2]
  obtain ⟨d, rfl⟩ : ∃ d, c = d + 1 := ⟨c - 1, by omega⟩
  have e3 : n + 1 - (d + 1) = n - (d + 1) + 1 := by omega
  have e4 : n - (d + 1) + 1 + 1 * d = n := by omega
  have hL : List.range' (n + 1 - (d + 1)) (d + 1) = List.range' (n - (d + 1) + 1) d ++ [n] := by
    rw [e3, List.range'_concat, e4]
  have hR : List.range' (n - (d + 1)) (d + 1) = (n - (d + 1)) :: List.range' (n - (d + 1) + 1) d := by
    rw [List.range'_succ]
  rw [hL, hR]
  simp

/-! ### the invariant -/

/-- **bulk_items** (clause 5, and the invariant everything else follows from): after the bulk history
    the entries in recency order, most recent first, are exactly n-1, n-2, …, n - min n c with their
    values; the capacity is unchanged. -/
theorem bulk_items (c : Nat) (hc : 1 ≤ c) (v : Nat → V) (n : Nat) :
    (bulkState c v n).items = closedItems c v n ∧ (bulkState c v n).cap = c := by
  induction n with
  | zero => simp [bulkState, bulkOps, run, init, closedItems]
  | succ n ih =>
    obtain ⟨hi, hcap⟩ := ih
    rw [bulkState_succ]
    have hnc : contains (bulkState c v n) n = false := by
      simp only [contains, hi, List.any_eq_false]
      intro p hp
      have := ((mem_closedItems c v n p).1 hp).1.2
      simp; omega
    have hlen : (bulkState c v n).items.length = min n c := by rw [hi, length_closedItems]
    unfold push
    rw [hnc]
    simp only [Bool.false_eq_true, if_false, hlen, hcap]
    by_cases hfull : min n c = c
    · rw [if_pos hfull]
      refine ⟨?_, rfl⟩
      show (n, v n) :: (bulkState c v n).items.dropLast = _
      rw [hi, closedItems_succ_full c hc v n (by omega)]
    · rw [if_neg hfull]
      refine ⟨?_, rfl⟩
      show (n, v n) :: (bulkState c v n).items = _
      rw [hi, closedItems_succ_room c v n (by omega)]

example : (bulkState 3 (fun i => i) 7).items = [(6, 6), (5, 5), (4, 4)] := by
  exact (bulk_items 3 (by decide) (fun i => i) 7).1.trans (by decide)

example : (bulkState 3 (fun i => i) 7).items = [(6, 6), (5, 5), (4, 4)] := by decide

/-- clause 5 on keys: the keys in recency order, most recent first -/
theorem bulk_keys (c : Nat) (hc : 1 ≤ c) (v : Nat → V) (n : Nat) :
    keys (bulkState c v n) = (List.range' (n - min n c) (min n c)).reverse := by
  simp [keys, (bulk_items c hc v n).1, closedItems, Function.comp_def]

example : keys (bulkState 3 (fun i => 10 * i) 7) = [6, 5, 4] := by
  exact (bulk_keys 3 (by decide) (fun i => 10 * i) 7).trans (by decide)

/-- **bulk_len** (clause 1): the number of entries is `min n c` -/
theorem bulk_len (c : Nat) (hc : 1 ≤ c) (v : Nat → V) (n : Nat) :
    len (bulkState c v n) = min n c := by
  rw [len, (bulk_items c hc v n).1, length_closedItems]

example : len (bulkState 3 (fun i => i) 7) = 3 := bulk_len 3 (by decide) _ 7
example : len (bulkState 5 (fun i => i) 2) = 2 := bulk_len 5 (by decide) _ 2

theorem bulk_isEmpty (c : Nat) (hc : 1 ≤ c) (v : Nat → V) (n : Nat) :
    isEmpty (bulkState c v n) = decide (min n c = 0) := by
  have := bulk_len c hc v n
  simp only [len] at this
  rw [isEmpty, this]
  generalize min n c = m
  cases m <;> rfl

example : isEmpty (bulkState 3 (fun i => i) 7) = false := by
  exact (bulk_isEmpty 3 (by decide) (fun i => i) 7).trans (by decide)

/-- **bulk_contains** (clause 2): key `k` is contained iff it is one of the last `min n c` keys -/
theorem bulk_contains (c : Nat) (hc : 1 ≤ c) (v : Nat → V) (n k : Nat) :
    contains (bulkState c v n) k = true ↔ n - min n c ≤ k ∧ k < n := by
  simp only [contains, (bulk_items c hc v n).1, List.any_eq_true]
  constructor
  · rintro ⟨p, hp, hk⟩
    have h := ((mem_closedItems c v n p).1 hp).1
    have : p.1 = k := by simpa using hk
    omega
  · intro h
    exact ⟨(k, v k), (mem_closedItems c v n (k, v k)).2 ⟨h, rfl⟩, by simp⟩

/-- the form the driver uses: `has k = decide (k < n ∧ n - m ≤ k)` -/
theorem bulk_contains_eq (c : Nat) (hc : 1 ≤ c) (v : Nat → V) (n k : Nat) :
    contains (bulkState c v n) k = decide (k < n ∧ n - min n c ≤ k) := by
  have h := bulk_contains c hc v n k
  by_cases hk : k < n ∧ n - min n c ≤ k
  · rw [decide_eq_true hk]; exact h.2 ⟨hk.2, hk.1⟩
  · rw [decide_eq_false hk]
    cases hb : contains (bulkState c v n) k
    · rfl
    · exact absurd (h.1 hb) (fun h' => hk ⟨h'.2, h'.1⟩)

example : contains (bulkState 3 (fun i => i) 7) 4 = true :=
  (bulk_contains 3 (by decide) _ 7 4).2 (by decide)
example : contains (bulkState 3 (fun i => i) 7) 3 = false := by
  rw [bulk_contains_eq 3 (by decide)]; decide

/-- all stored pairs are `(k, v k)`: `find?` on the closed form -/
theorem find_closedItems (c : Nat) (v : Nat → V) (n k : Nat) (h : n - min n c ≤ k ∧ k < n) :
    (closedItems c v n).find? (fun p => p.1 == k) = some (k, v k) := by
  cases hf : (closedItems c v n).find? (fun p => p.1 == k) with
  | none =>
    rw [List.find?_eq_none] at hf
    have := hf (k, v k) ((mem_closedItems c v n (k, v k)).2 ⟨h, rfl⟩)
    simp at this
  | some p =>
    have hm := List.mem_of_find?_eq_some hf
    have hk := List.find?_some hf
    have hv := ((mem_closedItems c v n p).1 hm).2
    have : p.1 = k := by simpa using hk
    rcases p with ⟨a, b⟩
    simp only at this hv
    subst this; subst hv; rfl

/-- **bulk_get** (clause 3): for a contained key the stored value is `v k`, both as the pure
    `lookup` and as the value `get` returns -/
theorem bulk_get (c : Nat) (hc : 1 ≤ c) (v : Nat → V) (n k : Nat)
    (h : contains (bulkState c v n) k = true) :
    lookup (bulkState c v n) k = some (v k) ∧ (get (bulkState c v n) k).2 = some (v k) := by
  have hk := (bulk_contains c hc v n k).1 h
  have hf := find_closedItems c v n k hk
  rw [← (bulk_items c hc v n).1] at hf
  constructor
  · simp [lookup, hf]
  · simp [LruL0.get, hf]

/-- the miss side: a key that is not contained is not found, and `get` changes nothing -/
theorem bulk_get_miss (c : Nat) (hc : 1 ≤ c) (v : Nat → V) (n k : Nat)
    (h : ¬ (n - min n c ≤ k ∧ k < n)) :
    lookup (bulkState c v n) k = none ∧ get (bulkState c v n) k = (bulkState c v n, none) := by
  have hn : (bulkState c v n).items.find? (fun p => p.1 == k) = none := by
    rw [List.find?_eq_none]
    intro p hp hk
    apply h
    have hc' := (bulk_contains c hc v n k).1
    apply hc'
    simp only [contains, List.any_eq_true]
    exact ⟨p, hp, hk⟩
  constructor
  · simp [lookup, hn]
  · simp [LruL0.get, hn]

example : lookup (bulkState 3 (fun i => 10 * i) 7) 5 = some 50 :=
  (bulk_get 3 (by decide) (fun i => 10 * i) 7 5 (by decide)).1
example : (get (bulkState 3 (fun i => 10 * i) 7) 5).2 = some 50 :=
  (bulk_get 3 (by decide) (fun i => 10 * i) 7 5 (by decide)).2
example : lookup (bulkState 3 (fun i => 10 * i) 7) 2 = none :=
  (bulk_get_miss 3 (by decide) (fun i => 10 * i) 7 2 (by decide)).1

/-- `get` (hit or miss) does not change membership -/
theorem bulk_get_keeps (c : Nat) (v : Nat → V) (n k j : Nat) :
    contains (get (bulkState c v n) k).1 j = contains (bulkState c v n) j := by
  unfold LruL0.get
  split
  · rename_i p hf
    have hm := List.mem_of_find?_eq_some hf
    have hk : p.1 = k := by simpa using List.find?_some hf
    simp only [contains, List.any_cons, remove, List.any_filter]
    rw [Bool.eq_iff_iff]
    simp only [Bool.or_eq_true, List.any_eq_true, Bool.and_eq_true, beq_iff_eq, Bool.not_eq_true',
      beq_eq_false_iff_ne]
    constructor
    · rintro (h | ⟨q, hq, _, h⟩)
      · exact ⟨p, hm, h⟩
      · exact ⟨q, hq, h⟩
    · rintro ⟨q, hq, h⟩
      by_cases hqk : q.1 = k
      · left; omega
      · right; exact ⟨q, hq, hqk, h⟩
  · rfl

example : contains (get (bulkState 3 (fun i => i) 7) 4).1 5 = true := by
  rw [bulk_get_keeps 3]; decide

/-- **bulk_front** (clause 4): if `n > 0` the most recently used entry is `(n-1, v (n-1))` -/
theorem bulk_front (c : Nat) (hc : 1 ≤ c) (v : Nat → V) (n : Nat) (hn : 0 < n) :
    getFront (bulkState c v n) = some (n - 1, v (n - 1)) := by
  obtain ⟨m, rfl⟩ : ∃ m, n = m + 1 := ⟨n - 1, by omega⟩
  rw [getFront, (bulk_items c hc v (m + 1)).1]
  by_cases h : m < c
  · rw [closedItems_succ_room c v m h]; rfl
  · rw [closedItems_succ_full c hc v m (by omega)]; rfl

theorem bulk_front_zero (c : Nat) (v : Nat → V) : getFront (bulkState c v 0) = none := rfl

example : getFront (bulkState 3 (fun i => 10 * i) 7) = some (6, 60) :=
  bulk_front 3 (by decide) _ 7 (by decide)

/-- the number of evicted entries the driver prints (`n - m`): pushes minus entries kept -/
theorem bulk_evicted (c : Nat) (hc : 1 ≤ c) (v : Nat → V) (n : Nat) :
    (bulkOps v n).length - len (bulkState c v n) = n - min n c := by
  rw [bulk_len c hc]; simp [bulkOps]

example : (bulkOps (fun i => i) 7).length - len (bulkState 3 (fun i => i) 7) = 4 :=
  bulk_evicted 3 (by decide) _ 7

/-- **bulk_clear**: after `clear` the cache is empty: no entries, nothing contained, nothing found,
    no front, same capacity (holds for every cache, in particular after the bulk history) -/
theorem bulk_clear {K : Type} [DecidableEq K] (s : Cache K V) :
    len (clear s) = 0 ∧ isEmpty (clear s) = true ∧ (∀ k, contains (clear s) k = false) ∧
      (∀ k, lookup (clear s) k = none) ∧ getFront (clear s) = none ∧ (clear s).cap = s.cap := by
  simp [len, isEmpty, contains, lookup, getFront, clear]

/-- the bulk history followed by `clear`, as a history -/
theorem bulk_clear_run (c : Nat) (v : Nat → V) (n : Nat) :
    run (init c) (bulkOps v n ++ [Op.clear]) = clear (bulkState c v n) := by
  simp [run, bulkState, List.foldl_append, step]

/-- what the driver prints as `reuse len=1 has=1`: one push after `clear` -/
theorem bulk_reuse (c : Nat) (hc : 1 ≤ c) (v : Nat → V) (n k : Nat) (x : V) :
    len (push (clear (bulkState c v n)) k x) = 1 ∧
      contains (push (clear (bulkState c v n)) k x) k = true := by
  have hcap := (bulk_items c hc v n).2
  have h0 : ¬ (0 = c) := by omega
  simp [push, clear, contains, len, hcap, h0]

example : len (clear (bulkState 3 (fun i => i) 7)) = 0 := (bulk_clear _).1
example : contains (clear (bulkState 3 (fun i => i) 7)) 5 = false := (bulk_clear _).2.2.1 5
example : len (push (clear (bulkState 3 (fun i => i) 7)) 0 0) = 1 :=
  (bulk_reuse 3 (by decide) _ 7 0 0).1

end Tbx.Props.C11Bulk
