import Tbx.Model.Dijkstra
import Tbx.Spec.ShortestPath
/-
C09 — a retrieved Dijkstra path is a real shortest path.
Property theorems only (helper lemmas live in Tbx/Proofs).  Registered in Tbx/Audit/C09.lean.
-/
namespace Tbx.Props.C09
open Tbx Tbx.Dijkstra

/-- the judge's path check decides exactly the Spec's `ValidPath` -/
theorem judge_validPath_iff (g : SP.Adj) (s v : Nat) (p : List Nat) (d : Nat) :
    SP.validPathB g s v p d = true ↔ SP.ValidPath g s v p d := SP.validPathB_iff g s v p d

end Tbx.Props.C09
