import Tbx.Model.Dijkstra
import Tbx.Model.DijkstraLegacy
import Tbx.Spec.ShortestPath
import Tbx.Proofs.DijkstraPath
import Tbx.Proofs.DijkstraHeapInst
/-
C09 — a retrieved Dijkstra path is a real shortest path from source to target.

Property theorems only (helper lemmas live in Tbx/Proofs).  Registered in Tbx/Audit/C09.lean.
As in C08 the queue laws are discharged from C10 (`heapLaws`), nothing about the heap is assumed.
`ValidPath g s v p d` (Tbx/Spec/ShortestPath.lean): p starts at s, ends at v, has no repeated node,
consecutive nodes are joined by an edge, and d = Σ cheapest parallel-edge weights along p.
-/
namespace Tbx.Props.C09
open Tbx Tbx.Dijkstra

/-! ### the judge -/

/-- the judge's path check decides exactly the Spec's `ValidPath` -/
theorem judge_validPath_iff (g : SP.Adj) (s v : Nat) (p : List Nat) (d : Nat) :
    SP.validPathB g s v p d = true ↔ SP.ValidPath g s v p d := SP.validPathB_iff g s v p d

/-- … and a valid path is a real walk of that weight; so if the weight is the distance it is a shortest path -/
theorem validPath_is_walk {g : SP.Adj} {s v : Nat} {p : List Nat} {d : Nat} (h : SP.ValidPath g s v p d) :
    SP.Walk g s v d := h.walk

def exAdj : Adj := staticAdj [(0, 1, 1), (0, 2, 10), (1, 2, 1)]      -- D3's witness graph

example : SP.validPathB exAdj 0 2 [0, 1, 2] 2 = true := by decide
example : SP.validPathB exAdj 0 2 [2] 2 = false := by decide

/-! ### unreached nodes get no path (P0) -/

/-- a node the search never inserted has no path (both searches) -/
theorem unreached_none (stU : Uni) (stO : O2M) (v : Nat)
    (hU : AHeap.inserted stU.queue (v : Int) = false) (hO : AHeap.inserted stO.queue (v : Int) = false) :
    stU.retrieveNodePath v = .ok none ∧ stO.retrieveNodePath v = .ok none := by
  unfold Uni.retrieveNodePath O2M.retrieveNodePath
  simp [hU, hO]

/-- … and a node that is unreachable from the source is never inserted: after `run(s, ·)` no path is
returned for it, and one-to-many reports the unreachable marker as its distance -/
theorem unreached_none_of_unreachable (adj : Adj) (n : Nat) (s v : Nat) (hv : ¬ SP.Reachable adj s v) :
    (∀ (st st' : Uni) (t : Nat) (r : Int), WFq st.queue → uniRun adj n st s t = .ok (st', r) →
        st'.retrieveNodePath v = .ok none) ∧
    (∀ (st st' : O2M) (ts : List Nat) (ok : Bool), ts.Nodup → WFq st.queue → o2mRun adj n st s ts = .ok (st', ok) →
        st'.retrieveNodePath v = .ok none ∧ st'.distance v = UMAX) := by
  constructor
  · intro st st' t r hw h
    have P := uniRun_spec heapLaws adj n st s t hw
    rw [h] at P
    have hni : AHeap.inserted st'.queue (v : Int) = false := by
      cases hi : AHeap.inserted st'.queue (v : Int)
      · rfl
      · obtain ⟨v', d, hv', _, hwalk⟩ := (UniPost.core P).sound v hi
        have : v = v' := by omega
        subst this
        exact absurd ⟨d, hwalk⟩ hv
    unfold Uni.retrieveNodePath; simp [hni]
  · intro st st' ts ok hnd hw h
    have P := o2mRun_spec heapLaws adj n st s ts hnd hw
    rw [h] at P
    have hni : AHeap.inserted st'.queue (v : Int) = false := by
      cases hi : AHeap.inserted st'.queue (v : Int)
      · rfl
      · obtain ⟨v', d, hv', _, hwalk⟩ := P.1.linv.sound v hi
        have : v = v' := by omega
        subst this
        exact absurd ⟨d, hwalk⟩ hv
    refine ⟨by unfold O2M.retrieveNodePath; simp [hni], ?_⟩
    unfold O2M.distance
    rw [heapLaws.weight_wmax _ _ P.1.linv.inv hni]
    exact P.1.linv.wf.2

/-! ### parent pointers and retrieved paths (P1) -/

/-- the search state `run` leaves behind allows path retrieval (`PathReady`: the invariant of
DijkstraInv.lean plus "every parent is a settled node all of whose out-edges were relaxed") -/
theorem final_state_ready (adj : Adj) (n : Nat) (s : Nat) :
    (∀ (st st' : Uni) (t : Nat) (r : Int), WFq st.queue → uniRun adj n st s t = .ok (st', r) →
        PathReady AHeap.Inv adj s st'.queue) ∧
    (∀ (st st' : O2M) (ts : List Nat) (ok : Bool), ts.Nodup → WFq st.queue → o2mRun adj n st s ts = .ok (st', ok) →
        PathReady AHeap.Inv adj s st'.queue) := by
  constructor
  · intro st st' t r hw h
    have P := uniRun_spec heapLaws adj n st s t hw
    rw [h] at P
    cases P with
    | found d hr hub R => exact R.pathReady
    | drained hr hub I _ _ => exact I.pathReady
  · intro st st' ts ok hnd hw h
    have P := o2mRun_spec heapLaws adj n st s ts hnd hw
    rw [h] at P
    exact P.1.linv.pathReady

/-- **parent_inv.**  In such a state the source is its own parent and every other inserted node `v`
has a parent `p` that was settled (popped) with its relaxation complete, an edge p→v exists whose
weight is `label v − label p`, and that edge is the cheapest of the parallel edges p→v. -/
theorem parent_inv {adj : Adj} {s : Nat} {q : AHeap.Heap} (P : PathReady AHeap.Inv adj s q) :
    AHeap.data? q (s : Int) = some (s : Int) ∧
    ∀ v : Nat, AHeap.inserted q (v : Int) = true → v ≠ s →
      ∃ p w : Nat, AHeap.data? q (v : Int) = some (p : Int) ∧ Settled q (p : Int) ∧ ClosedAt adj q p ∧
        SP.IsCheapest adj p v w ∧ AHeap.weight q (v : Int) = AHeap.weight q (p : Int) + (w : Int) := by
  refine ⟨P.src.2.2, ?_⟩
  intro v hv hvs
  have hvs' : (v : Int) ≠ (s : Int) := by omega
  obtain ⟨p, w, h1, h2, h3, h4⟩ := P.par v hv hvs'
  rw [Int.toNat_natCast] at h3
  have hcl := P.pclosed v hv hvs' p h1
  refine ⟨p, w, h1, h2, hcl, ⟨h3, ?_⟩, h4⟩
  intro w' hw'
  have := (hcl v w' hw').2
  omega

/-- **path_valid (state form).**  In such a state `retrieve_node_path(v)` of any inserted node
terminates within its fuel and returns a valid path from the source whose cheapest-edge weights
add up to the label of `v`. -/
theorem path_valid {adj : Adj} {s : Nat} {q : AHeap.Heap} (P : PathReady AHeap.Inv adj s q) (v : Nat)
    (hv : AHeap.inserted q (v : Int) = true) :
    ∃ (path : Array Int) (nodes : List Nat) (d : Nat),
      retrievePath q v = .ok (some path) ∧ path.toList = nodes.map Int.ofNat ∧
      AHeap.weight q (v : Int) = (d : Int) ∧ SP.ValidPath adj s v nodes d :=
  retrievePath_valid heapLaws P v hv

/-- **path_valid, unidirectional.**  If `run(s,t)` reports a finite distance `r`, the path retrieved
for `t` is a valid path s … t of weight `r`, and `r` is the true distance: a shortest path. -/
theorem path_valid_uni (adj : Adj) (n : Nat) (st st' : Uni) (s t : Nat) (r : Int) (hw : WFq st.queue)
    (h : uniRun adj n st s t = .ok (st', r)) (hr : r ≠ UMAX) :
    ∃ (path : Array Int) (nodes : List Nat) (d : Nat),
      st'.retrieveNodePath t = .ok (some path) ∧ path.toList = nodes.map Int.ofNat ∧ r = (d : Int) ∧
      SP.ValidPath adj s t nodes d ∧ SP.IsDist adj s t d := by
  have P := uniRun_spec heapLaws adj n st s t hw
  rw [h] at P
  cases P with
  | drained hr' _ _ _ _ => exact absurd hr' hr
  | found d hrd hub R =>
    obtain ⟨path, nodes, d', h1, h2, h3, h4⟩ := retrievePath_valid heapLaws R.pathReady t R.cur.1.1
    have hdd : d' = d := by have := R.cur.2; omega
    subst hdd
    refine ⟨path, nodes, d', ?_, h2, hrd, h4, h4.walk, ?_⟩
    · unfold Uni.retrieveNodePath
      have : (st'.upperBound == UMAX) = false := by rw [hub]; simpa using hr
      simp only [this, R.cur.1.1, Bool.not_true, Bool.or_self, Bool.false_eq_true, if_false]
      exact h1
    · intro d2 hw2
      have := R.exact t R.cur.1 d2 hw2
      rw [R.cur.2] at this; omega

/-- **path_valid, one-to-many.**  For EVERY node `v` to which `distance(v)` reports a finite value
(settled or still queued when the search stopped) the retrieved path is a valid path s … v whose
cheapest-edge weights add up to exactly that value. -/
theorem path_valid_o2m (adj : Adj) (n : Nat) (st st' : O2M) (s : Nat) (ts : List Nat) (ok : Bool)
    (hnd : ts.Nodup) (hw : WFq st.queue) (h : o2mRun adj n st s ts = .ok (st', ok)) (v : Nat)
    (hv : st'.distance v ≠ UMAX) :
    ∃ (path : Array Int) (nodes : List Nat) (d : Nat),
      st'.retrieveNodePath v = .ok (some path) ∧ path.toList = nodes.map Int.ofNat ∧
      st'.distance v = (d : Int) ∧ SP.ValidPath adj s v nodes d := by
  have P := o2mRun_spec heapLaws adj n st s ts hnd hw
  rw [h] at P
  have hi : AHeap.inserted st'.queue (v : Int) = true := by
    cases hi : AHeap.inserted st'.queue (v : Int)
    · exfalso; apply hv
      unfold O2M.distance
      rw [heapLaws.weight_wmax _ _ P.1.linv.inv hi]; exact P.1.linv.wf.2
    · rfl
  obtain ⟨path, nodes, d, h1, h2, h3, h4⟩ := retrievePath_valid heapLaws P.1.linv.pathReady v hi
  refine ⟨path, nodes, d, ?_, h2, h3, h4⟩
  unfold O2M.retrieveNodePath
  simp only [hi, Bool.not_true, Bool.false_eq_true, if_false]
  exact h1

/-! ### non-vacuity and the D3 witness -/

def pathOf (r : Res (Option (Array Int))) : Option (List Int) := match r with | .ok (some p) => some p.toList | _ => none
def uniState (r : Res (Uni × Int)) : Uni := match r with | .ok (st, _) => st | _ => Uni.new
def o2mState (r : Res (O2M × Bool)) : O2M := match r with | .ok (st, _) => st | _ => O2M.new

/-- node 2 is first labelled 10 (edge 0→2) and then lowered to 2 through node 1: its path is [0,1,2] -/
example : pathOf ((uniState (uniRun exAdj 3 Uni.new 0 2)).retrieveNodePath 2) = some [0, 1, 2] := by decide +kernel
example : pathOf ((o2mState (o2mRun exAdj 3 O2M.new 0 [2])).retrieveNodePath 2) = some [0, 1, 2] := by decide +kernel

/-- D3 (fixed): with the legacy parent update (`v` instead of `u` on decrease) the path to 2 is `[2]`,
which the judge rejects -/
example : pathOf ((uniState (Legacy.uniRunD3 exAdj 3 Uni.new 0 2)).retrieveNodePath 2) = some [2] := by rfl
example : SP.validPathB exAdj 0 2 [2] 2 = false := by decide

end Tbx.Props.C09
