import Tbx.Model.Tarjan
import Tbx.Model.Gabow
import Tbx.Model.CycleCheck
import Tbx.Model.Kruskal
import Tbx.Spec.Components
/-
C16 — component, cycle and spanning-tree analyses agree with their definitions.
Property theorems only (helper lemmas live in Tbx/Proofs/C16*.lean).
-/
namespace Tbx.Props.C16
open Tbx Tbx.Csr Tbx.Comp

/-! ## P0: a run on a used object equals a run on a fresh object (D11, D12) -/

/-- `Tarjan::run` clears `dfs_state` and `tarjan_stack` first: whatever an earlier run left in the
    object, labels AND the state left behind are those of a fresh object. -/
theorem tarjan_rerun_eq_fresh (s : Tarjan.State) (g : Graph) :
    Tarjan.run s g = Tarjan.run Tarjan.State.fresh g := rfl

/-- same for `PathBasedScc::run` (bounds, stack, component re-initialised; `scc` cleared, then resized) -/
theorem gabow_rerun_eq_fresh (s : Gabow.State) (g : Graph) :
    Gabow.run s g = Gabow.run Gabow.State.fresh g := rfl

/-- any history of runs on one object: every run returns what a fresh object returns -/
theorem tarjan_history_eq_fresh (s : Tarjan.State) (gs : List Graph) (s' : Tarjan.State)
    (ls : List (Array Nat)) (h : Tarjan.runSeq s gs = some (s', ls)) :
    ls.length = gs.length ∧
    ∀ i (hi : i < gs.length) (hl : i < ls.length), ∃ t, Tarjan.run Tarjan.State.fresh gs[i] = some (t, ls[i]) := by
  induction gs generalizing s s' ls with
  | nil => simp only [Tarjan.runSeq] at h; cases h; simp
  | cons g gs ih =>
    simp only [Tarjan.runSeq] at h
    split at h
    · cases h
    · rename_i s1 a hr
      split at h
      · cases h
      · rename_i s2 as hs
        obtain ⟨hl, hall⟩ := ih _ _ _ hs
        cases h
        refine ⟨by simp [hl], ?_⟩
        intro i hi hli
        cases i with
        | zero =>
          refine ⟨s1, ?_⟩
          simp only [List.getElem_cons_zero]
          rw [← tarjan_rerun_eq_fresh s g]; exact hr
        | succ i => simpa using hall i (by simpa using hi) (by simpa using hli)

theorem gabow_history_eq_fresh (s : Gabow.State) (gs : List Graph) (s' : Gabow.State)
    (ls : List (Array Nat)) (h : Gabow.runSeq s gs = some (s', ls)) :
    ls.length = gs.length ∧
    ∀ i (hi : i < gs.length) (hl : i < ls.length), ∃ t, Gabow.run Gabow.State.fresh gs[i] = some (t, ls[i]) := by
  induction gs generalizing s s' ls with
  | nil => simp only [Gabow.runSeq] at h; cases h; simp
  | cons g gs ih =>
    simp only [Gabow.runSeq] at h
    split at h
    · cases h
    · rename_i s1 a hr
      split at h
      · cases h
      · rename_i s2 as hs
        obtain ⟨hl, hall⟩ := ih _ _ _ hs
        cases h
        refine ⟨by simp [hl], ?_⟩
        intro i hi hli
        cases i with
        | zero =>
          refine ⟨s1, ?_⟩
          simp only [List.getElem_cons_zero]
          rw [← gabow_rerun_eq_fresh s g]; exact hr
        | succ i => simpa using hall i (by simpa using hi) (by simpa using hli)

/-- two graphs used by the non-vacuity / regression examples -/
def gA : Graph := ofEdges [(0, 1)]
def gB : Graph := ofEdges [(0, 1), (1, 0)]

/-- non-vacuity: a used object (it analysed `gA`) analyses `gB` and both nodes get the same label -/
example : (Tarjan.runSeq Tarjan.State.fresh [gA, gB]).map (fun r => r.2.map Array.toList) = some [[2, 1], [1, 1]] := by
  decide +kernel
example : (Gabow.runSeq Gabow.State.fresh [gA, gB]).map (fun r => r.2.map Array.toList) = some [[0, 1], [1, 1]] := by
  decide +kernel

/-- regression (D11): without the `clear`, the second run returns `usize::MAX` for every node -/
example : ((Tarjan.legacyRun Tarjan.State.fresh gA).bind fun r => Tarjan.legacyRun r.1 gB).map (fun r => r.2.toList)
    = some [maxU, maxU] := by decide +kernel
/-- regression (D12): without the `clear`, the second graph gets the first graph's labels -/
example : ((Gabow.legacyRun Gabow.State.fresh gA).bind fun r => Gabow.legacyRun r.1 gB).map (fun r => r.2.toList)
    = some [0, 1] := by decide +kernel

/-! ## the judge's closure checker is sound and complete -/

theorem closure_checker_exact (es : Edges) (u : Nat) (R : List Nat) (h : reachSet es u = some R) (x : Nat) :
    x ∈ R ↔ Reach es u x := reachSet_spec es u R h x

theorem cycle_checker_exact (es : Edges) (b : Bool) (h : hasCycleB es = some b) : b = true ↔ HasCycle es :=
  hasCycleB_spec es b h

theorem acyclic_checker_exact (F : Edges) (b : Bool) (h : acyclicB F = some b) : b = true ↔ Acyclic F :=
  acyclicB_spec F b h

/-- undirected connectivity as defined (reachability over both directions) is the equivalence closure -/
theorem conn_is_equivalence_closure (ps : Edges) (a b : Nat) : Conn ps a b ↔ EqvClosure ps a b :=
  conn_iff_eqvClosure ps a b

example : reachSet [(0, 1), (1, 2), (3, 0)] 0 = some [2, 1, 0] := by decide
example : hasCycleB [(0, 1), (1, 2), (2, 1)] = some true := by decide
example : hasCycleB [(0, 1), (1, 2), (0, 2)] = some false := by decide

/-! ## P2: stated, not proved (decided by exhaustive small-scope correspondence only) -/

def tarjan_exact_statement : Prop :=
  ∀ (s : Tarjan.State) (g : Graph), WF g → numNodes g < maxU →
    ∃ s' a, Tarjan.run s g = some (s', a) ∧ a.size = numNodes g ∧
      ∀ u v, u < numNodes g → v < numNodes g → (gt a u = gt a v ↔ SameSCC (edgesOf g) u v)

def gabow_exact_statement : Prop :=
  ∀ (s : Gabow.State) (g : Graph), WF g → numNodes g < maxU →
    ∃ s' a, Gabow.run s g = some (s', a) ∧ a.size = numNodes g ∧
      ∀ u v, u < numNodes g → v < numNodes g → (gt a u = gt a v ↔ SameSCC (edgesOf g) u v)

def cycle_exact_statement : Prop :=
  ∀ g : Graph, WF g → ∃ b, CycleCheck.cycleCheck g = some b ∧ (b = true ↔ HasCycle (edgesOf g))

def kruskal_minimal_statement : Prop :=
  ∀ inp : List WEdge, cost inp < 4294967296 →
    ∃ c mst, Kruskal.kruskal inp = some (c, mst) ∧ c = cost mst ∧ MinSpanningForest inp mst

end Tbx.Props.C16
