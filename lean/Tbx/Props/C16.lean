import Tbx.Model.Tarjan
import Tbx.Model.Gabow
import Tbx.Model.CycleCheck
import Tbx.Model.Kruskal
import Tbx.Spec.Components
import Tbx.Proofs.C16UF
import Tbx.Proofs.C16Kruskal
import Tbx.Proofs.C16Tarjan
import Tbx.Proofs.C16Gabow
import Tbx.Proofs.C16Cycle
import Tbx.Proofs.C16TarjanTotal
import Tbx.Proofs.C16GabowTotal
import Tbx.Proofs.C16KruskalMin
import Tbx.Proofs.C16GabowExact
import Tbx.Proofs.C16TarjanExact
import Tbx.Proofs.C16Csr
/-
C16 — component, cycle and spanning-tree analyses agree with their definitions.
Property theorems only (helper lemmas live in Tbx/Proofs/C16*.lean).
-/
namespace Tbx.Props.C16
open Tbx Tbx.Csr Tbx.Comp

/-! ## P0: a run on a used object equals a run on a fresh object (D11, D12) -/

/-- `Tarjan::run` clears `dfs_state` and `tarjan_stack` first: whatever an earlier run left in the
    object, labels AND the state left behind are those of a fresh object. -/
theorem tarjan_rerun_eq_fresh (s : Tarjan.State) (g : Graph) :
    Tarjan.run s g = Tarjan.run Tarjan.State.fresh g := rfl

/-- same for `PathBasedScc::run` (bounds, stack, component re-initialised; `scc` cleared, then resized) -/
theorem gabow_rerun_eq_fresh (s : Gabow.State) (g : Graph) :
    Gabow.run s g = Gabow.run Gabow.State.fresh g := rfl

/-- any history of runs on one object: every run returns what a fresh object returns -/
theorem tarjan_history_eq_fresh (s : Tarjan.State) (gs : List Graph) (s' : Tarjan.State)
    (ls : List (Array Nat)) (h : Tarjan.runSeq s gs = some (s', ls)) :
    ls.length = gs.length ∧
    ∀ i (hi : i < gs.length) (hl : i < ls.length), ∃ t, Tarjan.run Tarjan.State.fresh gs[i] = some (t, ls[i]) := by
  induction gs generalizing s s' ls with
  | nil => simp only [Tarjan.runSeq] at h; cases h; simp
  | cons g gs ih =>
    simp only [Tarjan.runSeq] at h
    split at h
    · cases h
    · rename_i s1 a hr
      split at h
      · cases h
      · rename_i s2 as hs
        obtain ⟨hl, hall⟩ := ih _ _ _ hs
        cases h
        refine ⟨by simp [hl], ?_⟩
        intro i hi hli
        cases i with
        | zero =>
          refine ⟨s1, ?_⟩
          simp only [List.getElem_cons_zero]
          rw [← tarjan_rerun_eq_fresh s g]; exact hr
        | succ i => simpa using hall i (by simpa using hi) (by simpa using hli)

theorem gabow_history_eq_fresh (s : Gabow.State) (gs : List Graph) (s' : Gabow.State)
    (ls : List (Array Nat)) (h : Gabow.runSeq s gs = some (s', ls)) :
    ls.length = gs.length ∧
    ∀ i (hi : i < gs.length) (hl : i < ls.length), ∃ t, Gabow.run Gabow.State.fresh gs[i] = some (t, ls[i]) := by
  induction gs generalizing s s' ls with
  | nil => simp only [Gabow.runSeq] at h; cases h; simp
  | cons g gs ih =>
    simp only [Gabow.runSeq] at h
    split at h
    · cases h
    · rename_i s1 a hr
      split at h
      · cases h
      · rename_i s2 as hs
        obtain ⟨hl, hall⟩ := ih _ _ _ hs
        cases h
        refine ⟨by simp [hl], ?_⟩
        intro i hi hli
        cases i with
        | zero =>
          refine ⟨s1, ?_⟩
          simp only [List.getElem_cons_zero]
          rw [← gabow_rerun_eq_fresh s g]; exact hr
        | succ i => simpa using hall i (by simpa using hi) (by simpa using hli)

/-- two graphs used by the non-vacuity / regression examples -/
def gA : Graph := ofEdges [(0, 1)]
def gB : Graph := ofEdges [(0, 1), (1, 0)]

/-- non-vacuity: a used object (it analysed `gA`) analyses `gB` and both nodes get the same label -/
example : (Tarjan.runSeq Tarjan.State.fresh [gA, gB]).map (fun r => r.2.map Array.toList) = some [[2, 1], [1, 1]] := by
  decide +kernel
example : (Gabow.runSeq Gabow.State.fresh [gA, gB]).map (fun r => r.2.map Array.toList) = some [[0, 1], [1, 1]] := by
  decide +kernel

/-- regression (D11): without the `clear`, the second run returns `usize::MAX` for every node -/
example : ((Tarjan.legacyRun Tarjan.State.fresh gA).bind fun r => Tarjan.legacyRun r.1 gB).map (fun r => r.2.toList)
    = some [maxU, maxU] := by decide +kernel
/-- regression (D12): without the `clear`, the second graph gets the first graph's labels -/
example : ((Gabow.legacyRun Gabow.State.fresh gA).bind fun r => Gabow.legacyRun r.1 gB).map (fun r => r.2.toList)
    = some [0, 1] := by decide +kernel

/-! ## the judge's closure checker is sound and complete -/

theorem closure_checker_exact (es : Edges) (u : Nat) (R : List Nat) (h : reachSet es u = some R) (x : Nat) :
    x ∈ R ↔ Reach es u x := reachSet_spec es u R h x

theorem cycle_checker_exact (es : Edges) (b : Bool) (h : hasCycleB es = some b) : b = true ↔ HasCycle es :=
  hasCycleB_spec es b h

theorem acyclic_checker_exact (F : Edges) (b : Bool) (h : acyclicB F = some b) : b = true ↔ Acyclic F :=
  acyclicB_spec F b h

/-- undirected connectivity as defined (reachability over both directions) is the equivalence closure -/
theorem conn_is_equivalence_closure (ps : Edges) (a b : Nat) : Conn ps a b ↔ EqvClosure ps a b :=
  conn_iff_eqvClosure ps a b

example : reachSet [(0, 1), (1, 2), (3, 0)] 0 = some [2, 1, 0] := by decide
example : hasCycleB [(0, 1), (1, 2), (2, 1)] = some true := by decide
example : hasCycleB [(0, 1), (1, 2), (0, 2)] = some false := by decide

/-! ## P1: union-find refines the equivalence closure of the union pairs -/

open Tbx.UF in
/-- For every state reachable from `UnionFind::new(n)` by `find`/`union` on elements `< n`, with `ps` the
    union pairs so far: the parent forest is acyclic (every element reaches exactly one root), two elements
    have the same root iff they are related by the equivalence closure of `ps`, `number_of_sets` is the
    number of roots, and every class contains exactly one root (so it is the number of classes). -/
theorem uf_refines {n : Nat} {u : UF.UF} {ps : Edges} (h : Reachable n u ps) :
    u.parent.size = n ∧
    (∀ i, i < n → ∃ r, RootOf u.parent i r ∧ r < n ∧ ∀ r', RootOf u.parent i r' → r' = r) ∧
    (∀ i j, i < n → j < n → (Cls u.parent i j ↔ EqvClosure ps i j)) ∧
    u.numSets = countRoots u.parent ∧
    (∀ i, i < n → ∃ r, r < n ∧ gt u.parent r = r ∧ EqvClosure ps i r ∧
      ∀ r', r' < n → gt u.parent r' = r' → EqvClosure ps i r' → r' = r) := by
  obtain ⟨hinv, hsz, hcls⟩ := reachable_refines h
  have hroot : ∀ i, i < n → ∃ r, RootOf u.parent i r ∧ r < n := by
    intro i hi
    obtain ⟨r, hr⟩ := hinv.exists_root i (by omega)
    exact ⟨r, hr, by have := hr.is_root.1; omega⟩
  refine ⟨hsz, ?_, ?_, hinv.nsets, ?_⟩
  · intro i hi
    obtain ⟨r, hr, hrn⟩ := hroot i hi
    exact ⟨r, hr, hrn, fun r' hr' => hr'.functional hr⟩
  · intro i j hi hj
    rw [hcls i j hi hj, conn_iff_eqvClosure]
  · intro i hi
    obtain ⟨r, hr, hrn⟩ := hroot i hi
    have hrr : RootOf u.parent r r := .root hr.is_root.1 hr.is_root.2
    refine ⟨r, hrn, hr.is_root.2, ?_, ?_⟩
    · rw [← conn_iff_eqvClosure, ← hcls i r hi hrn]; exact ⟨r, hr, hrr⟩
    · intro r' hr'n hr'root hc
      rw [← conn_iff_eqvClosure, ← hcls i r' hi hr'n] at hc
      obtain ⟨q, h1, h2⟩ := hc
      have e1 := h1.functional hr
      have e2 := h2.of_root hr'root
      omega

open Tbx.UF in
/-- `find` terminates without panic, returns the root of its argument's class (a member of the class),
    and path halving changes no element's root -/
theorem uf_find_correct {n : Nat} {u : UF.UF} {ps : Edges} (h : Reachable n u ps) (x : Nat) (hx : x < n) :
    ∃ u' r, UF.find u x = some (u', r) ∧ Reachable n u' ps ∧ RootOf u.parent x r ∧ EqvClosure ps x r ∧
      u'.numSets = u.numSets ∧ ∀ j r', RootOf u'.parent j r' ↔ RootOf u.parent j r' := by
  obtain ⟨hinv, hsz, hcls⟩ := reachable_refines h
  obtain ⟨u', r, hf, _, _, _, hn, hr, hiff⟩ := find_spec hinv x (by omega)
  have hrn : r < n := by have := hr.is_root.1; omega
  refine ⟨u', r, hf, .find h hx hf, hr, ?_, hn, hiff⟩
  rw [← conn_iff_eqvClosure, ← hcls x r hx hrn]
  exact ⟨r, hr, .root hr.is_root.1 hr.is_root.2⟩

open Tbx.UF in
/-- "union-find reports two elements equal iff they were joined" -/
theorem uf_same_iff_joined {n : Nat} {u : UF.UF} {ps : Edges} (h : Reachable n u ps) (x y : Nat) (hx : x < n) (hy : y < n) :
    ∃ u1 rx u2 ry, UF.find u x = some (u1, rx) ∧ UF.find u1 y = some (u2, ry) ∧ (rx = ry ↔ EqvClosure ps x y) := by
  obtain ⟨u1, rx, hf1, hr1, hrx, _, _, hiff1⟩ := uf_find_correct h x hx
  obtain ⟨u2, ry, hf2, _, hry, _, _, _⟩ := uf_find_correct hr1 y hy
  have hry' := (hiff1 _ _).mp hry
  obtain ⟨_, _, hcls⟩ := reachable_refines h
  refine ⟨u1, rx, u2, ry, hf1, hf2, ?_⟩
  rw [← conn_iff_eqvClosure, ← hcls x y hx hy]
  constructor
  · rintro rfl; exact ⟨rx, hrx, hry'⟩
  · rintro ⟨r, a, b⟩; exact (hrx.functional a).trans (b.functional hry')

open Tbx.UF in
/-- `union` terminates without panic and lowers `number_of_sets` by one iff the two elements were not yet
    joined; by `uf_refines` the classes afterwards are the closure of the pairs including `(x, y)` -/
theorem uf_union_correct {n : Nat} {u : UF.UF} {ps : Edges} (h : Reachable n u ps) (x y : Nat) (hx : x < n) (hy : y < n) :
    ∃ u', UF.union u x y = some u' ∧ Reachable n u' (ps ++ [(x, y)]) ∧
      (EqvClosure ps x y → u'.numSets = u.numSets) ∧ (¬ EqvClosure ps x y → u'.numSets + 1 = u.numSets) := by
  obtain ⟨hinv, hsz, hcls⟩ := reachable_refines h
  obtain ⟨u', hu, _, _, _, h1, h2⟩ := union_spec hinv x y (by omega) (by omega)
  refine ⟨u', hu, .union h hx hy hu, ?_, ?_⟩
  · intro hc; exact h1 ((hcls x y hx hy).mpr ((conn_iff_eqvClosure _ _ _).mpr hc))
  · intro hc; exact h2 fun hh => hc ((conn_iff_eqvClosure _ _ _).mp ((hcls x y hx hy).mp hh))

/-- non-vacuity: a history with two rank-1 trees joined (depth 2), then a find that halves a path -/
example : ((UF.union (UF.new 4) 0 1).bind fun u => (UF.union u 2 3).bind fun u => (UF.union u 0 2).bind fun u =>
    (UF.find u 3).map fun r => (r.2, r.1.numSets, r.1.parent.toList, u.parent.toList))
    = some (0, 1, [0, 0, 0, 0], [0, 0, 0, 2]) := by decide +kernel

/-! ## P1: Kruskal returns a spanning forest of the input and its cost -/

/-- For every edge list whose total weight fits `u32`, `kruskal` terminates without panic and returns a
    sub-multiset of the input that is cycle-free and connects exactly what the input connects, together
    with the sum of its weights.  (Minimality is `kruskal_minimal_statement`.) -/
theorem kruskal_forest_spanning (inp : List WEdge) (htot : cost inp < 4294967296) :
    ∃ c mst, Kruskal.kruskal inp = some (c, mst) ∧ SpanningForest inp mst ∧ c = cost mst := by
  obtain ⟨c, mst, hk, hsub, hac, hsp, hc⟩ := Kruskal.kruskal_spec inp htot
  exact ⟨c, mst, hk, ⟨subMulti_of_acyclic hsub hac, hac, hsp⟩, hc⟩

/-- non-vacuity: ties, a duplicate edge, a self-loop and two components -/
example : Kruskal.kruskal [(0, 1, 2), (1, 2, 2), (2, 0, 1), (0, 1, 2), (3, 3, 1), (4, 5, 3)]
    = some (6, [(2, 0, 1), (0, 1, 2), (4, 5, 3)]) := by decide +kernel

/-- … and the returned forest has minimal total weight among ALL spanning forests of the input (proof by
    exchange: some minimum spanning forest always contains the edges accepted so far; the heap pops a
    lightest remaining edge). -/
theorem kruskal_minimal (inp : List WEdge) (htot : cost inp < 4294967296) :
    ∃ c mst, Kruskal.kruskal inp = some (c, mst) ∧ c = cost mst ∧ MinSpanningForest inp mst :=
  Kruskal.kruskal_min inp htot

/-- non-vacuity of the minimum: a triangle with weights 1, 2, 3 has spanning trees of cost 3, 4 and 5 -/
example : (Kruskal.kruskal [(0, 1, 3), (1, 2, 1), (2, 0, 2)]).map (·.1) = some 3 := by decide +kernel

/-! ## P1: every node gets a label in range -/

/-- On every well-formed CSR graph with fewer than `usize::MAX` nodes, on a fresh or a used object, both
    SCC routines terminate without reaching a panic branch (no index out of bounds, no `expect` on an empty
    stack, no underflow of `component`; the fuel the models pass to their loops suffices) and give every
    node a label in range: Tarjan a component number in `1..=n` (never `usize::MAX`: when a root's loop
    breaks the Tarjan stack is empty again), PathBasedScc a number below `n`. -/
theorem scc_labels_total (g : Graph) (hwf : WF g) (hn : numNodes g < maxU) :
    (∀ s : Tarjan.State, ∃ s' a, Tarjan.run s g = some (s', a) ∧ a.size = numNodes g ∧
      ∀ v, v < numNodes g → 1 ≤ gt a v ∧ gt a v ≤ numNodes g) ∧
    (∀ s : Gabow.State, ∃ s' a, Gabow.run s g = some (s', a) ∧ a.size = numNodes g ∧
      ∀ v, v < numNodes g → gt a v < numNodes g) :=
  ⟨fun s => Tarjan.run_total s g hwf hn, fun s => Gabow.run_total s g hwf hn⟩

/-- non-vacuity: a well-formed graph with a 2-cycle, a tail and a self-loop -/
example : wfB (ofEdges [(0, 1), (1, 0), (1, 2), (2, 2)]) = true ∧
    (Tarjan.run Tarjan.State.fresh (ofEdges [(0, 1), (1, 0), (1, 2), (2, 2)])).map (fun r => r.2.toList) = some [2, 2, 1] ∧
    (Gabow.run Gabow.State.fresh (ofEdges [(0, 1), (1, 0), (1, 2), (2, 2)])).map (fun r => r.2.toList) = some [1, 1, 2] := by
  decide +kernel

/-! ## the cycle check is exact -/

/-- On every well-formed CSR graph `cycle_check` terminates without reaching a panic branch (the fuel the
    model passes suffices) and answers `true` iff some edge `u → v` is closed by a path `v ⇝ u`.
    The proof covers the non-textbook stack discipline: nodes pushed twice, and the second greying of an
    already black node when its lower copy reaches the top of the stack. -/
theorem cycle_exact (g : Graph) (hwf : WF g) :
    ∃ b, CycleCheck.cycleCheck g = some b ∧ (b = true ↔ HasCycle (edgesOf g)) :=
  CycleCheck.cycleCheck_correct g hwf

/-- non-vacuity: a well-formed DAG in which node 1 is pushed twice (and greyed twice), and a graph with a cycle -/
example : wfB (ofEdges [(0, 1), (0, 2), (2, 1), (1, 3)]) = true ∧
    CycleCheck.cycleCheck (ofEdges [(0, 1), (0, 2), (2, 1), (1, 3)]) = some false := by decide +kernel
example : wfB (ofEdges [(0, 1), (1, 2), (2, 1)]) = true ∧
    CycleCheck.cycleCheck (ofEdges [(0, 1), (1, 2), (2, 1)]) = some true := by decide +kernel

/-! ## the headline clause: same label iff mutually reachable -/

/-- On every well-formed CSR graph with fewer than `usize::MAX` nodes, on a fresh or a used object,
    `Tarjan::run` returns, and two nodes carry the same component number iff each is reachable from the
    other.  (Invariants: the lowlink of a stack node is the index of a stack node it reaches; explored
    edges from a stack node lead to assigned nodes or to stack nodes of index ≥ its lowlink; the lowlink of
    every node of the caller chain is below the lowlinks of the stack nodes between it and the next chain
    node; assigned nodes are closed under edges.) -/
theorem tarjan_exact (s : Tarjan.State) (g : Graph) (hwf : WF g) (hn : numNodes g < maxU) :
    ∃ s' a, Tarjan.run s g = some (s', a) ∧ a.size = numNodes g ∧
      ∀ u v, u < numNodes g → v < numNodes g → (gt a u = gt a v ↔ SameSCC (edgesOf g) u v) :=
  Tarjan.run_exact s g hwf hn

/-- The same for `PathBasedScc::run`.  (Invariants: the bounds stack cuts the node stack into strongly
    connected blocks; explored edges from a stack node lead to assigned nodes or to a block that is not
    below its own; when `scc[v]` is on top of the bounds the top block together with the assigned nodes is
    closed under edges.) -/
theorem gabow_exact (s : Gabow.State) (g : Graph) (hwf : WF g) (hn : numNodes g < maxU) :
    ∃ s' a, Gabow.run s g = some (s', a) ∧ a.size = numNodes g ∧
      ∀ u v, u < numNodes g → v < numNodes g → (gt a u = gt a v ↔ SameSCC (edgesOf g) u v) :=
  Gabow.run_exact s g hwf hn

/-- non-vacuity: a well-formed graph with the components {0,1,2}, {3,4}, {5}, cross edges and a self-loop;
    both routines separate exactly these -/
example : wfB (ofEdges [(0, 1), (1, 2), (2, 0), (2, 3), (3, 4), (4, 3), (4, 5), (0, 5), (5, 5)]) = true ∧
    (Tarjan.run Tarjan.State.fresh (ofEdges [(0, 1), (1, 2), (2, 0), (2, 3), (3, 4), (4, 3), (4, 5), (0, 5), (5, 5)])).map
      (fun r => r.2.toList) = some [3, 3, 3, 2, 2, 1] ∧
    (Gabow.run Gabow.State.fresh (ofEdges [(0, 1), (1, 2), (2, 0), (2, 3), (3, 4), (4, 3), (4, 5), (0, 5), (5, 5)])).map
      (fun r => r.2.toList) = some [3, 3, 3, 4, 4, 5] := by
  decide +kernel

/-! ## from CSR graphs to arbitrary edge lists -/

/-- The model of `StaticGraph::new` (sort, offsets, sentinel) builds a well-formed graph with exactly the
    input's edges, so the three digraph clauses hold for EVERY edge list (nodes `0..=max id`, self-loops and
    parallel edges allowed), with reachability taken over the input edge list itself. -/
theorem digraph_analyses_exact (es : List (Nat × Nat)) (hn : numNodes (ofEdges es) < maxU) :
    (∀ s : Tarjan.State, ∃ s' a, Tarjan.run s (ofEdges es) = some (s', a) ∧ a.size = numNodes (ofEdges es) ∧
      ∀ u v, u < numNodes (ofEdges es) → v < numNodes (ofEdges es) → (gt a u = gt a v ↔ SameSCC es u v)) ∧
    (∀ s : Gabow.State, ∃ s' a, Gabow.run s (ofEdges es) = some (s', a) ∧ a.size = numNodes (ofEdges es) ∧
      ∀ u v, u < numNodes (ofEdges es) → v < numNodes (ofEdges es) → (gt a u = gt a v ↔ SameSCC es u v)) ∧
    (∃ b, CycleCheck.cycleCheck (ofEdges es) = some b ∧ (b = true ↔ HasCycle es)) := by
  have hwf := ofEdges_wf es
  refine ⟨fun s => ?_, fun s => ?_, ?_⟩
  · obtain ⟨s', a, h1, h2, h3⟩ := tarjan_exact s (ofEdges es) hwf hn
    exact ⟨s', a, h1, h2, fun u v hu hv => (h3 u v hu hv).trans (sameSCC_ofEdges es u v)⟩
  · obtain ⟨s', a, h1, h2, h3⟩ := gabow_exact s (ofEdges es) hwf hn
    exact ⟨s', a, h1, h2, fun u v hu hv => (h3 u v hu hv).trans (sameSCC_ofEdges es u v)⟩
  · obtain ⟨b, h1, h2⟩ := cycle_exact (ofEdges es) hwf
    exact ⟨b, h1, h2.trans (hasCycle_ofEdges es)⟩

example : numNodes (ofEdges [(0, 1), (1, 0), (1, 2), (2, 2), (1, 0)]) = 3 := by decide +kernel

end Tbx.Props.C16
