import Tbx.Gen.Loops
import Tbx.Model.AHeap
/-
Tie theorems: `AddressableHeap::up_heap` / `down_heap` as regenerated statement by statement from
/repo/src/addressable_binary_heap.rs (`Tbx.Gen.Loops.heapUp`, `Tbx.Gen.Loops.heapDown`, arrays of structs
split into parallel columns by the translator) compute what the hand model `Tbx.AHeap.upHeap` /
`Tbx.AHeap.downHeap` computes, column by column.  No side condition is needed: reading a column out of
bounds gives `0`, which is the column of `default : Elem` / `default : Node`, and writes commute with
`Array.map` unconditionally.
-/
namespace Tbx.Props.GenLoopsHeap
open Tbx Tbx.AHeap

theorem aget_eq_gt {α : Type} [Inhabited α] (a : Array α) (i : Nat) : Tbx.Gen.aget a i = Tbx.gt a i := rfl
theorem aset_eq_st {α : Type} (a : Array α) (i : Nat) (x : α) : Tbx.Gen.aset a i x = Tbx.st a i x := rfl

/-- column projections of the arrays of structs -/
def hiA (h : Array Elem) : Array Nat := h.map (fun e => e.index)
def hwA (h : Array Elem) : Array Int := h.map (fun e => e.weight)
def nkA (ns : Array Node) : Array Nat := ns.map (fun n => n.key)

/-- heap index column -/
def hi (s : Heap) : Array Nat := s.heap.map (·.index)
/-- heap weight column -/
def hw (s : Heap) : Array Int := s.heap.map (·.weight)
/-- nodes key column -/
def nk (s : Heap) : Array Nat := s.nodes.map (·.key)

theorem hi_eq (s : Heap) : hi s = hiA s.heap := rfl
theorem hw_eq (s : Heap) : hw s = hwA s.heap := rfl
theorem nk_eq (s : Heap) : nk s = nkA s.nodes := rfl

/-! ### reads and writes commute with taking a column -/

theorem gt_map {α β : Type} [Inhabited α] [Inhabited β] (f : α → β) (hd : f default = default)
    (a : Array α) (i : Nat) : gt (a.map f) i = f (gt a i) := by
  simp only [gt, Array.getD_eq_getD_getElem?, Array.getElem?_map]
  cases a[i]? <;> simp [hd]

theorem st_map {α β : Type} (f : α → β) (a : Array α) (i : Nat) (x : α) :
    st (a.map f) i (f x) = (st a i x).map f := by
  simp only [st, Array.map_setIfInBounds]

/-- `key << 1` -/
theorem shl_one (n : Nat) : n <<< 1 = 2 * n := by
  simp [Nat.shiftLeft_eq, Nat.mul_comm]

theorem gt_hiA (h : Array Elem) (i : Nat) : gt (hiA h) i = (gt h i).index := gt_map (fun e : Elem => e.index) rfl h i
theorem gt_hwA (h : Array Elem) (i : Nat) : gt (hwA h) i = (gt h i).weight := gt_map (fun e : Elem => e.weight) rfl h i
theorem gt_nkA (ns : Array Node) (i : Nat) : gt (nkA ns) i = (gt ns i).key := gt_map (fun n : Node => n.key) rfl ns i

theorem st_hiA (h : Array Elem) (i : Nat) (x : Elem) : st (hiA h) i x.index = hiA (st h i x) :=
  st_map (fun e : Elem => e.index) h i x
theorem st_hwA (h : Array Elem) (i : Nat) (x : Elem) : st (hwA h) i x.weight = hwA (st h i x) :=
  st_map (fun e : Elem => e.weight) h i x
theorem st_nkA (ns : Array Node) (i k : Nat) : st (nkA ns) i k = nkA (setKey ns i k) :=
  st_map (fun n : Node => n.key) ns i { gt ns i with key := k }

theorem size_hiA (h : Array Elem) : (hiA h).size = h.size := by simp [hiA]

/-! ### up_heap -/

/-- the generated loop of `up_heap`, lambdas exactly as they stand in `Tbx.Gen.Loops.heapUp`
    (`weight_2` is the free variable of the closure) -/
def genUpLoop (weight_2 : Int) (fuel : Nat) (s : Array Nat × Array Int × Array Nat × Nat × Nat) :
    Array Nat × Array Int × Array Nat × Nat × Nat :=
  Tbx.Gen.whileFuel fuel
      (fun (self_heap_index_4, self_heap_weight_5, self_nodes_key_6, key_7, next_key_8) => (decide ((Tbx.Gen.aget self_heap_weight_5 next_key_8) > weight_2)))
      (fun (self_heap_index_4, self_heap_weight_5, self_nodes_key_6, key_7, next_key_8) =>
      let self_heap_index_9 : Array Nat := Tbx.Gen.aset self_heap_index_4 key_7 (Tbx.Gen.aget self_heap_index_4 next_key_8)
      let self_heap_weight_10 : Array Int := Tbx.Gen.aset self_heap_weight_5 key_7 (Tbx.Gen.aget self_heap_weight_5 next_key_8)
      let index_11 : Nat := (Tbx.Gen.aget self_heap_index_9 key_7)
      let self_nodes_key_12 : Array Nat := Tbx.Gen.aset self_nodes_key_6 index_11 key_7
      let key_13 : Nat := next_key_8
      let next_key_14 : Nat := (next_key_8 >>> (1 : Nat))
      (self_heap_index_9, self_heap_weight_10, self_nodes_key_12, key_13, next_key_14))
      s

/-- `heapUp` is its loop followed by the three closing writes -/
theorem heapUp_eq_loop (a : Array Nat) (b : Array Int) (c : Array Nat) (key : Nat) :
    Tbx.Gen.Loops.heapUp a b c key
      = ((), Tbx.Gen.aset (genUpLoop (Tbx.Gen.aget b key) key (a, b, c, key, key >>> 1)).1
               (genUpLoop (Tbx.Gen.aget b key) key (a, b, c, key, key >>> 1)).2.2.2.1 (Tbx.Gen.aget a key),
             Tbx.Gen.aset (genUpLoop (Tbx.Gen.aget b key) key (a, b, c, key, key >>> 1)).2.1
               (genUpLoop (Tbx.Gen.aget b key) key (a, b, c, key, key >>> 1)).2.2.2.1 (Tbx.Gen.aget b key),
             Tbx.Gen.aset (genUpLoop (Tbx.Gen.aget b key) key (a, b, c, key, key >>> 1)).2.2.1
               (Tbx.Gen.aget a key) (genUpLoop (Tbx.Gen.aget b key) key (a, b, c, key, key >>> 1)).2.2.2.1) := rfl

/-- key step: the generated `whileFuel` loop on the columns is the model's `upLoop` -/
theorem upLoop_eq_gen (fuel : Nat) (h : Array Elem) (ns : Array Node) (key : Nat) (w : Int) :
    genUpLoop w fuel (hiA h, hwA h, nkA ns, key, key / 2)
      = (hiA (upLoop fuel h ns key w).1, hwA (upLoop fuel h ns key w).1, nkA (upLoop fuel h ns key w).2.1,
         (upLoop fuel h ns key w).2.2, (upLoop fuel h ns key w).2.2 / 2) := by
  induction fuel generalizing h ns key with
  | zero => simp [genUpLoop, Tbx.Gen.whileFuel, upLoop]
  | succ f ih =>
    simp only [genUpLoop, Tbx.Gen.whileFuel, upLoop, aget_eq_gt, aset_eq_st, gt_hwA]
    by_cases hc : (gt h (key / 2)).weight > w
    · simp only [hc, decide_true, if_true]
      have := ih (st h key (gt h (key / 2))) (setKey ns (gt (st h key (gt h (key / 2))) key).index key) (key / 2)
      simp only [genUpLoop, aget_eq_gt, aset_eq_st] at this
      simpa only [gt_hiA, gt_hwA, st_hiA, st_hwA, st_nkA, Nat.shiftRight_eq_div_pow, Nat.pow_one] using this
    · simp [hc]

/-- 1. the generated `up_heap` is the model's `upHeap`, column by column (no side condition) -/
theorem gen_up_eq_model (s : Tbx.AHeap.Heap) (key : Nat) :
    Tbx.Gen.Loops.heapUp (hi s) (hw s) (nk s) key
      = ((), hi (Tbx.AHeap.upHeap s key), hw (Tbx.AHeap.upHeap s key), nk (Tbx.AHeap.upHeap s key)) := by
  rw [heapUp_eq_loop]
  simp only [hi_eq, hw_eq, nk_eq, aget_eq_gt, aset_eq_st, Nat.shiftRight_eq_div_pow, Nat.pow_one, gt_hwA,
    gt_hiA, upLoop_eq_gen, upHeap]
  rw [← st_nkA, ← st_hiA, ← st_hwA]

/-- non-vacuity: sentinel + 3 elements, the last one (weight 1) rises to the root -/
example :
    Tbx.Gen.Loops.heapUp #[0, 0, 1, 2] #[-100, 5, 7, 1] #[1, 2, 3] 3
      = ((), #[0, 2, 1, 0], #[-100, 1, 7, 5], #[3, 2, 1]) := by
  have := gen_up_eq_model
    { heap := #[⟨0, -100⟩, ⟨0, 5⟩, ⟨1, 7⟩, ⟨2, 1⟩], nodes := #[⟨10, 1, 5, 0⟩, ⟨11, 2, 7, 0⟩, ⟨12, 3, 1, 0⟩],
      idx := [], wmin := -100, wmax := 100 } 3
  simpa [hi, hw, nk, upHeap, upLoop, setKey, gt, st] using this

/-! ### down_heap -/

/-- the condition of the generated loop of `down_heap`, lambda exactly as it stands in `Tbx.Gen.Loops.heapDown` -/
def genDownCond (s : Bool × Nat × Array Nat × Array Int × Array Nat × Nat) : Bool :=
      (fun (brk_4, next_key_5, self_heap_index_6, self_heap_weight_7, self_nodes_key_8, key_9) => (!brk_4 && (decide (next_key_5 < (self_heap_index_6).size))))
      s

/-- the body of the generated loop of `down_heap`, lambda exactly as it stands in `Tbx.Gen.Loops.heapDown`
    (`weight_2` is the free variable of the closure) -/
def genDownBody (weight_2 : Int) (s : Bool × Nat × Array Nat × Array Int × Array Nat × Nat) :
    Bool × Nat × Array Nat × Array Int × Array Nat × Nat :=
      (fun (brk_4, next_key_5, self_heap_index_6, self_heap_weight_7, self_nodes_key_8, key_9) =>
      let next_key_sibling_10 : Nat := (next_key_5 + (1 : Nat))
      if ((decide (next_key_sibling_10 < (self_heap_index_6).size)) && (decide ((Tbx.Gen.aget self_heap_weight_7 next_key_5) > (Tbx.Gen.aget self_heap_weight_7 next_key_sibling_10)))) then
        let next_key_11 : Nat := next_key_sibling_10
        if (decide (weight_2 ≤ (Tbx.Gen.aget self_heap_weight_7 next_key_11))) then
          (true, next_key_11, self_heap_index_6, self_heap_weight_7, self_nodes_key_8, key_9)
        else
          let self_heap_index_12 : Array Nat := Tbx.Gen.aset self_heap_index_6 key_9 (Tbx.Gen.aget self_heap_index_6 next_key_11)
          let self_heap_weight_13 : Array Int := Tbx.Gen.aset self_heap_weight_7 key_9 (Tbx.Gen.aget self_heap_weight_7 next_key_11)
          let self_nodes_key_14 : Array Nat := Tbx.Gen.aset self_nodes_key_8 (Tbx.Gen.aget self_heap_index_12 key_9) key_9
          let key_15 : Nat := next_key_11
          let next_key_16 : Nat := (next_key_11 <<< (1 : Nat))
          (brk_4, next_key_16, self_heap_index_12, self_heap_weight_13, self_nodes_key_14, key_15)
      else
        if (decide (weight_2 ≤ (Tbx.Gen.aget self_heap_weight_7 next_key_5))) then
          (true, next_key_5, self_heap_index_6, self_heap_weight_7, self_nodes_key_8, key_9)
        else
          let self_heap_index_17 : Array Nat := Tbx.Gen.aset self_heap_index_6 key_9 (Tbx.Gen.aget self_heap_index_6 next_key_5)
          let self_heap_weight_18 : Array Int := Tbx.Gen.aset self_heap_weight_7 key_9 (Tbx.Gen.aget self_heap_weight_7 next_key_5)
          let self_nodes_key_19 : Array Nat := Tbx.Gen.aset self_nodes_key_8 (Tbx.Gen.aget self_heap_index_17 key_9) key_9
          let key_20 : Nat := next_key_5
          let next_key_21 : Nat := (next_key_5 <<< (1 : Nat))
          (brk_4, next_key_21, self_heap_index_17, self_heap_weight_18, self_nodes_key_19, key_20))
      s

/-- the generated loop of `down_heap` -/
def genDownLoop (weight_2 : Int) (fuel : Nat) (s : Bool × Nat × Array Nat × Array Int × Array Nat × Nat) :
    Bool × Nat × Array Nat × Array Int × Array Nat × Nat :=
  Tbx.Gen.whileFuel fuel genDownCond (genDownBody weight_2) s

theorem genDownLoop_zero (w : Int) (s : Bool × Nat × Array Nat × Array Int × Array Nat × Nat) :
    genDownLoop w 0 s = s := rfl
theorem genDownLoop_succ (w : Int) (f : Nat) (s : Bool × Nat × Array Nat × Array Int × Array Nat × Nat) :
    genDownLoop w (f + 1) s = if genDownCond s then genDownLoop w f (genDownBody w s) else s := rfl

/-- `heapDown` is its loop followed by the three closing writes -/
theorem heapDown_eq_loop (a : Array Nat) (b : Array Int) (c : Array Nat) (key : Nat) :
    Tbx.Gen.Loops.heapDown a b c key
      = ((), Tbx.Gen.aset (genDownLoop (Tbx.Gen.aget b key) a.size (false, key <<< 1, a, b, c, key)).2.2.1
               (genDownLoop (Tbx.Gen.aget b key) a.size (false, key <<< 1, a, b, c, key)).2.2.2.2.2 (Tbx.Gen.aget a key),
             Tbx.Gen.aset (genDownLoop (Tbx.Gen.aget b key) a.size (false, key <<< 1, a, b, c, key)).2.2.2.1
               (genDownLoop (Tbx.Gen.aget b key) a.size (false, key <<< 1, a, b, c, key)).2.2.2.2.2 (Tbx.Gen.aget b key),
             Tbx.Gen.aset (genDownLoop (Tbx.Gen.aget b key) a.size (false, key <<< 1, a, b, c, key)).2.2.2.2.1
               (Tbx.Gen.aget a key) (genDownLoop (Tbx.Gen.aget b key) a.size (false, key <<< 1, a, b, c, key)).2.2.2.2.2) := rfl

/-- once the `break` flag is set the loop is over -/
theorem genDownLoop_brk (w : Int) (fuel n : Nat) (a : Array Nat) (b : Array Int) (c : Array Nat) (k : Nat) :
    genDownLoop w fuel (true, n, a, b, c, k) = (true, n, a, b, c, k) := by
  cases fuel with
  | zero => rfl
  | succ f => rw [genDownLoop_succ]; simp [genDownCond]

/-- key step: the generated `whileFuel` loop on the columns (ignoring the flag and `next_key`, which are dead
    after the loop) is the model's `downLoop` -/
theorem downLoop_eq_gen (fuel : Nat) (h : Array Elem) (ns : Array Node) (key : Nat) (w : Int) :
    (genDownLoop w fuel (false, 2 * key, hiA h, hwA h, nkA ns, key)).2.2
      = (hiA (downLoop fuel h ns key w).1, hwA (downLoop fuel h ns key w).1, nkA (downLoop fuel h ns key w).2.1,
         (downLoop fuel h ns key w).2.2) := by
  induction fuel generalizing h ns key with
  | zero => simp [genDownLoop_zero, downLoop]
  | succ f ih =>
    rw [genDownLoop_succ]
    simp only [downLoop]
    by_cases hn : 2 * key < h.size
    · have hcond : genDownCond (false, 2 * key, hiA h, hwA h, nkA ns, key) = true := by
        simp [genDownCond, size_hiA, hn]
      simp only [hn, hcond, if_true]
      by_cases hs : 2 * key + 1 < h.size ∧ (gt h (2 * key)).weight > (gt h (2 * key + 1)).weight
      · simp only [hs, and_self, if_true]
        by_cases hw' : w ≤ (gt h (2 * key + 1)).weight
        · have hbody : genDownBody w (false, 2 * key, hiA h, hwA h, nkA ns, key)
              = (true, 2 * key + 1, hiA h, hwA h, nkA ns, key) := by
            simp [genDownBody, aget_eq_gt, gt_hwA, size_hiA, hs, hw']
          simp only [hw', if_true, hbody, genDownLoop_brk]
        · have hbody : genDownBody w (false, 2 * key, hiA h, hwA h, nkA ns, key)
              = (false, 2 * (2 * key + 1), hiA (st h key (gt h (2 * key + 1))), hwA (st h key (gt h (2 * key + 1))),
                 nkA (setKey ns (gt (st h key (gt h (2 * key + 1))) key).index key), 2 * key + 1) := by
            simp [genDownBody, aget_eq_gt, aset_eq_st, gt_hwA, gt_hiA, size_hiA, hs, hw', st_hiA, st_hwA, st_nkA,
              shl_one]
          simp only [hw', if_false, hbody, ih]
      · simp only [hs, if_false]
        have hs' : ¬ (2 * key + 1 < h.size ∧ (gt h (2 * key + 1)).weight < (gt h (2 * key)).weight) := hs
        by_cases hw' : w ≤ (gt h (2 * key)).weight
        · have hbody : genDownBody w (false, 2 * key, hiA h, hwA h, nkA ns, key)
              = (true, 2 * key, hiA h, hwA h, nkA ns, key) := by
            simp [genDownBody, aget_eq_gt, gt_hwA, size_hiA, hs', hw']
          simp only [hw', if_true, hbody, genDownLoop_brk]
        · have hbody : genDownBody w (false, 2 * key, hiA h, hwA h, nkA ns, key)
              = (false, 2 * (2 * key), hiA (st h key (gt h (2 * key))), hwA (st h key (gt h (2 * key))),
                 nkA (setKey ns (gt (st h key (gt h (2 * key))) key).index key), 2 * key) := by
            simp [genDownBody, aget_eq_gt, aset_eq_st, gt_hwA, gt_hiA, size_hiA, hs', hw', st_hiA, st_hwA, st_nkA,
              shl_one]
          simp only [hw', if_false, hbody, ih]
    · have hcond : genDownCond (false, 2 * key, hiA h, hwA h, nkA ns, key) = false := by
        simp [genDownCond, size_hiA, hn]
      simp [hn, hcond]

/-- 2. the generated `down_heap` is the model's `downHeap`, column by column (no side condition) -/
theorem gen_down_eq_model (s : Tbx.AHeap.Heap) (key : Nat) :
    Tbx.Gen.Loops.heapDown (hi s) (hw s) (nk s) key
      = ((), hi (Tbx.AHeap.downHeap s key), hw (Tbx.AHeap.downHeap s key), nk (Tbx.AHeap.downHeap s key)) := by
  rw [heapDown_eq_loop]
  have hk : key <<< 1 = 2 * key := shl_one key
  have hl := downLoop_eq_gen s.heap.size s.heap s.nodes key (gt s.heap key).weight
  simp only [hi_eq, hw_eq, nk_eq, aget_eq_gt, aset_eq_st, hk, gt_hwA, gt_hiA, size_hiA, downHeap]
  generalize genDownLoop (gt s.heap key).weight s.heap.size (false, 2 * key, hiA s.heap, hwA s.heap, nkA s.nodes, key) = g at hl ⊢
  obtain ⟨g1, g2, g3, g4, g5, g6⟩ := g
  simp only [Prod.mk.injEq] at hl
  obtain ⟨h1, h2, h3, h4⟩ := hl
  subst h1 h2 h3 h4
  simp only
  rw [← st_nkA, ← st_hiA, ← st_hwA]

/-- non-vacuity: sentinel + 3 elements, the root (weight 9) drops below its lighter child -/
example :
    Tbx.Gen.Loops.heapDown #[0, 0, 1, 2] #[-100, 9, 7, 3] #[1, 2, 3] 1
      = ((), #[0, 2, 1, 0], #[-100, 3, 7, 9], #[3, 2, 1]) := by
  have := gen_down_eq_model
    { heap := #[⟨0, -100⟩, ⟨0, 9⟩, ⟨1, 7⟩, ⟨2, 3⟩], nodes := #[⟨10, 1, 9, 0⟩, ⟨11, 2, 7, 0⟩, ⟨12, 3, 3, 0⟩],
      idx := [], wmin := -100, wmax := 100 } 1
  simpa [hi, hw, nk, downHeap, downLoop, setKey, gt, st] using this

/-! ### the other columns of `nodes` are untouched -/

theorem setKey_map_other {β : Type} (f : Node → β) (hf : ∀ (n : Node) (k : Nat), f { n with key := k } = f n)
    (ns : Array Node) (i k : Nat) : (setKey ns i k).map f = ns.map f := by
  apply Array.ext
  · simp [setKey, st]
  · intro j h1 h2
    have hj : j < ns.size := by simpa using h2
    simp only [setKey, st, Array.getElem_map]
    rw [Array.getElem_setIfInBounds hj]
    split
    · rename_i hij
      subst hij
      rw [hf]
      simp [gt, hj]
    · rfl

theorem upLoop_map_other {β : Type} (f : Node → β) (hf : ∀ (n : Node) (k : Nat), f { n with key := k } = f n)
    (fuel : Nat) (h : Array Elem) (ns : Array Node) (key : Nat) (w : Int) :
    (upLoop fuel h ns key w).2.1.map f = ns.map f := by
  induction fuel generalizing h ns key with
  | zero => simp [upLoop]
  | succ n ih =>
    simp only [upLoop]
    split
    · rw [ih, setKey_map_other f hf]
    · rfl

theorem downLoop_map_other {β : Type} (f : Node → β) (hf : ∀ (n : Node) (k : Nat), f { n with key := k } = f n)
    (fuel : Nat) (h : Array Elem) (ns : Array Node) (key : Nat) (w : Int) :
    (downLoop fuel h ns key w).2.1.map f = ns.map f := by
  induction fuel generalizing h ns key with
  | zero => simp [downLoop]
  | succ n ih =>
    simp only [downLoop]
    repeat' split
    all_goals first | rfl | rw [ih, setKey_map_other f hf]

/-- 3a. `upHeap` leaves the id / weight / data columns of `nodes` (and `idx`, `wmin`, `wmax`) as they are: the
    three columns of `gen_up_eq_model` are everything `up_heap` writes -/
theorem up_other_fields (s : Tbx.AHeap.Heap) (key : Nat) :
    (Tbx.AHeap.upHeap s key).nodes.map (·.id) = s.nodes.map (·.id)
    ∧ (Tbx.AHeap.upHeap s key).nodes.map (·.weight) = s.nodes.map (·.weight)
    ∧ (Tbx.AHeap.upHeap s key).nodes.map (·.data) = s.nodes.map (·.data)
    ∧ (Tbx.AHeap.upHeap s key).idx = s.idx ∧ (Tbx.AHeap.upHeap s key).wmin = s.wmin
    ∧ (Tbx.AHeap.upHeap s key).wmax = s.wmax := by
  refine ⟨?_, ?_, ?_, rfl, rfl, rfl⟩ <;>
    simp only [upHeap] <;> rw [setKey_map_other _ (fun _ _ => rfl), upLoop_map_other _ (fun _ _ => rfl)]

/-- 3b. likewise for `downHeap` -/
theorem down_other_fields (s : Tbx.AHeap.Heap) (key : Nat) :
    (Tbx.AHeap.downHeap s key).nodes.map (·.id) = s.nodes.map (·.id)
    ∧ (Tbx.AHeap.downHeap s key).nodes.map (·.weight) = s.nodes.map (·.weight)
    ∧ (Tbx.AHeap.downHeap s key).nodes.map (·.data) = s.nodes.map (·.data)
    ∧ (Tbx.AHeap.downHeap s key).idx = s.idx ∧ (Tbx.AHeap.downHeap s key).wmin = s.wmin
    ∧ (Tbx.AHeap.downHeap s key).wmax = s.wmax := by
  refine ⟨?_, ?_, ?_, rfl, rfl, rfl⟩ <;>
    simp only [downHeap] <;> rw [setKey_map_other _ (fun _ _ => rfl), downLoop_map_other _ (fun _ _ => rfl)]

/-- non-vacuity of 3a/3b on the heaps of the two examples above -/
def exUp : Heap :=
  { heap := #[⟨0, -100⟩, ⟨0, 5⟩, ⟨1, 7⟩, ⟨2, 1⟩], nodes := #[⟨10, 1, 5, 0⟩, ⟨11, 2, 7, 0⟩, ⟨12, 3, 1, 0⟩],
    idx := [], wmin := -100, wmax := 100 }
def exDown : Heap :=
  { heap := #[⟨0, -100⟩, ⟨0, 9⟩, ⟨1, 7⟩, ⟨2, 3⟩], nodes := #[⟨10, 1, 9, 0⟩, ⟨11, 2, 7, 0⟩, ⟨12, 3, 3, 0⟩],
    idx := [], wmin := -100, wmax := 100 }

example : (Tbx.AHeap.upHeap exUp 3).nodes.map (·.id) = #[10, 11, 12] := by
  rw [(up_other_fields exUp 3).1]; simp [exUp]

example : (Tbx.AHeap.downHeap exDown 1).nodes.map (·.weight) = #[9, 7, 3] := by
  rw [(down_other_fields exDown 1).2.1]; simp [exDown]

end Tbx.Props.GenLoopsHeap
