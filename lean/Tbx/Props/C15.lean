import Tbx.Model.Search
import Tbx.Spec.Reach
import Tbx.Proofs.SearchBasic
import Tbx.Proofs.SearchComplete
import Tbx.Proofs.SearchSound
/-
C15 — BFS and DFS decide reachability exactly and return valid (BFS: shortest) paths.

Property theorems only (helper lemmas live in Tbx/Proofs/Search*.lean).  Registered in Tbx/Audit/C15.lean.
All theorems are about `Search.runWith pop …`, the model of `run_with_filter` of BOTH bfs.rs
(`pop = popFront`) and dfs.rs (`pop = popBack`); unless stated otherwise they hold for every pop
discipline that returns a member of the worklist and keeps the others (`PopOK`).
-/
namespace Tbx.Props.C15
open Tbx Tbx.Search

/-- the object's source and target sets are disjoint (the property's precondition) -/
def DisjointST (sr : Searcher) : Prop := ∀ v, v ∈ sr.sources → gt sr.targetSet v = false

/-- the two disciplines used by the Rust are admissible -/
theorem disciplines_ok : PopOK popFront ∧ PopOK popBack := ⟨popFront_ok, popBack_ok⟩

/-! ### the judge's checkers mean what the Spec says -/

theorem judge_reach_sound (g : Reach.Graph) (filt : Nat → Bool) (srcs tgts : List Nat) (k : Nat)
    (hc : Reach.closedB g filt (Reach.ball g filt srcs k) = true) :
    Reach.anyTargetIn (Reach.ball g filt srcs k) tgts = true ↔
      ∃ t, t ∈ tgts ∧ Reach.Reachable g filt (· ∈ srcs) t :=
  Reach.anyTargetIn_iff g filt srcs tgts k hc

theorem judge_path_sound (g : Reach.Graph) (filt : Nat → Bool) (srcs tgts p : List Nat) :
    Reach.validPathB g filt srcs tgts p = true ↔ Reach.ValidPath g filt (· ∈ srcs) (· ∈ tgts) p :=
  Reach.validPathB_iff g filt srcs tgts p

theorem judge_edges_sound (g : Reach.Graph) (p es : List Nat) :
    Reach.edgesJoinB g p es = true ↔ Reach.EdgesJoin g p es :=
  Reach.edgesJoinB_iff g p es

theorem judge_shortest_sound (g : Reach.Graph) (filt : Nat → Bool) (srcs tgts : List Nat) (h : Nat) :
    Reach.noShorterB g filt srcs tgts h = true ↔ Reach.NoShorter g filt (· ∈ srcs) (· ∈ tgts) h :=
  Reach.noShorterB_iff g filt srcs tgts h

/-- non-vacuity of the judge theorems: on the unit-test graph of bfs.rs the ball of radius 6 is closed, node 5
    is reachable from 0, `0,1,5` is a valid path joined by edges 0 and 3, and nothing shorter exists -/
def utGraph : Reach.Graph := fun u =>
  match u with
  | 0 => [(1, 0), (4, 1)] | 1 => [(2, 2), (5, 3)] | 2 => [(3, 4)] | 4 => [(2, 5), (5, 6)] | 5 => [(3, 7)] | _ => []

example : Reach.closedB utGraph (fun _ => false) (Reach.ball utGraph (fun _ => false) [0] 6) = true ∧
    Reach.anyTargetIn (Reach.ball utGraph (fun _ => false) [0] 6) [5] = true ∧
    Reach.validPathB utGraph (fun _ => false) [0] [5] [0, 1, 5] = true ∧
    Reach.edgesJoinB utGraph [0, 1, 5] [0, 3] = true ∧
    Reach.noShorterB utGraph (fun _ => false) [0] [5] 2 = true := by decide

/-! ### found ⇔ reachable -/

/-- P0 `found_complete` (any pop discipline): `false` ⇒ no target is reachable from any source through
    unfiltered edges -/
theorem found_complete (pop : List Nat → Option (Nat × List Nat)) (hp : PopOK pop) (g : Graph)
    (filt : Nat → Bool) (sr sr' : Searcher) (hd : DisjointST sr)
    (h : runWith pop g filt sr = .ok (false, sr')) :
    ∀ v, Reach.Reachable g filt (· ∈ sr.sources) v → gt sr.targetSet v = false := by
  unfold runWith at h
  split at h
  · cases h
  · rename_i par hpar
    split at h
    · cases h
    · cases h
    · simp at h
    · rename_i s' hl
      intro v hv
      exact (loop_none_complete g filt (gt sr.targetSet) (· ∈ sr.sources) pop hp _ _ s'
        (init_CInv g filt _ sr par hpar) (fun v hs => (init_marked sr par hpar v).mpr hs) hd hl v hv).2

/-- what a successful run with a non-empty target set leaves behind: `target` is a target and the parents
    vector contains a tree path from a source to it -/
theorem found_tree (pop : List Nat → Option (Nat × List Nat)) (hp : PopOK pop) (g : Graph)
    (filt : Nat → Bool) (sr sr' : Searcher) (he : sr.emptyTargets = false)
    (h : runWith pop g filt sr = .ok (true, sr')) :
    ∃ t l, sr'.target = some t ∧ gt sr.targetSet t = true ∧
      Tree g filt (· ∈ sr.sources) (gt sr'.parents) t l := by
  unfold runWith at h
  split at h
  · cases h
  · rename_i par hpar
    split at h
    · cases h
    · cases h
    · rename_i t s' hl
      simp only [Res.ok.injEq, Prod.mk.injEq, true_and] at h
      subst h
      obtain ⟨ht, hT⟩ := loop_sound g filt (gt sr.targetSet) (· ∈ sr.sources) pop hp _ _ s' (some t)
        (init_SInv g filt sr par hpar) hl
      obtain ⟨hTt, hm⟩ := hT t rfl
      obtain ⟨l, hl'⟩ := ht t hm
      exact ⟨t, l, rfl, hTt, hl'⟩
    · simp only [Res.ok.injEq, Prod.mk.injEq] at h
      rw [he] at h
      exact absurd h.1 (by simp)

/-- P0 `found_sound` (any pop discipline): `true` with a non-empty target set ⇒ the parent chain from `target`,
    as returned by `fetch_node_path`, is a simple path from a source along existing unfiltered edges ending in
    a target -/
theorem found_sound (pop : List Nat → Option (Nat × List Nat)) (hp : PopOK pop) (g : Graph)
    (filt : Nat → Bool) (sr sr' : Searcher) (he : sr.emptyTargets = false)
    (h : runWith pop g filt sr = .ok (true, sr')) :
    ∃ t p, sr'.target = some t ∧ nodePath sr' = some p ∧ p.getLast? = some t ∧
      Reach.ValidPath g filt (· ∈ sr.sources) (fun v => gt sr.targetSet v = true) p := by
  obtain ⟨t, l, h1, h2, h3⟩ := found_tree pop hp g filt sr sr' he h
  refine ⟨t, l, h1, ?_, h3.last, h3.valid h2⟩
  unfold nodePath nodePathFrom
  rw [h1]
  simpa using nodePathLoop_tree h3 (sr'.parents.size + 1) [] (by have := h3.length_le; omega)

/-- P0 `paths_coherent`: after a successful run with a non-empty target set the three views agree: the iterator
    yields the node path in reverse, and the edge path has one edge per hop, edge `i` leading from node `i` to
    node `i+1` of the node path -/
theorem paths_coherent (pop : List Nat → Option (Nat × List Nat)) (hp : PopOK pop) (g : Graph)
    (filt : Nat → Bool) (sr sr' : Searcher) (he : sr.emptyTargets = false)
    (h : runWith pop g filt sr = .ok (true, sr')) :
    ∃ p es, nodePath sr' = some p ∧ pathIter sr' = some p.reverse ∧ edgePath g sr' = some es ∧
      Reach.EdgesJoin g p es := by
  obtain ⟨t, l, h1, _, h3⟩ := found_tree pop hp g filt sr sr' he h
  have hlen := h3.length_le
  obtain ⟨es, he1, he2⟩ := edgePathLoop_tree h3 (sr'.parents.size + 1) [] (by omega)
  refine ⟨l, es, ?_, ?_, ?_, he2⟩
  · unfold nodePath nodePathFrom
    rw [h1]
    simpa using nodePathLoop_tree h3 (sr'.parents.size + 1) [] (by omega)
  · unfold pathIter
    rw [h1]
    exact iterLoop_tree h3 (sr'.parents.size + 2) (by omega)
  · unfold edgePath
    rw [h1]
    simpa using he1

/-- P0 `empty_targets`: with an empty target set every run that does not panic reports `true` -/
theorem empty_targets (pop : List Nat → Option (Nat × List Nat)) (g : Graph)
    (filt : Nat → Bool) (sr sr' : Searcher) (b : Bool) (he : sr.emptyTargets = true)
    (h : runWith pop g filt sr = .ok (b, sr')) : b = true := by
  unfold runWith at h
  split at h
  · cases h
  · split at h
    · cases h
    · cases h
    · simp only [Res.ok.injEq, Prod.mk.injEq] at h; exact h.1.symm
    · simp only [Res.ok.injEq, Prod.mk.injEq] at h; rw [← h.1]; exact he

/-- … and (used by the min-cut sweep of the max-flow slices) with an empty target LIST the marked set is exactly
    the set of nodes reachable from the sources through unfiltered edges -/
theorem empty_targets_closure (pop : List Nat → Option (Nat × List Nat)) (hp : PopOK pop) (g : Graph)
    (filt : Nat → Bool) (srcs : List Nat) (n : Nat) (sr sr' : Searcher) (b : Bool)
    (hn : new srcs [] n = some sr) (h : runWith pop g filt sr = .ok (b, sr')) :
    ∀ v, marked sr'.parents v ↔ Reach.Reachable g filt (· ∈ srcs) v := by
  obtain ⟨e1, _, _, _, e5, _, _⟩ := new_spec srcs [] n sr hn
  have hT : ∀ v, gt sr.targetSet v = false := by
    intro v
    cases hv : gt sr.targetSet v with
    | false => rfl
    | true => exact absurd ((e5 v).mp hv) (by simp)
  unfold runWith at h
  split at h
  · cases h
  · rename_i par hpar
    split at h
    · cases h
    · cases h
    · rename_i t s' hl
      obtain ⟨_, hTt⟩ := loop_sound g filt (gt sr.targetSet) (· ∈ sr.sources) pop hp _ _ s' (some t)
        (init_SInv g filt sr par hpar) hl
      have := (hTt t rfl).1
      rw [hT t] at this
      cases this
    · rename_i s' hl
      simp only [Res.ok.injEq, Prod.mk.injEq] at h
      obtain ⟨_, rfl⟩ := h
      intro v
      rw [← e1]
      constructor
      · intro hm
        obtain ⟨ht, _⟩ := loop_sound g filt (gt sr.targetSet) (· ∈ sr.sources) pop hp _ _ s' none
          (init_SInv g filt sr par hpar) hl
        obtain ⟨l, hl'⟩ := ht v hm
        exact hl'.reachable
      · intro hr
        exact (loop_none_complete g filt (gt sr.targetSet) (· ∈ sr.sources) pop hp _ _ s'
          (init_CInv g filt _ sr par hpar) (fun v hs => (init_marked sr par hpar v).mpr hs)
          (fun v _ => hT v) hl v hr).1

/-- headline: on a fresh object over disjoint lists, the flag is `true` iff the target list is empty or some
    target is reachable from some source through unfiltered edges (any pop discipline, so BFS and DFS) -/
theorem search_decides (pop : List Nat → Option (Nat × List Nat)) (hp : PopOK pop) (g : Graph)
    (filt : Nat → Bool) (srcs tgts : List Nat) (n : Nat) (sr sr' : Searcher) (b : Bool)
    (hn : new srcs tgts n = some sr) (hdis : ∀ v, v ∈ srcs → v ∉ tgts)
    (h : runWith pop g filt sr = .ok (b, sr')) :
    b = true ↔ (tgts = [] ∨ ∃ t, t ∈ tgts ∧ Reach.Reachable g filt (· ∈ srcs) t) := by
  obtain ⟨e1, e2, _, _, e5, _, _⟩ := new_spec srcs tgts n sr hn
  have hd : DisjointST sr := by
    intro v hv
    rw [e1] at hv
    cases hq : gt sr.targetSet v with
    | false => rfl
    | true => exact absurd ((e5 v).mp hq) (hdis v hv)
  constructor
  · intro hb
    subst hb
    cases het : sr.emptyTargets with
    | true =>
      left
      rw [e2] at het
      simpa using het
    | false =>
      right
      obtain ⟨t, l, _, h2, h3⟩ := found_tree pop hp g filt sr sr' het h
      refine ⟨t, (e5 t).mp h2, ?_⟩
      rw [← e1]; exact h3.reachable
  · intro hor
    cases hb : b with
    | true => rfl
    | false =>
      subst hb
      have hc := found_complete pop hp g filt sr sr' hd h
      rcases hor with h1 | ⟨t, ht, hr⟩
      · subst h1
        have := empty_targets pop g filt sr sr' false (by rw [e2]; rfl) h
        cases this
      · rw [← e1] at hr
        have := hc t hr
        rw [(e5 t).mpr ht] at this
        cases this

/-! ### runs on one object are independent of earlier runs -/

/-- the part of a result that later observations can see -/
def view (r : Res (Bool × Searcher)) : Res (Bool × Array (Option Nat) × List Nat) :=
  match r with
  | .panic => .panic
  | .fuel => .fuel
  | .ok (b, s) => .ok (b, s.parents, s.wl)

/-- the fields `run_with_filter` reads before overwriting them -/
def SameConfig (a b : Searcher) : Prop :=
  a.sources = b.sources ∧ a.targetSet = b.targetSet ∧ a.emptyTargets = b.emptyTargets ∧
  a.parents.size = b.parents.size

/-- P0 `runs_independent` (one step): `run_with_filter` resets the worklist and the parents, so flag, parents and
    worklist depend only on (graph, filter, sources, targets, number of nodes); and whenever a target was
    discovered the `target` field (hence all three path views) is the same, too -/
theorem runs_independent (pop : List Nat → Option (Nat × List Nat)) (g : Graph) (filt : Nat → Bool)
    (a b : Searcher) (hc : SameConfig a b) :
    view (runWith pop g filt a) = view (runWith pop g filt b) ∧
    (∀ a' b', runWith pop g filt a = .ok (true, a') → runWith pop g filt b = .ok (true, b') →
       a.emptyTargets = false →
       a'.target = b'.target ∧ nodePath a' = nodePath b' ∧ edgePath g a' = edgePath g b' ∧
       pathIter a' = pathIter b') := by
  obtain ⟨c1, c2, c3, c4⟩ := hc
  have hr : resetParents a = resetParents b := by unfold resetParents; rw [c1, c4]
  have hf : runFuel a = runFuel b := by unfold runFuel; rw [c1, c4]
  constructor
  · unfold runWith
    rw [hr, hf, c1, c2, c3]
    cases resetParents b with
    | none => rfl
    | some par =>
      simp only
      cases loop g filt (gt b.targetSet) pop (runFuel b) { par := par, wl := b.sources } with
      | panic => rfl
      | fuel => rfl
      | done r s' => cases r <;> rfl
  · intro a' b' ha hb he
    unfold runWith at ha hb
    rw [hr, hf, c1, c2] at ha
    cases hrp : resetParents b with
    | none => rw [hrp] at hb; cases hb
    | some par =>
      rw [hrp] at ha hb
      simp only at ha hb
      cases hl : loop g filt (gt b.targetSet) pop (runFuel b) { par := par, wl := b.sources } with
      | panic => rw [hl] at hb; cases hb
      | fuel => rw [hl] at hb; cases hb
      | done r s' =>
        rw [hl] at ha hb
        cases r with
        | none =>
          simp only [Res.ok.injEq, Prod.mk.injEq] at ha
          rw [he] at ha
          exact absurd ha.1 (by simp)
        | some t =>
          simp only [Res.ok.injEq, Prod.mk.injEq, true_and] at ha hb
          subst ha; subst hb
          simp [nodePath, edgePath, pathIter]

/-- `run_with_filter` does not change what the next run reads -/
theorem run_keeps_config (pop : List Nat → Option (Nat × List Nat)) (g : Graph) (filt : Nat → Bool)
    (a a' : Searcher) (b : Bool) (h : runWith pop g filt a = .ok (b, a')) : SameConfig a' a := by
  unfold runWith at h
  split at h
  · cases h
  · rename_i par hpar
    have hps := (resetParents_spec a par hpar).1
    split at h
    · cases h
    · cases h
    · rename_i t s' hl
      simp only [Res.ok.injEq, Prod.mk.injEq] at h
      obtain ⟨_, rfl⟩ := h
      refine ⟨rfl, rfl, rfl, ?_⟩
      simp only
      rw [loop_size g filt _ pop _ _ s' _ hl]; exact hps
    · rename_i s' hl
      simp only [Res.ok.injEq, Prod.mk.injEq] at h
      obtain ⟨_, rfl⟩ := h
      refine ⟨rfl, rfl, rfl, ?_⟩
      simp only
      rw [loop_size g filt _ pop _ _ s' _ hl]; exact hps

/-- any history of earlier successful runs (with arbitrary graphs, filters and disciplines) -/
inductive After (a : Searcher) : Searcher → Prop where
  | refl : After a a
  | step (pop : List Nat → Option (Nat × List Nat)) (g : Graph) (filt : Nat → Bool) (x y : Searcher) (b : Bool) :
      After a x → runWith pop g filt x = .ok (b, y) → After a y

/-- P0 `runs_independent` (histories): after any sequence of earlier runs on one object, the next run gives what
    it gives on the object before those runs (in particular: on a fresh object) -/
theorem runs_independent_history (a x : Searcher) (hx : After a x)
    (pop : List Nat → Option (Nat × List Nat)) (g : Graph) (filt : Nat → Bool) :
    view (runWith pop g filt x) = view (runWith pop g filt a) ∧
    (∀ x' a', runWith pop g filt x = .ok (true, x') → runWith pop g filt a = .ok (true, a') →
       a.emptyTargets = false →
       nodePath x' = nodePath a' ∧ edgePath g x' = edgePath g a' ∧ pathIter x' = pathIter a') := by
  have hc : SameConfig x a := by
    induction hx with
    | refl => exact ⟨rfl, rfl, rfl, rfl⟩
    | step pop' g' filt' x y b _ hrun ih =>
      obtain ⟨k1, k2, k3, k4⟩ := run_keeps_config pop' g' filt' x y b hrun
      obtain ⟨i1, i2, i3, i4⟩ := ih
      exact ⟨k1.trans i1, k2.trans i2, k3.trans i3, k4.trans i4⟩
  obtain ⟨h1, h2⟩ := runs_independent pop g filt x a hc
  refine ⟨h1, ?_⟩
  intro x' a' hxr har he
  have := h2 x' a' hxr har (by rw [hc.2.2.1]; exact he)
  exact this.2

end Tbx.Props.C15
