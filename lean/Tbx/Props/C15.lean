import Tbx.Model.Search
import Tbx.Spec.Reach
namespace Tbx.Props.C15
open Tbx

/-- the judge's reachability test is exact once the ball is closed -/
theorem judge_reach_sound (g : Reach.Graph) (filt : Nat → Bool) (srcs tgts : List Nat) (k : Nat)
    (hc : Reach.closedB g filt (Reach.ball g filt srcs k) = true) :
    Reach.anyTargetIn (Reach.ball g filt srcs k) tgts = true ↔
      ∃ t, t ∈ tgts ∧ Reach.Reachable g filt (· ∈ srcs) t :=
  Reach.anyTargetIn_iff g filt srcs tgts k hc

end Tbx.Props.C15
