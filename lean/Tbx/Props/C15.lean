import Tbx.Model.Search
import Tbx.Spec.Reach
import Tbx.Proofs.SearchBasic
import Tbx.Proofs.SearchComplete
import Tbx.Proofs.SearchSound
import Tbx.Proofs.SearchBfs
import Tbx.Proofs.SearchFuel
/-
C15 — BFS and DFS decide reachability exactly and return valid (BFS: shortest) paths.

Property theorems only (helper lemmas live in Tbx/Proofs/Search*.lean).  Registered in Tbx/Audit/C15.lean.
All theorems are about `Search.runWith pop …`, the model of `run_with_filter` of BOTH bfs.rs
(`pop = popFront`) and dfs.rs (`pop = popBack`); unless stated otherwise they hold for every pop
discipline that returns a member of the worklist and keeps the others (`PopOK`).
-/
namespace Tbx.Props.C15
open Tbx Tbx.Search

/-- the object's source and target sets are disjoint (the property's precondition) -/
def DisjointST (sr : Searcher) : Prop := ∀ v, v ∈ sr.sources → gt sr.targetSet v = false

/-- the two disciplines used by the Rust are admissible -/
theorem disciplines_ok : PopOK popFront ∧ PopOK popBack := ⟨popFront_ok, popBack_ok⟩

/-! ### the judge's checkers mean what the Spec says -/

theorem judge_reach_sound (g : Reach.Graph) (filt : Nat → Bool) (srcs tgts : List Nat) (k : Nat)
    (hc : Reach.closedB g filt (Reach.ball g filt srcs k) = true) :
    Reach.anyTargetIn (Reach.ball g filt srcs k) tgts = true ↔
      ∃ t, t ∈ tgts ∧ Reach.Reachable g filt (· ∈ srcs) t :=
  Reach.anyTargetIn_iff g filt srcs tgts k hc

theorem judge_path_sound (g : Reach.Graph) (filt : Nat → Bool) (srcs tgts p : List Nat) :
    Reach.validPathB g filt srcs tgts p = true ↔ Reach.ValidPath g filt (· ∈ srcs) (· ∈ tgts) p :=
  Reach.validPathB_iff g filt srcs tgts p

theorem judge_edges_sound (g : Reach.Graph) (p es : List Nat) :
    Reach.edgesJoinB g p es = true ↔ Reach.EdgesJoin g p es :=
  Reach.edgesJoinB_iff g p es

theorem judge_shortest_sound (g : Reach.Graph) (filt : Nat → Bool) (srcs tgts : List Nat) (h : Nat) :
    Reach.noShorterB g filt srcs tgts h = true ↔ Reach.NoShorter g filt (· ∈ srcs) (· ∈ tgts) h :=
  Reach.noShorterB_iff g filt srcs tgts h

/-- non-vacuity of the judge theorems: on the unit-test graph of bfs.rs the ball of radius 6 is closed, node 5
    is reachable from 0, `0,1,5` is a valid path joined by edges 0 and 3, and nothing shorter exists -/
def utGraph : Reach.Graph := fun u =>
  match u with
  | 0 => [(1, 0), (4, 1)] | 1 => [(2, 2), (5, 3)] | 2 => [(3, 4)] | 4 => [(2, 5), (5, 6)] | 5 => [(3, 7)] | _ => []

example : Reach.closedB utGraph (fun _ => false) (Reach.ball utGraph (fun _ => false) [0] 6) = true ∧
    Reach.anyTargetIn (Reach.ball utGraph (fun _ => false) [0] 6) [5] = true ∧
    Reach.validPathB utGraph (fun _ => false) [0] [5] [0, 1, 5] = true ∧
    Reach.edgesJoinB utGraph [0, 1, 5] [0, 3] = true ∧
    Reach.noShorterB utGraph (fun _ => false) [0] [5] 2 = true := by decide

/-- objects used by the non-vacuity examples: `BFS::new(&[0], &[3], 6)` on the unit-test graph, and a filter that
    removes both edges into node 3 (ids 4 and 7) -/
def exObj : Searcher :=
  { sources := [0], targetSet := #[false, false, false, true, false, false],
    parents := #[some 0, none, none, none, none, none], target := none, wl := [], emptyTargets := false }

def noIn3 : Nat → Bool := fun e => e == 4 || e == 7

example : new [0] [3] 6 = some exObj := rfl

theorem exObj_disjoint : DisjointST exObj := by
  intro v hv
  simp only [exObj, List.mem_singleton] at hv
  subst hv; rfl

/-- flag and the three path views of a result, for the examples -/
def flagOf (r : Res (Bool × Searcher)) : Option Bool :=
  match r with
  | .ok (b, _) => some b
  | _ => none

def viewsOf (g : Graph) (r : Res (Bool × Searcher)) : Option (Option (List Nat) × Option (List Nat) × Option (List Nat)) :=
  match r with
  | .ok (_, s) => some (nodePath s, edgePath g s, pathIter s)
  | _ => none

/-! ### found ⇔ reachable -/

/-- P0 `found_complete` (any pop discipline): `false` ⇒ no target is reachable from any source through
    unfiltered edges -/
theorem found_complete (pop : List Nat → Option (Nat × List Nat)) (hp : PopOK pop) (g : Graph)
    (filt : Nat → Bool) (sr sr' : Searcher) (hd : DisjointST sr)
    (h : runWith pop g filt sr = .ok (false, sr')) :
    ∀ v, Reach.Reachable g filt (· ∈ sr.sources) v → gt sr.targetSet v = false := by
  unfold runWith at h
  split at h
  · cases h
  · rename_i par hpar
    split at h
    · cases h
    · cases h
    · simp at h
    · rename_i s' hl
      intro v hv
      exact (loop_none_complete g filt (gt sr.targetSet) (· ∈ sr.sources) pop hp _ _ s'
        (init_CInv g filt _ sr par hpar) (fun v hs => (init_marked sr par hpar v).mpr hs) hd hl v hv).2

/-- non-vacuity: DFS and BFS from 0 with target 3 and both edges into 3 filtered explore five nodes and return `false` -/
example : (∃ sr', runWith popBack utGraph noIn3 exObj = .ok (false, sr')) ∧
    (∃ sr', runWith popFront utGraph noIn3 exObj = .ok (false, sr')) ∧ PopOK popBack ∧ DisjointST exObj :=
  ⟨⟨_, rfl⟩, ⟨_, rfl⟩, popBack_ok, exObj_disjoint⟩

/-- what a successful run with a non-empty target set leaves behind: `target` is a target and the parents
    vector contains a tree path from a source to it -/
theorem found_tree (pop : List Nat → Option (Nat × List Nat)) (hp : PopOK pop) (g : Graph)
    (filt : Nat → Bool) (sr sr' : Searcher) (he : sr.emptyTargets = false)
    (h : runWith pop g filt sr = .ok (true, sr')) :
    ∃ t l, sr'.target = some t ∧ gt sr.targetSet t = true ∧
      Tree g filt (· ∈ sr.sources) (gt sr'.parents) t l := by
  unfold runWith at h
  split at h
  · cases h
  · rename_i par hpar
    split at h
    · cases h
    · cases h
    · rename_i t s' hl
      simp only [Res.ok.injEq, Prod.mk.injEq, true_and] at h
      subst h
      obtain ⟨ht, hT⟩ := loop_sound g filt (gt sr.targetSet) (· ∈ sr.sources) pop hp _ _ s' (some t)
        (init_SInv g filt sr par hpar) hl
      obtain ⟨hTt, hm⟩ := hT t rfl
      obtain ⟨l, hl'⟩ := ht t hm
      exact ⟨t, l, rfl, hTt, hl'⟩
    · simp only [Res.ok.injEq, Prod.mk.injEq] at h
      rw [he] at h
      exact absurd h.1 (by simp)

/-- P0 `found_sound` (any pop discipline): `true` with a non-empty target set ⇒ the parent chain from `target`,
    as returned by `fetch_node_path`, is a simple path from a source along existing unfiltered edges ending in
    a target -/
theorem found_sound (pop : List Nat → Option (Nat × List Nat)) (hp : PopOK pop) (g : Graph)
    (filt : Nat → Bool) (sr sr' : Searcher) (he : sr.emptyTargets = false)
    (h : runWith pop g filt sr = .ok (true, sr')) :
    ∃ t p, sr'.target = some t ∧ nodePath sr' = some p ∧ p.getLast? = some t ∧
      Reach.ValidPath g filt (· ∈ sr.sources) (fun v => gt sr.targetSet v = true) p := by
  obtain ⟨t, l, h1, h2, h3⟩ := found_tree pop hp g filt sr sr' he h
  refine ⟨t, l, h1, ?_, h3.last, h3.valid h2⟩
  unfold nodePath nodePathFrom
  rw [h1]
  simpa using nodePathLoop_tree h3 (sr'.parents.size + 1) [] (by have := h3.length_le; omega)

/-- non-vacuity: unfiltered DFS and BFS from 0 to 3 succeed with a 3-edge path (DFS: 0,4,5,3; BFS: 0,1,2,3) -/
example : (∃ sr', runWith popBack utGraph (fun _ => false) exObj = .ok (true, sr')) ∧ exObj.emptyTargets = false ∧
    viewsOf utGraph (runWith popBack utGraph (fun _ => false) exObj) = some (some [0, 4, 5, 3], some [1, 6, 7], some [3, 5, 4, 0]) ∧
    viewsOf utGraph (runWith popFront utGraph (fun _ => false) exObj) = some (some [0, 1, 2, 3], some [0, 2, 4], some [3, 2, 1, 0]) :=
  ⟨⟨_, rfl⟩, rfl, by decide, by decide⟩

/-- P0 `paths_coherent`: after a successful run with a non-empty target set the three views agree: the iterator
    yields the node path in reverse, and the edge path has one edge per hop, edge `i` leading from node `i` to
    node `i+1` of the node path -/
theorem paths_coherent (pop : List Nat → Option (Nat × List Nat)) (hp : PopOK pop) (g : Graph)
    (filt : Nat → Bool) (sr sr' : Searcher) (he : sr.emptyTargets = false)
    (h : runWith pop g filt sr = .ok (true, sr')) :
    ∃ p es, nodePath sr' = some p ∧ pathIter sr' = some p.reverse ∧ edgePath g sr' = some es ∧
      Reach.EdgesJoin g p es := by
  obtain ⟨t, l, h1, _, h3⟩ := found_tree pop hp g filt sr sr' he h
  have hlen := h3.length_le
  obtain ⟨es, he1, he2⟩ := edgePathLoop_tree h3 (sr'.parents.size + 1) [] (by omega)
  refine ⟨l, es, ?_, ?_, ?_, he2⟩
  · unfold nodePath nodePathFrom
    rw [h1]
    simpa using nodePathLoop_tree h3 (sr'.parents.size + 1) [] (by omega)
  · unfold pathIter
    rw [h1]
    exact iterLoop_tree h3 (sr'.parents.size + 2) (by omega)
  · unfold edgePath
    rw [h1]
    simpa using he1

/-- non-vacuity: same run as above; with edge 5 (4→2) and edge 3 (1→5) filtered BFS finds 0,1,2,3 through edges 0,2,4 -/
example : (∃ sr', runWith popFront utGraph (fun e => e == 5 || e == 3) exObj = .ok (true, sr')) ∧
    viewsOf utGraph (runWith popFront utGraph (fun e => e == 5 || e == 3) exObj) =
      some (some [0, 1, 2, 3], some [0, 2, 4], some [3, 2, 1, 0]) :=
  ⟨⟨_, rfl⟩, by decide⟩

/-- P0 `empty_targets`: with an empty target set every run that does not panic reports `true` -/
theorem empty_targets (pop : List Nat → Option (Nat × List Nat)) (g : Graph)
    (filt : Nat → Bool) (sr sr' : Searcher) (b : Bool) (he : sr.emptyTargets = true)
    (h : runWith pop g filt sr = .ok (b, sr')) : b = true := by
  unfold runWith at h
  split at h
  · cases h
  · split at h
    · cases h
    · cases h
    · simp only [Res.ok.injEq, Prod.mk.injEq] at h; exact h.1.symm
    · simp only [Res.ok.injEq, Prod.mk.injEq] at h; rw [← h.1]; exact he

/-- non-vacuity: `BFS::new(&[0,1], &[], 6)` as in the unit test `multi_s_all_query` -/
example : ∃ sr sr', new [0, 1] [] 6 = some sr ∧ sr.emptyTargets = true ∧
    runWith popFront utGraph (fun _ => false) sr = .ok (true, sr') := ⟨_, _, rfl, rfl, rfl⟩

/-- … and (used by the min-cut sweep of the max-flow slices) with an empty target LIST the marked set is exactly
    the set of nodes reachable from the sources through unfiltered edges -/
theorem empty_targets_closure (pop : List Nat → Option (Nat × List Nat)) (hp : PopOK pop) (g : Graph)
    (filt : Nat → Bool) (srcs : List Nat) (n : Nat) (sr sr' : Searcher) (b : Bool)
    (hn : new srcs [] n = some sr) (h : runWith pop g filt sr = .ok (b, sr')) :
    ∀ v, marked sr'.parents v ↔ Reach.Reachable g filt (· ∈ srcs) v := by
  obtain ⟨e1, _, _, _, e5, _, _⟩ := new_spec srcs [] n sr hn
  have hT : ∀ v, gt sr.targetSet v = false := by
    intro v
    cases hv : gt sr.targetSet v with
    | false => rfl
    | true => exact absurd ((e5 v).mp hv) (by simp)
  unfold runWith at h
  split at h
  · cases h
  · rename_i par hpar
    split at h
    · cases h
    · cases h
    · rename_i t s' hl
      obtain ⟨_, hTt⟩ := loop_sound g filt (gt sr.targetSet) (· ∈ sr.sources) pop hp _ _ s' (some t)
        (init_SInv g filt sr par hpar) hl
      have := (hTt t rfl).1
      rw [hT t] at this
      cases this
    · rename_i s' hl
      simp only [Res.ok.injEq, Prod.mk.injEq] at h
      obtain ⟨_, rfl⟩ := h
      intro v
      rw [← e1]
      constructor
      · intro hm
        obtain ⟨ht, _⟩ := loop_sound g filt (gt sr.targetSet) (· ∈ sr.sources) pop hp _ _ s' none
          (init_SInv g filt sr par hpar) hl
        obtain ⟨l, hl'⟩ := ht v hm
        exact hl'.reachable
      · intro hr
        exact (loop_none_complete g filt (gt sr.targetSet) (· ∈ sr.sources) pop hp _ _ s'
          (init_CInv g filt _ sr par hpar) (fun v hs => (init_marked sr par hpar v).mpr hs)
          (fun v _ => hT v) hl v hr).1

/-- non-vacuity: from source 4 exactly the nodes 2,3,4,5 get marked -/
example : ∃ sr sr', new [4] [] 6 = some sr ∧ runWith popBack utGraph (fun _ => false) sr = .ok (true, sr') ∧
    (List.range 6).map (fun v => (gt sr'.parents v).isSome) = [false, false, true, true, true, true] :=
  ⟨_, _, rfl, rfl, by decide⟩

/-- headline: on a fresh object over disjoint lists, the flag is `true` iff the target list is empty or some
    target is reachable from some source through unfiltered edges (any pop discipline, so BFS and DFS) -/
theorem search_decides (pop : List Nat → Option (Nat × List Nat)) (hp : PopOK pop) (g : Graph)
    (filt : Nat → Bool) (srcs tgts : List Nat) (n : Nat) (sr sr' : Searcher) (b : Bool)
    (hn : new srcs tgts n = some sr) (hdis : ∀ v, v ∈ srcs → v ∉ tgts)
    (h : runWith pop g filt sr = .ok (b, sr')) :
    b = true ↔ (tgts = [] ∨ ∃ t, t ∈ tgts ∧ Reach.Reachable g filt (· ∈ srcs) t) := by
  obtain ⟨e1, e2, _, _, e5, _, _⟩ := new_spec srcs tgts n sr hn
  have hd : DisjointST sr := by
    intro v hv
    rw [e1] at hv
    cases hq : gt sr.targetSet v with
    | false => rfl
    | true => exact absurd ((e5 v).mp hq) (hdis v hv)
  constructor
  · intro hb
    subst hb
    cases het : sr.emptyTargets with
    | true =>
      left
      rw [e2] at het
      simpa using het
    | false =>
      right
      obtain ⟨t, l, _, h2, h3⟩ := found_tree pop hp g filt sr sr' het h
      refine ⟨t, (e5 t).mp h2, ?_⟩
      rw [← e1]; exact h3.reachable
  · intro hor
    cases hb : b with
    | true => rfl
    | false =>
      subst hb
      have hc := found_complete pop hp g filt sr sr' hd h
      rcases hor with h1 | ⟨t, ht, hr⟩
      · subst h1
        have := empty_targets pop g filt sr sr' false (by rw [e2]; rfl) h
        cases this
      · rw [← e1] at hr
        have := hc t hr
        rw [(e5 t).mpr ht] at this
        cases this

/-- non-vacuity: both values of the flag occur for disjoint non-empty lists -/
example : flagOf (bfsRun 6 utGraph (fun _ => false) [0, 1] [3, 5]) = some true ∧
    flagOf (dfsRun 6 utGraph (fun _ => false) [3] [0]) = some false ∧
    flagOf (dfsRun 6 utGraph noIn3 [0] [3]) = some false := by decide

/-! ### runs on one object are independent of earlier runs -/

/-- the part of a result that later observations can see -/
def view (r : Res (Bool × Searcher)) : Res (Bool × Array (Option Nat) × List Nat) :=
  match r with
  | .panic => .panic
  | .fuel => .fuel
  | .ok (b, s) => .ok (b, s.parents, s.wl)

/-- the fields `run_with_filter` reads before overwriting them -/
def SameConfig (a b : Searcher) : Prop :=
  a.sources = b.sources ∧ a.targetSet = b.targetSet ∧ a.emptyTargets = b.emptyTargets ∧
  a.parents.size = b.parents.size

/-- P0 `runs_independent` (one step): `run_with_filter` resets the worklist and the parents, so flag, parents and
    worklist depend only on (graph, filter, sources, targets, number of nodes); and whenever a target was
    discovered the `target` field (hence all three path views) is the same, too -/
theorem runs_independent (pop : List Nat → Option (Nat × List Nat)) (g : Graph) (filt : Nat → Bool)
    (a b : Searcher) (hc : SameConfig a b) :
    view (runWith pop g filt a) = view (runWith pop g filt b) ∧
    (∀ a' b', runWith pop g filt a = .ok (true, a') → runWith pop g filt b = .ok (true, b') →
       a.emptyTargets = false →
       a'.target = b'.target ∧ nodePath a' = nodePath b' ∧ edgePath g a' = edgePath g b' ∧
       pathIter a' = pathIter b') := by
  obtain ⟨c1, c2, c3, c4⟩ := hc
  have hr : resetParents a = resetParents b := by unfold resetParents; rw [c1, c4]
  have hf : runFuel a = runFuel b := by unfold runFuel; rw [c1, c4]
  constructor
  · unfold runWith
    rw [hr, hf, c1, c2, c3]
    cases resetParents b with
    | none => rfl
    | some par =>
      simp only
      cases loop g filt (gt b.targetSet) pop (runFuel b) { par := par, wl := b.sources } with
      | panic => rfl
      | fuel => rfl
      | done r s' => cases r <;> rfl
  · intro a' b' ha hb he
    unfold runWith at ha hb
    rw [hr, hf, c1, c2] at ha
    cases hrp : resetParents b with
    | none => rw [hrp] at hb; cases hb
    | some par =>
      rw [hrp] at ha hb
      simp only at ha hb
      cases hl : loop g filt (gt b.targetSet) pop (runFuel b) { par := par, wl := b.sources } with
      | panic => rw [hl] at hb; cases hb
      | fuel => rw [hl] at hb; cases hb
      | done r s' =>
        rw [hl] at ha hb
        cases r with
        | none =>
          simp only [Res.ok.injEq, Prod.mk.injEq] at ha
          rw [he] at ha
          exact absurd ha.1 (by simp)
        | some t =>
          simp only [Res.ok.injEq, Prod.mk.injEq, true_and] at ha hb
          subst ha; subst hb
          simp [nodePath, edgePath, pathIter]

/-- `run_with_filter` does not change what the next run reads -/
theorem run_keeps_config (pop : List Nat → Option (Nat × List Nat)) (g : Graph) (filt : Nat → Bool)
    (a a' : Searcher) (b : Bool) (h : runWith pop g filt a = .ok (b, a')) : SameConfig a' a := by
  unfold runWith at h
  split at h
  · cases h
  · rename_i par hpar
    have hps := (resetParents_spec a par hpar).1
    split at h
    · cases h
    · cases h
    · rename_i t s' hl
      simp only [Res.ok.injEq, Prod.mk.injEq] at h
      obtain ⟨_, rfl⟩ := h
      refine ⟨rfl, rfl, rfl, ?_⟩
      simp only
      rw [loop_size g filt _ pop _ _ s' _ hl]; exact hps
    · rename_i s' hl
      simp only [Res.ok.injEq, Prod.mk.injEq] at h
      obtain ⟨_, rfl⟩ := h
      refine ⟨rfl, rfl, rfl, ?_⟩
      simp only
      rw [loop_size g filt _ pop _ _ s' _ hl]; exact hps

/-- non-vacuity: a successful run on `exObj` -/
example : ∃ a', runWith popBack utGraph noIn3 exObj = .ok (false, a') := ⟨_, rfl⟩

/-- any history of earlier successful runs (with arbitrary graphs, filters and disciplines) -/
inductive After (a : Searcher) : Searcher → Prop where
  | refl : After a a
  | step (pop : List Nat → Option (Nat × List Nat)) (g : Graph) (filt : Nat → Bool) (x y : Searcher) (b : Bool) :
      After a x → runWith pop g filt x = .ok (b, y) → After a y

/-- P0 `runs_independent` (histories): after any sequence of earlier runs on one object, the next run gives what
    it gives on the object before those runs (in particular: on a fresh object) -/
theorem runs_independent_history (a x : Searcher) (hx : After a x)
    (pop : List Nat → Option (Nat × List Nat)) (g : Graph) (filt : Nat → Bool) :
    view (runWith pop g filt x) = view (runWith pop g filt a) ∧
    (∀ x' a', runWith pop g filt x = .ok (true, x') → runWith pop g filt a = .ok (true, a') →
       a.emptyTargets = false →
       nodePath x' = nodePath a' ∧ edgePath g x' = edgePath g a' ∧ pathIter x' = pathIter a') := by
  have hc : SameConfig x a := by
    induction hx with
    | refl => exact ⟨rfl, rfl, rfl, rfl⟩
    | step pop' g' filt' x y b _ hrun ih =>
      obtain ⟨k1, k2, k3, k4⟩ := run_keeps_config pop' g' filt' x y b hrun
      obtain ⟨i1, i2, i3, i4⟩ := ih
      exact ⟨k1.trans i1, k2.trans i2, k3.trans i3, k4.trans i4⟩
  obtain ⟨h1, h2⟩ := runs_independent pop g filt x a hc
  refine ⟨h1, ?_⟩
  intro x' a' hxr har he
  have := h2 x' a' hxr har (by rw [hc.2.2.1]; exact he)
  exact this.2

/-- non-vacuity: an object that first found 3, then failed under the filter, is `After exObj`; its next run gives
    the same views as a run on `exObj` itself although its `target`, parents and worklist fields differ -/
example : ∃ x y, runWith popFront utGraph (fun _ => false) exObj = .ok (true, x) ∧
    runWith popFront utGraph noIn3 x = .ok (false, y) ∧ After exObj y ∧ y.target = some 3 ∧
    y.parents ≠ exObj.parents ∧
    viewsOf utGraph (runWith popFront utGraph (fun e => e == 0) y) = some (some [0, 4, 2, 3], some [1, 5, 4], some [3, 2, 4, 0]) := by
  refine ⟨_, _, rfl, rfl, ?_, rfl, by decide, by decide⟩
  exact .step popFront utGraph noIn3 _ _ false
    (.step popFront utGraph (fun _ => false) exObj _ true .refl rfl) rfl

/-! ### BFS: minimal number of edges -/

/-- P1 `bfs_shortest`: with the queue discipline the node path of a successful run (non-empty target set, disjoint
    sources and targets) is a valid path and no target can be reached from any source with fewer unfiltered edges -/
theorem bfs_shortest (g : Graph) (filt : Nat → Bool) (sr sr' : Searcher) (hd : DisjointST sr)
    (he : sr.emptyTargets = false) (h : runWith popFront g filt sr = .ok (true, sr')) :
    ∃ p, nodePath sr' = some p ∧
      Reach.ValidPath g filt (· ∈ sr.sources) (fun v => gt sr.targetSet v = true) p ∧
      Reach.NoShorter g filt (· ∈ sr.sources) (fun v => gt sr.targetSet v = true) (p.length - 1) := by
  unfold runWith at h
  split at h
  · cases h
  · rename_i par hpar
    split at h
    · cases h
    · cases h
    · rename_i t s' hl
      simp only [Res.ok.injEq, Prod.mk.injEq, true_and] at h
      subst h
      obtain ⟨l, hl1, hl2⟩ := loop_bfs g filt (gt sr.targetSet) (· ∈ sr.sources) hd _ _ s' t _
        (init_BInv g filt _ sr par hpar) hl
      obtain ⟨_, hT⟩ := loop_sound g filt (gt sr.targetSet) (· ∈ sr.sources) popFront popFront_ok _ _ s' (some t)
        (init_SInv g filt sr par hpar) hl
      refine ⟨l, ?_, hl1.valid (hT t rfl).1, hl2⟩
      unfold nodePath nodePathFrom
      simpa using nodePathLoop_tree hl1 (s'.par.size + 1) [] (by have := hl1.length_le; omega)
    · simp only [Res.ok.injEq, Prod.mk.injEq] at h
      rw [he] at h
      exact absurd h.1 (by simp)

/-- non-vacuity: BFS from 0 to {3} on the unit-test graph succeeds; its path has 3 edges, and the judge's checker
    confirms that no target is within 2 edges (`noShorterB … 3`) while one is within 3 (`noShorterB … 4` fails) -/
example : (∃ sr', runWith popFront utGraph (fun _ => false) exObj = .ok (true, sr')) ∧ DisjointST exObj ∧
    Reach.noShorterB utGraph (fun _ => false) [0] [3] 3 = true ∧
    Reach.noShorterB utGraph (fun _ => false) [0] [3] 4 = false :=
  ⟨⟨_, rfl⟩, exObj_disjoint, by decide, by decide⟩

/-! ### the model is total on the property's domain -/

/-- the fuel passed by `runWith` is sufficient for both disciplines (they remove exactly one element per pop) -/
theorem fuel_sufficient (pop : List Nat → Option (Nat × List Nat)) (hp : PopLen pop) (g : Graph)
    (filt : Nat → Bool) (sr : Searcher) : runWith pop g filt sr ≠ .fuel := by
  unfold runWith
  split
  · simp
  · rename_i par hpar
    have hps := (resetParents_spec sr par hpar).1
    have hne := loop_ne_fuel g filt (gt sr.targetSet) pop hp (runFuel sr) { par := par, wl := sr.sources }
      (by have := unm_le par; simp only [runFuel]; omega)
    split
    · simp
    · rename_i hl; exact absurd hl hne
    · simp
    · simp

/-- non-vacuity: both disciplines of the Rust satisfy the hypothesis -/
example : PopLen popFront ∧ PopLen popBack := ⟨popFront_len, popBack_len⟩

theorem fuel_sufficient_bfs_dfs (g : Graph) (filt : Nat → Bool) (sr : Searcher) :
    runWith popFront g filt sr ≠ .fuel ∧ runWith popBack g filt sr ≠ .fuel :=
  ⟨fuel_sufficient _ popFront_len g filt sr, fuel_sufficient _ popBack_len g filt sr⟩

/-- on a graph all of whose edge targets are below `number_of_nodes`, with in-range sources, a run neither panics
    nor runs out of fuel: it returns a flag -/
theorem run_total (pop : List Nat → Option (Nat × List Nat)) (hp : PopOK pop) (hl : PopLen pop) (g : Graph)
    (filt : Nat → Bool) (sr : Searcher) (hs : ∀ v, v ∈ sr.sources → v < sr.parents.size)
    (hg : ∀ u v e, u < sr.parents.size → (v, e) ∈ g u → v < sr.parents.size) :
    ∃ b sr', runWith pop g filt sr = .ok (b, sr') := by
  have hf := fuel_sufficient pop hl g filt sr
  obtain ⟨par, hpar⟩ : ∃ par, resetParents sr = some par := by
    unfold resetParents
    exact setAll_isSome some sr.sources _ (by simpa using hs)
  have hps := (resetParents_spec sr par hpar).1
  have hnp := loop_ne_panic g filt (gt sr.targetSet) pop hp (runFuel sr) { par := par, wl := sr.sources }
    (by simp only; rw [hps]; exact hg) (fun x hx => (init_marked sr par hpar x).mpr hx)
  unfold runWith at hf ⊢
  rw [hpar] at hf ⊢
  simp only at hf ⊢
  cases hlp : loop g filt (gt sr.targetSet) pop (runFuel sr) { par := par, wl := sr.sources } with
  | panic => exact absurd hlp hnp
  | fuel => rw [hlp] at hf; simp at hf
  | done r s' =>
    cases r with
    | none => exact ⟨_, _, rfl⟩
    | some t => exact ⟨_, _, rfl⟩

/-- non-vacuity: `exObj` over the unit-test graph satisfies the hypotheses (all edge targets are below 6) -/
example : (∀ v, v ∈ exObj.sources → v < exObj.parents.size) ∧
    (∀ u v e, u < exObj.parents.size → (v, e) ∈ utGraph u → v < exObj.parents.size) := by
  refine ⟨by intro v hv; simp [exObj] at hv ⊢; omega, ?_⟩
  intro u v e hu hm
  have hu' : u < 6 := hu
  show v < 6
  match u, hu' with
  | 0, _ | 1, _ | 2, _ | 3, _ | 4, _ | 5, _ => simp [utGraph] at hm <;> omega

/-! ### the same statements in terms of the lists given to `BFS::new` / `DFS::new` (what the judge checks) -/

/-- fresh object over a non-empty target list, successful run: node path, iterator and edge path are three views of
    one simple path from a listed source to a listed target along existing unfiltered edges -/
theorem found_paths_lists (pop : List Nat → Option (Nat × List Nat)) (hp : PopOK pop) (g : Graph)
    (filt : Nat → Bool) (srcs tgts : List Nat) (n : Nat) (sr sr' : Searcher)
    (hn : new srcs tgts n = some sr) (hne : tgts ≠ []) (h : runWith pop g filt sr = .ok (true, sr')) :
    ∃ p es, nodePath sr' = some p ∧ pathIter sr' = some p.reverse ∧ edgePath g sr' = some es ∧
      Reach.ValidPath g filt (· ∈ srcs) (· ∈ tgts) p ∧ Reach.EdgesJoin g p es := by
  obtain ⟨e1, e2, _, _, e5, _, _⟩ := new_spec srcs tgts n sr hn
  have he : sr.emptyTargets = false := by
    rw [e2]; cases tgts with
    | nil => exact absurd rfl hne
    | cons _ _ => rfl
  obtain ⟨p, es, h1, h2, h3, h4⟩ := paths_coherent pop hp g filt sr sr' he h
  obtain ⟨t, p', _, h6, _, h8⟩ := found_sound pop hp g filt sr sr' he h
  rw [h1] at h6
  cases h6
  refine ⟨p, es, h1, h2, h3, ?_, h4⟩
  obtain ⟨⟨s, hs1, hs2⟩, ⟨t', ht1, ht2⟩, hnd, hlk⟩ := h8
  exact ⟨⟨s, hs1, e1 ▸ hs2⟩, ⟨t', ht1, (e5 t').mp ht2⟩, hnd, hlk⟩

/-- BFS on a fresh object over disjoint lists: no listed target can be reached from a listed source with fewer
    unfiltered edges than the node path has -/
theorem bfs_shortest_lists (g : Graph) (filt : Nat → Bool) (srcs tgts : List Nat) (n : Nat) (sr sr' : Searcher)
    (hn : new srcs tgts n = some sr) (hne : tgts ≠ []) (hdis : ∀ v, v ∈ srcs → v ∉ tgts)
    (h : runWith popFront g filt sr = .ok (true, sr')) :
    ∃ p, nodePath sr' = some p ∧ Reach.NoShorter g filt (· ∈ srcs) (· ∈ tgts) (p.length - 1) := by
  obtain ⟨e1, e2, _, _, e5, _, _⟩ := new_spec srcs tgts n sr hn
  have he : sr.emptyTargets = false := by
    rw [e2]; cases tgts with
    | nil => exact absurd rfl hne
    | cons _ _ => rfl
  have hd : DisjointST sr := by
    intro v hv
    rw [e1] at hv
    cases hq : gt sr.targetSet v with
    | false => rfl
    | true => exact absurd ((e5 v).mp hq) (hdis v hv)
  obtain ⟨p, h1, _, h3⟩ := bfs_shortest g filt sr sr' hd he h
  refine ⟨p, h1, ?_⟩
  intro k v hk hw ht
  exact h3 k v hk (e1 ▸ hw) ((e5 v).mpr ht)

/-- non-vacuity for both: `BFS::new(&[0,1], &[3,5], 6)` succeeds on the unit-test graph with the path 1,5 -/
example : ∃ sr sr', new [0, 1] [3, 5] 6 = some sr ∧ runWith popFront utGraph (fun _ => false) sr = .ok (true, sr') ∧
    nodePath sr' = some [1, 5] ∧ (∀ v, v ∈ [0, 1] → v ∉ [3, 5]) :=
  ⟨_, _, rfl, rfl, by decide, by decide⟩

end Tbx.Props.C15
