import Tbx.Proofs.FlowTheory
import Tbx.Proofs.FlowAugment
import Tbx.Proofs.FlowBuild
import Tbx.Proofs.FlowDinicDfs
import Tbx.Proofs.FlowDinicBfsSound
import Tbx.Proofs.FlowDinicTotal
import Tbx.Proofs.FlowDinicRerun
import Tbx.Proofs.FlowEKRerun
import Tbx.Proofs.FlowDinicResume
import Tbx.Proofs.FlowEKTotal
import Tbx.Model.Flow
import Tbx.Model.FlowDinic
import Tbx.Model.FlowLegacy
import Tbx.Model.FlowGeneric
/-
C01 — every max-flow solver returns the true maximum s-t flow value.

Property theorems only (helper lemmas: Tbx/Proofs/Flow*.lean).  Registered in Tbx/Audit/C01.lean.
Spec: `Tbx.FlowTheory.IsMaxFlowValue` over the merged input capacities `cF edges n`.
-/
namespace Tbx.Props.C01
open Tbx Tbx.Flow Tbx.FlowSpec Tbx.FlowTheory

/-! ### examples used for non-vacuity: the witness network of defect D1 -/

/-- input edges of D1's witness (s = 0, t = 4, maximum flow 10) -/
def d1E : List E := [(0,1,10),(1,2,10),(1,3,10),(1,4,3),(2,4,10),(3,4,10)]
/-- a final residual graph of a correct run on it -/
def d1R : List E :=
  [(0,1,0),(1,0,10),(1,2,3),(1,3,10),(1,4,0),(2,1,7),(2,4,3),(3,1,0),(3,4,10),(4,1,3),(4,2,7),(4,3,0)]
/-- the residual graph the pre-fix Dinic ended with (0→1 driven to −3, reported value 13) -/
def d1RLegacy : List E :=
  [(0,1,-3),(1,0,13),(1,2,0),(1,3,10),(1,4,0),(2,1,10),(2,4,0),(3,1,0),(3,4,10),(4,1,3),(4,2,10),(4,3,0)]
def d1Edges : List Edge := [⟨0,1,10⟩,⟨1,2,10⟩,⟨1,3,10⟩,⟨1,4,3⟩,⟨2,4,10⟩,⟨3,4,10⟩]

def exC : Fin 2 → Fin 2 → ℤ := fun u v => if u = 0 ∧ v = 1 then 3 else 0
def exF : Fin 2 → Fin 2 → ℤ := fun u v => if u = 0 ∧ v = 1 then 3 else if u = 1 ∧ v = 0 then -3 else 0
theorem exF_isFlow : IsFlow exC 0 1 exF := ⟨by decide, by decide, by decide⟩

/-! ### P0 -/

/-- the value of any flow is bounded by the capacity of any separating cut -/
theorem weak_duality {n : Nat} {c : Fin n → Fin n → ℤ} {s t : Fin n} {f : Fin n → Fin n → ℤ}
    (hf : IsFlow c s t f) (S : Finset (Fin n)) (hs : s ∈ S) (ht : t ∉ S) : value f s ≤ cutCap c S :=
  FlowTheory.weak_duality hf S hs ht

example : value exF 0 ≤ cutCap exC {0} := weak_duality exF_isFlow {0} (by decide) (by decide)

/-- max-flow = min-cut in the direction an algorithm needs: a flow that saturates every edge leaving a
    separating set S has the maximum value, that value is the capacity of S, and S is a minimum cut -/
theorem maxflow_certificate {n : Nat} {c : Fin n → Fin n → ℤ} {s t : Fin n} {f : Fin n → Fin n → ℤ}
    (hf : IsFlow c s t f) (S : Finset (Fin n)) (hs : s ∈ S) (ht : t ∉ S)
    (hsat : ∀ u ∈ S, ∀ v ∈ Sᶜ, f u v = c u v) :
    IsMaxFlowValue c s t (value f s) ∧ value f s = cutCap c S ∧
    (∀ S' : Finset (Fin n), s ∈ S' → t ∉ S' → cutCap c S ≤ cutCap c S') := by
  obtain ⟨a, b, d⟩ := certificate hf S hs ht hsat
  exact ⟨⟨⟨f, hf, rfl⟩, b⟩, a, d⟩

example : IsMaxFlowValue exC 0 1 (value exF 0) :=
  (maxflow_certificate exF_isFlow {0} (by decide) (by decide) (by decide)).1

/-- the certificate check on a final residual graph implies that the reported value is the maximum
    flow value of the merged input capacities.  The driver evaluates it on the residual graph of every
    REAL solver run (and of every model run) -/
theorem certOK_sound (es : List E) (s t : Nat) (res : List E) (x : ℤ)
    (h : certOK es s t res x = true) :
    ∃ (hs : s < nNodes es) (ht : t < nNodes es),
      IsMaxFlowValue (cF es (nNodes es)) ⟨s, hs⟩ ⟨t, ht⟩ x :=
  FlowTheory.certOK_sound es s t res x h

example : certOK d1E 0 4 d1R 10 = true := by decide +kernel
/-- the checker rejects what the pre-fix Dinic produced on D1's witness -/
example : certOK d1E 0 4 d1RLegacy 13 = false := by decide +kernel

/-- the tabulated checker the judge executes is the reference checker -/
theorem judge_checker_eq (es : List E) (s t : Nat) (res : List E) (x : ℤ) :
    certFast es s t res x = certOK es s t res x := certFast_eq es s t res x

example : certFast d1E 0 4 d1R 10 = true := by decide +kernel

/-- two certified runs (any solvers, any augmenting paths) report the same value -/
theorem solvers_agree (es : List E) (s t : Nat) (r1 r2 : List E) (x1 x2 : ℤ)
    (h1 : certOK es s t r1 x1 = true) (h2 : certOK es s t r2 x2 = true) : x1 = x2 := by
  obtain ⟨hs, ht, m1⟩ := FlowTheory.certOK_sound es s t r1 x1 h1
  obtain ⟨_, _, m2⟩ := FlowTheory.certOK_sound es s t r2 x2 h2
  exact maxFlowValue_unique m1 m2

/-- a second, different maximum flow on D1's witness (the one EdmondsKarp ends with) -/
def d1R' : List E :=
  [(0,1,0),(1,0,10),(1,2,10),(1,3,3),(1,4,0),(2,1,0),(2,4,10),(3,1,7),(3,4,3),(4,1,3),(4,2,0),(4,3,7)]
example : certOK d1E 0 4 d1R' 10 = true := by decide +kernel

/-- `max_flow()` / `assignment()` on a solver that has not finished a run return `Err` -/
theorem not_run_err (es : List Edge) (s t src : Nat) :
    (Solver.fromEdgeList es s t).maxFlow? = .err ∧ (Solver.fromEdgeList es s t).assignment? src = .err ∧
    (∀ d, Dinic.fromEdgeList es s t = some d → d.maxFlow? = .err ∧ d.assignment? src = .err) := by
  refine ⟨rfl, rfl, ?_⟩
  intro d hd
  unfold Dinic.fromEdgeList at hd
  split at hd
  · cases hd
  · cases hd; exact ⟨rfl, rfl⟩

example : (Dinic.fromEdgeList d1Edges 0 4).isSome = true := by decide +kernel

/-- a completed `run` sets `finished`, after which `max_flow()` is `Ok` of the accumulated flow -/
theorem run_then_ok (sv sv' : Solver) (pop : List Nat → Option (Nat × List Nat)) (fuel : Nat)
    (h : sv.run pop fuel = some sv') : sv'.maxFlow? = .ok sv'.maxFlow := by
  unfold Solver.run at h
  split at h
  · cases h
  · split at h
    · cases h
    · cases h; rfl

theorem dinic_run_then_ok (d d' : Dinic) (fuel : Nat) (h : d.run fuel = some d') :
    d'.maxFlow? = .ok d'.maxFlow := by
  unfold Dinic.run at h
  simp only at h
  split at h
  · cases h
  · split at h
    · cases h
    · cases h; rfl

example : ((Solver.fromEdgeList d1Edges 0 4).runEK 100).map (·.maxFlow?) = some (.ok 10) := by decide +kernel
example : ((Dinic.fromEdgeList d1Edges 0 4).bind (·.run 100)).map (·.maxFlow?) = some (.ok 10) := by
  decide +kernel

/-! ### P1: the algorithm models -/

/-- **merge_cap** (Dinic's constructor: sort by (source,target), `dedup_by`, CSR): the residual graph is
    a well-formed CSR graph with (largest id + 1) nodes and non-negative capacities whose residual on
    every node pair is the merged input capacity (reverse copies contribute 0) -/
theorem merge_cap_dinic (es : List Edge) (hnn : ∀ e, e ∈ es → 0 ≤ e.cap) :
    WF (residualDinic es) ∧ (residualDinic es).numNodes = maxId es + 1 ∧
    NonNeg (residualDinic es) ∧ ∀ u v, rOf (residualDinic es) u v = capE es u v :=
  Flow.merge_cap_dinic es hnn

/-- **merge_cap** (EdmondsKarp / FordFulkerson constructor: sort by the derived `Ord`, `dedup_by`,
    `StaticGraph::new`) -/
theorem merge_cap_ek (es : List Edge) (hnn : ∀ e, e ∈ es → 0 ≤ e.cap) :
    WF (residualEK es) ∧ (residualEK es).numNodes = maxId es + 1 ∧
    NonNeg (residualEK es) ∧ ∀ u v, rOf (residualEK es) u v = capE es u v :=
  Flow.merge_cap_ek es hnn

example : ∀ e, e ∈ d1Edges → 0 ≤ e.cap := by decide
example : capE (d1Edges ++ [⟨1,4,2⟩]) 1 4 = 5 := by decide

/-- **residual_inv**: `r ≥ 0 ∧ r u v + r v u = c u v + c v u` makes `c − r` a capacity-bounded
    antisymmetric function, and the invariant is preserved by pushing δ along a simple path all of whose
    residual capacities are at least δ -/
theorem residual_inv {n : Nat} {c r : Fin n → Fin n → ℤ} (h : ResInv c r) :
    (∀ u v, resFlow c r u v = - resFlow c r v u) ∧ (∀ u v, resFlow c r u v ≤ c u v) ∧
    (∀ (δ : ℤ) (p : List (Fin n)), 0 ≤ δ → p.Nodup → (∀ ab ∈ consec p, δ ≤ r ab.1 ab.2) →
      ResInv c (pushAlong r δ p)) := by
  refine ⟨?_, ?_, fun δ p hδ hnd hcap => pushAlong_resInv h δ hδ p hnd hcap⟩
  · intro u v; unfold resFlow; have := h.pair u v; omega
  · intro u v; unfold resFlow; have := h.nonneg u v; omega

example : ResInv exC (fun u v => if u = 0 ∧ v = 1 then 3 else 0) :=
  ⟨by decide, by decide⟩

/-- **augment_ok**: pushing `0 ≤ δ ≤ min r` along a simple s–t path of residual edges keeps the
    invariant and conservation and raises the value by δ -/
theorem augment_ok {n : Nat} {c r : Fin n → Fin n → ℤ} {s t : Fin n} (hst : s ≠ t) (h : ResInv c r)
    (hc : Conserved c r s t) (δ : ℤ) (hδ : 0 ≤ δ) (rest : List (Fin n)) (hnd : (s :: rest).Nodup)
    (hlast : (s :: rest).getLast (by simp) = t)
    (hcap : ∀ ab ∈ consec (s :: rest), δ ≤ r ab.1 ab.2) :
    ResInv c (pushAlong r δ (s :: rest)) ∧ Conserved c (pushAlong r δ (s :: rest)) s t ∧
    value (resFlow c (pushAlong r δ (s :: rest))) s = value (resFlow c r) s + δ :=
  FlowTheory.augment_ok hst h hc δ hδ rest hnd hlast hcap

/-- pushing 2 along 0→1 in the two-node network with capacity 3 -/
example : ResInv exC (pushAlong (fun u v => if u = 0 ∧ v = 1 then 3 else 0) 2 [0, 1]) ∧
    value (resFlow exC (pushAlong (fun u v => if u = 0 ∧ v = 1 then 3 else 0) 2 [0, 1])) 0 =
      value (resFlow exC (fun u v => if u = 0 ∧ v = 1 then 3 else 0)) 0 + 2 := by
  have key : ∀ u : Fin 2, u ≠ 0 → u ≠ 1 → False := by decide
  have h := augment_ok (c := exC) (r := fun u v => if u = 0 ∧ v = 1 then 3 else 0) (s := 0) (t := 1)
    (by decide) ⟨by decide, by decide⟩ (fun u h0 h1 => (key u h0 h1).elim) 2 (by decide) [1]
    (by decide) (by decide) (by decide)
  exact ⟨h.1, h.2.2⟩

/-- **ek_ff_correct**: for every edge list with non-negative capacities, every source ≠ target and
    every pop discipline that returns a member of the worklist, a `run` of the EdmondsKarp / FordFulkerson
    model that returns has computed the maximum s-t flow value of the merged input capacities, and
    `max_flow()` then returns it.  (`ek_ff_terminates` below shows that with the driver's fuel it does
    return.) -/
theorem ek_ff_correct (es : List Edge) (s t : Nat) (hnn : ∀ e, e ∈ es → 0 ≤ e.cap) (hst : s ≠ t)
    (hN : nNodes (es.map toE) ≤ INV) (pop : List Nat → Option (Nat × List Nat)) (hp : PopOK pop)
    (fuel : Nat) (sv' : Solver) (h : (Solver.fromEdgeList es s t).run pop fuel = some sv') :
    ∃ (hs : s < nNodes (es.map toE)) (ht : t < nNodes (es.map toE)),
      IsMaxFlowValue (cF (es.map toE) (nNodes (es.map toE))) ⟨s, hs⟩ ⟨t, ht⟩ sv'.maxFlow ∧
      sv'.maxFlow? = .ok sv'.maxFlow :=
  Flow.ek_ff_correct es s t hnn hst hN pop hp fuel sv' h

/-- the two disciplines the Rust uses: `Vec::pop` (EdmondsKarp's DFS struct) and `pop_front`
    (FordFulkerson's BFS struct) -/
theorem pops_ok : PopOK popBack ∧ PopOK popFront := ⟨popBack_ok, popFront_ok⟩

example : ((Solver.fromEdgeList d1Edges 0 4).runFF 100).isSome = true := by decide +kernel

/-- **merge_cap, second half** (Dinic's constructor): (source,target) pairs are unique, so
    `find_edge_unchecked` is a function, and every edge has its reverse -/
theorem merge_cap_unique_rev (es : List Edge) : Uniq (residualDinic es) ∧ RevClosed (residualDinic es) :=
  residualDinic_uniq_rev es

/-- **dinic_bfs_exact**: on a well-formed residual graph with unique (source,target) pairs in which every
    edge has its reverse, `bfs()` returns `true` iff there is a path of positive residual capacities from
    the source to the target; it touches nothing but `level` / `bfs_count` -/
theorem dinic_bfs_exact (d : Dinic) (hwf : WF d.g) (huq : Uniq d.g) (hrc : RevClosed d.g)
    (hN : d.g.numNodes + 2 < INV) (hsz : d.level.size = d.g.numNodes) (hs : d.source < d.g.numNodes)
    (ht : d.target < d.g.numNodes) (hst : d.source ≠ d.target) (d' : Dinic) (b : Bool)
    (h : d.bfs = some (d', b)) :
    (b = true ↔ ReachG d.g d.source d.target) ∧
    d'.g = d.g ∧ d'.parents = d.parents ∧ d'.source = d.source ∧ d'.target = d.target ∧
    d'.level.size = d.g.numNodes := by
  obtain ⟨a1, a2, a3, a4, a5, _⟩ := bfs_spec d hwf huq hrc hN hsz ht hst d' b h
  exact ⟨bfs_exact d hwf huq hrc hN hsz hs ht hst d' b h, a1, a2, a3, a4, a5⟩

/-- on the final state of the model's run on D1's witness `bfs()` answers `false` -/
example : (((Dinic.fromEdgeList d1Edges 0 4).bind (·.run 100)).bind (·.bfs)).map (·.2) = some false := by
  decide +kernel
example : (residualDinic d1Edges).numNodes = 5 ∧ (residualDinic d1Edges).tgt.size = 12 := by decide +kernel

/-- **dinic_aug_valid_partial**: whenever `dfs` reaches the target through an edge `e : u → t` from a
    node `u` with simple parent chain `lu` (which holds for every node on the stack: `DI.stk`), the path
    `t :: lu` is simple and ends in the source, each of its windows is an existing residual edge, the
    pushed amount `fl` — recomputed along the parent chain — is ≥ 0 and ≤ every CURRENT residual capacity
    of the path, the augmentation is exactly `pushPath` along it, and the flow invariant holds afterwards
    with the flow raised by `fl`.  This is the statement that fails for the pre-fix `dfs`
    (`Tbx.FlowLegacy`, example at the end of this file).  It needs only the parent structure (`DI`); that
    the amount is moreover ≥ 1 needs the stack/unwinding invariant `DP`: `dinic_aug_valid` below -/
theorem dinic_aug_valid_partial {n : Nat} {c : Fin n → Fin n → ℤ} {s t : Fin n} (hst : s ≠ t)
    (hN : n ≤ INV) (d : Dinic) (F : ℤ) (hi : DI c s t d F) (u e : Nat) (lu : List Nat)
    (hcu : PChain n s.val d.parents u lu) (hun : u < n) (hre : InRange d.g u e)
    (hte : gt d.g.tgt e = t.val) (fl : ℤ)
    (hcm : chainMin d.g (st d.parents t.val u) (d.g.numNodes + 1) u (gt d.g.cap e) = some fl)
    (g' : Graph) (ct : Nat)
    (hau : augChain (st d.parents t.val u) fl (d.g.numNodes + 1) t.val u d.g = some (g', ct)) :
    (t.val :: lu).Nodup ∧ (t.val :: lu).getLast? = some s.val ∧ 0 ≤ fl ∧
    (∀ ab, ab ∈ windows (t.val :: lu) → ∃ e', d.g.findEdge ab.2 ab.1 = some e' ∧ fl ≤ gt d.g.cap e') ∧
    pushPath d.g fl (windows (t.val :: lu)) = some g' ∧
    FInv c s t g' (F + fl) ∧ g'.first = d.g.first ∧ g'.tgt = d.g.tgt :=
  aug_valid hst hN d F hi u e lu hcu hun hre hte fl hcm g' ct hau

/-- the model's run on D1's witness goes through this branch twice (paths 0-1-4 with 3, 0-1-2-4 with 7;
    the pre-fix code pushed 10 along the second) -/
example : ((Dinic.fromEdgeList d1Edges 0 4).bind (·.run 100)).map (·.trace) =
    some [(1, [4, 2, 1, 0], 7), (1, [4, 1, 0], 3)] := by decide +kernel

/-- **dinic_aug_valid** (full): under the stack/unwinding invariant `DP` — every stack entry's parent
    chain consists of edges of positive residual capacity, entries are leaves of the parent forest and are
    ordered by ancestry of their parents — an augmentation through `e : u → t` pushes a strictly positive
    amount along a simple path of positive residual edges, and the entries that survive the unwinding to
    the tail of the saturated edge closest to the source satisfy `DP` again in the new graph -/
theorem dinic_aug_valid {n : Nat} {c : Fin n → Fin n → ℤ} {s t : Fin n} (hst : s ≠ t) (hN : n ≤ INV)
    (d : Dinic) (F : ℤ) (hi : DI c s t d F) (hp : DP n s.val d.g d.parents (d.stack.map Prod.fst))
    (u e : Nat) (lu : List Nat) (hcu : PChain n s.val d.parents u lu) (hun : u < n)
    (hposu : ∀ ab, ab ∈ windows lu → PosW d.g ab) (hunot : u ∉ d.stack.map Prod.fst)
    (hre : InRange d.g u e) (hte : gt d.g.tgt e = t.val) (hav : gt d.g.cap e ≠ 0) (fl : ℤ)
    (hcm : chainMin d.g (st d.parents t.val u) (d.g.numNodes + 1) u (gt d.g.cap e) = some fl)
    (g' : Graph) (ct : Nat)
    (hau : augChain (st d.parents t.val u) fl (d.g.numNodes + 1) t.val u d.g = some (g', ct)) :
    0 < fl ∧ (∀ ab, ab ∈ windows (t.val :: lu) → PosW d.g ab) ∧
    pushPath d.g fl (windows (t.val :: lu)) = some g' ∧ FInv c s t g' (F + fl) ∧
    DP n s.val g' (st (st d.parents t.val u) t.val INV)
      ((unwind (st d.parents t.val u) ct d.stack).map Prod.fst) := by
  obtain ⟨h1, h2⟩ := dp_target hst hN d F hi hp u e lu hcu hun hposu hunot hre hte hav fl hcm g' ct hau
  obtain ⟨_, _, _, _, h5, h6, _, _⟩ := aug_valid hst hN d F hi u e lu hcu hun hre hte fl hcm g' ct hau
  refine ⟨h1, ?_, h5, h6, h2⟩
  intro ab hab
  obtain ⟨tlu, rfl⟩ := pchain_head hcu
  simp only [windows, List.mem_cons] at hab
  rcases hab with rfl | hab
  · exact ⟨e, findEdge_eq_of_uniq hi.uq u t.val e (by rw [hi.fi.hn]; exact hun) hre hte,
      by have := hi.fi.nn e; omega⟩
  · exact hposu ab hab

/-- **dinic_aug_positive**: every augmentation performed by a run of the Dinic model pushes ≥ 1
    (`trace` is the model's ghost log of (phase, path, amount)) -/
theorem dinic_aug_positive (es : List Edge) (s t : Nat) (hnn : ∀ e, e ∈ es → 0 ≤ e.cap) (hst : s ≠ t)
    (hN : nNodes (es.map toE) + 2 < INV) (d : Dinic) (hd : Dinic.fromEdgeList es s t = some d)
    (fuel : Nat) (d' : Dinic) (h : d.run fuel = some d') : ∀ tr, tr ∈ d'.trace → 0 < tr.2.2 :=
  Flow.dinic_aug_positive es s t hnn hst hN d hd fuel d' h

/-- the DFS invariant is kept by the whole `while let Some((u, flow)) = stack.pop()` loop, and the
    blocking flow it returns is the amount by which the flow value grew -/
theorem dinic_dfs_invariant {n : Nat} {c : Fin n → Fin n → ℤ} {s t : Fin n} (hst : s ≠ t) (hN : n ≤ INV)
    (d : Dinic) (F : ℤ) (hi : DL c s t d F) (d' : Dinic) (bf : ℤ) (h : d.dfs = some (d', bf)) :
    DL c s t d' (F + bf) ∧ 0 ≤ bf :=
  dfs_spec hst hN d F hi d' bf h

/-- **dinic_correct** (partial correctness): for every non-empty edge list with non-negative capacities
    and every source ≠ target, a `run` (without bound) of the Dinic model that returns has computed the
    maximum s-t flow value of the merged input capacities, and `max_flow()` then returns it.
    (`dinic_terminates` below shows that with the driver's fuel it does return.) -/
theorem dinic_correct (es : List Edge) (s t : Nat) (hnn : ∀ e, e ∈ es → 0 ≤ e.cap) (hst : s ≠ t)
    (hN : nNodes (es.map toE) + 2 < INV) (d : Dinic) (hd : Dinic.fromEdgeList es s t = some d)
    (fuel : Nat) (d' : Dinic) (h : d.run fuel = some d') :
    ∃ (hs : s < nNodes (es.map toE)) (ht : t < nNodes (es.map toE)),
      IsMaxFlowValue (cF (es.map toE) (nNodes (es.map toE))) ⟨s, hs⟩ ⟨t, ht⟩ d'.maxFlow ∧
      d'.maxFlow? = .ok d'.maxFlow :=
  Flow.dinic_correct es s t hnn hst hN d hd fuel d' h

example : ((Dinic.fromEdgeList d1Edges 0 4).bind (·.run 100)).isSome = true := by decide +kernel
example : nNodes (d1Edges.map toE) + 2 < INV := by decide

/-- **dinic_rerun_same_value** (clause "a reused / re-run solver", defect D24): `Dinic.run` is `runAgain` on a
    fresh object, and after a completed run of the Dinic model any number `k` of further `run()` calls on the
    same object - each modelled by `Dinic.runAgain`, which continues from the stored flow counter exactly as the
    repaired Rust does - return (one BFS each, any fuel ≥ 1) and leave the reported value and the residual graph
    unchanged.  With the pre-fix `let mut flow = 0` the second run reports 0; the `rerun` family replays that. -/
theorem dinic_rerun_same_value (es : List Edge) (s t : Nat) (hnn : ∀ e, e ∈ es → 0 ≤ e.cap) (hst : s ≠ t)
    (hN : nNodes (es.map toE) + 2 < INV) (d : Dinic) (hd : Dinic.fromEdgeList es s t = some d)
    (fuel : Nat) (d' : Dinic) (h : d.run fuel = some d') (fuel' k : Nat) :
    d.run fuel = d.runAgain fuel ∧
    ∃ d'', Dinic.runAgainN (fuel' + 1) k d' = some d'' ∧ d''.maxFlow? = d'.maxFlow? ∧ d''.g = d'.g ∧
      d''.maxFlow? = .ok d'.maxFlow := by
  have h0 : d.maxFlow = 0 := by
    unfold Dinic.fromEdgeList at hd
    split at hd
    · cases hd
    · simp only [Option.some.injEq] at hd; subst hd; rfl
  refine ⟨run_eq_runAgain d fuel h0, ?_⟩
  obtain ⟨hs, ht, hq⟩ := run_quiet es s t hnn hst hN d hd fuel d' h
  obtain ⟨d'', h2, m2, g2, q2⟩ := runAgainN_fixed (fun e => hst (Fin.mk.inj e)) hN fuel' k d' hq
  refine ⟨d'', h2, ?_, g2, ?_⟩
  · unfold Dinic.maxFlow?; rw [m2, q2.fin, hq.fin]
  · unfold Dinic.maxFlow? maxFlowOut; rw [m2, q2.fin]; rfl

example : (((Dinic.fromEdgeList d1Edges 0 4).bind (·.run 100)).bind (Dinic.runAgainN 1 3)).map (·.maxFlow)
    = some 10 := by decide +kernel

/-- **ek_ff_rerun_same_value**: the EdmondsKarp / FordFulkerson models continue from their stored flow counter,
    so a re-run is `Solver.run` itself; after a completed run, `k` further runs of the same object return and
    report the same value on an unchanged residual graph -/
theorem ek_ff_rerun_same_value (es : List Edge) (s t : Nat) (hnn : ∀ e, e ∈ es → 0 ≤ e.cap) (hst : s ≠ t)
    (hN : nNodes (es.map toE) ≤ INV) (pop : List Nat → Option (Nat × List Nat)) (hp : PopOK pop)
    (hl : PopLen pop) (fuel : Nat) (sv' : Solver) (h : (Solver.fromEdgeList es s t).run pop fuel = some sv')
    (fuel' k : Nat) :
    ∃ sv'', Solver.runN pop (fuel' + 1) k sv' = some sv'' ∧ sv''.maxFlow? = sv'.maxFlow? ∧ sv''.g = sv'.g := by
  obtain ⟨s2, h2, m2, g2, f2, f1⟩ := Flow.ek_ff_rerun es s t hnn hst hN pop hp hl fuel sv' h fuel' k
  refine ⟨s2, h2, ?_, g2⟩
  unfold Solver.maxFlow?; rw [m2, f2, f1]

example : (((Solver.fromEdgeList d1Edges 0 4).runEK 100).bind (Solver.runN popBack 1 3)).map (·.maxFlow)
    = some 10 := by decide +kernel

/-- **dinic_history_maxflow** (every history of runs on one object, aborts included): let a Dinic model object be
    built from any admissible edge list and then driven through ANY sequence of `run()` /
    `run_with_upper_bound(b)` calls - `bs` lists the value the consulted bound has at each call, so a call may be
    aborted, resumed later under a larger bound, repeated after completion, in any order
    (`InertialFlow.runBoundedAgain` is the repaired loop that continues from the stored counter; the first call
    on the fresh object is `runBounded`).  Whenever `max_flow()` then answers `Ok x`, `x` is the maximum s-t flow
    value.  (That the call sequence returns is `dinic_terminates` for the first run; for later runs the fuel is a
    parameter here.)  A counter that loses the phase pushed before an abort (seeded change C02-r4m2) or restarts
    at 0 (D24) falsifies the invariant `Carried` this rests on. -/
theorem dinic_history_maxflow (es : List Edge) (s t : Nat) (hnn : ∀ e, e ∈ es → 0 ≤ e.cap) (hst : s ≠ t)
    (hs : s < nNodes (es.map toE)) (ht : t < nNodes (es.map toE)) (hN : nNodes (es.map toE) + 2 < INV)
    (d : Dinic) (hd : Dinic.fromEdgeList es s t = some d) (fuel : Nat) (bs : List Int) (d' : Dinic)
    (h : InertialFlow.runsBounded fuel bs d = some d') (x : Int) (hx : d'.maxFlow? = .ok x) :
    IsMaxFlowValue (cF (es.map toE) (nNodes (es.map toE))) ⟨s, hs⟩ ⟨t, ht⟩ x := by
  obtain ⟨hc, hf⟩ := InertialFlow.fresh_carried es s t hnn hs ht d hd
  obtain ⟨_, hdone⟩ := InertialFlow.runsBounded_spec (fun e => hst (Fin.mk.inj e)) hN fuel bs d d' hc
    (fun hft => by rw [hf] at hft; cases hft) h
  unfold Dinic.maxFlow? maxFlowOut at hx
  cases hfin : d'.finished with
  | false => rw [hfin] at hx; cases hx
  | true =>
    rw [hfin] at hx
    simp only [Bool.not_true, Bool.false_eq_true, if_false, Out.ok.injEq] at hx
    rw [← hx]
    exact (hdone hfin).1

/-- **dinic_rerun_history_maxflow**: the same for the very function the driver runs on the `bounded-rerun` family
    (`InertialFlow.rerunHistory`: first a bounded run, then `k` further runs under the stored bound / a new bound
    i32::MAX alternating): whenever the model object answers `Ok x` afterwards, `x` is the maximum flow -/
theorem dinic_rerun_history_maxflow (es : List Edge) (s t : Nat) (hnn : ∀ e, e ∈ es → 0 ≤ e.cap) (hst : s ≠ t)
    (hs : s < nNodes (es.map toE)) (ht : t < nNodes (es.map toE)) (hN : nNodes (es.map toE) + 2 < INV)
    (d : Dinic) (hd : Dinic.fromEdgeList es s t = some d) (fuel : Nat) (B : Int) (d1 : Dinic) (b1 : Int)
    (h1 : InertialFlow.runBoundedAgain d fuel B = some (d1, b1)) (k i : Nat) (r : Dinic × Int)
    (h2 : InertialFlow.rerunHistory fuel k i d1 b1 = some r) (x : Int) (hx : r.1.maxFlow? = .ok x) :
    IsMaxFlowValue (cF (es.map toE) (nNodes (es.map toE))) ⟨s, hs⟩ ⟨t, ht⟩ x := by
  obtain ⟨bs, _, hbs⟩ := InertialFlow.rerunHistory_runsBounded fuel k i d1 b1 r h2
  refine dinic_history_maxflow es s t hnn hst hs ht hN d hd fuel (B :: bs) r.1 ?_ x hx
  simp only [InertialFlow.runsBounded, h1]
  exact hbs

/-- on a fresh object the bounded run used elsewhere (`InertialFlow.runBounded`: C03, C04, the driver's first
    bounded run) is the general `runBoundedAgain` -/
theorem run_bounded_is_history_step (d : Dinic) (fuel : Nat) (bound : Int) (h0 : d.maxFlow = 0) :
    InertialFlow.runBounded d fuel bound = InertialFlow.runBoundedAgain d fuel bound :=
  InertialFlow.runBounded_eq_again d fuel bound h0

/-- non-vacuity: D1's witness aborted at bound 2, run again under the same bound, then completed under i32::MAX -/
example : ((Dinic.fromEdgeList d1Edges 0 4).bind (InertialFlow.runsBounded 100 [2, 2, I32MAX])).map
    (fun d => (d.finished, d.maxFlow)) = some (true, 10) := by decide +kernel
example : ((Dinic.fromEdgeList d1Edges 0 4).bind (InertialFlow.runsBounded 100 [2])).map
    (fun d => d.finished) = some false := by decide +kernel

/-- **solvers_agree on the models**: the three models return the same value whenever they return -/
theorem models_agree (es : List Edge) (s t : Nat) (hnn : ∀ e, e ∈ es → 0 ≤ e.cap) (hst : s ≠ t)
    (hN : nNodes (es.map toE) + 2 < INV) (d d' : Dinic) (hd : Dinic.fromEdgeList es s t = some d)
    (f1 f2 f3 : Nat) (hr : d.run f1 = some d') (ek ff : Solver)
    (hek : (Solver.fromEdgeList es s t).runEK f2 = some ek)
    (hff : (Solver.fromEdgeList es s t).runFF f3 = some ff) :
    d'.maxFlow = ek.maxFlow ∧ ek.maxFlow = ff.maxFlow := by
  obtain ⟨_, _, m1, _⟩ := Flow.dinic_correct es s t hnn hst hN d hd f1 d' hr
  obtain ⟨_, _, m2, _⟩ := Flow.ek_ff_correct es s t hnn hst (by omega) popBack popBack_ok f2 ek hek
  obtain ⟨_, _, m3, _⟩ := Flow.ek_ff_correct es s t hnn hst (by omega) popFront popFront_ok f3 ff hff
  exact ⟨maxFlowValue_unique m1 m2, maxFlowValue_unique m2 m3⟩

/-! ### termination and total correctness -/

/-- **ek_ff_terminates**: with the fuel the driver passes (2 + sum of all capacities) the run of the
    EdmondsKarp (`popBack`) / FordFulkerson (`popFront`) model returns.  Each node is marked at most once
    per search, a parent chain is simple (pigeonhole), every augmentation raises the value by ≥ 1 and the
    value is bounded by the capacity of the cut ({s}, rest) ≤ Σ capacities (`weak_duality`) -/
theorem ek_ff_terminates (es : List Edge) (s t : Nat) (hnn : ∀ e, e ∈ es → 0 ≤ e.cap) (hst : s ≠ t)
    (hs : s < nNodes (es.map toE)) (ht : t < nNodes (es.map toE)) (hN : nNodes (es.map toE) ≤ INV)
    (pop : List Nat → Option (Nat × List Nat)) (hp : PopOK pop) (hl : PopLen pop) :
    ∃ sv', (Solver.fromEdgeList es s t).run pop ((es.map Edge.cap).sum.toNat + 2) = some sv' :=
  ek_ff_run_total es s t hnn hst hs ht hN pop hp hl

theorem pops_len : PopLen popBack ∧ PopLen popFront := ⟨popBack_len, popFront_len⟩

/-- **dinic_terminates**: with the same fuel the run of the Dinic model returns: `bfs` labels each node
    at most once, `dfs` marks each node at most once per phase, a phase that starts after `bfs() = true`
    pushes ≥ 1 (the DFS is complete on the admissible edges until its first augmentation, and
    `dinic_aug_positive`), and the value is bounded by Σ capacities -/
theorem dinic_terminates (es : List Edge) (s t : Nat) (hnn : ∀ e, e ∈ es → 0 ≤ e.cap) (hst : s ≠ t)
    (hs : s < nNodes (es.map toE)) (ht : t < nNodes (es.map toE)) (hN : nNodes (es.map toE) + 2 < INV)
    (d : Dinic) (hd : Dinic.fromEdgeList es s t = some d) :
    ∃ d', d.run ((es.map Edge.cap).sum.toNat + 2) = some d' :=
  dinic_run_total es s t hnn hst hs ht hN d hd

/-- **headline, total correctness for all three models**: for every edge list with non-negative
    capacities and every pair of distinct nodes s, t, each of the three models — run with the fuel the
    driver passes — returns, `max_flow()` is `Ok x`, x is the same for the three, and x is the maximum s-t
    flow value of the merged input capacities (= the capacity of a minimum cut, `maxflow_certificate`) -/
theorem solvers_return_maxflow (es : List Edge) (s t : Nat) (hnn : ∀ e, e ∈ es → 0 ≤ e.cap) (hst : s ≠ t)
    (hs : s < nNodes (es.map toE)) (ht : t < nNodes (es.map toE)) (hN : nNodes (es.map toE) + 2 < INV) :
    ∃ (x : ℤ) (d d' : Dinic) (ek ff : Solver),
      IsMaxFlowValue (cF (es.map toE) (nNodes (es.map toE))) ⟨s, hs⟩ ⟨t, ht⟩ x ∧
      Dinic.fromEdgeList es s t = some d ∧ d.run ((es.map Edge.cap).sum.toNat + 2) = some d' ∧
      d'.maxFlow? = .ok x ∧
      (Solver.fromEdgeList es s t).runEK ((es.map Edge.cap).sum.toNat + 2) = some ek ∧ ek.maxFlow? = .ok x ∧
      (Solver.fromEdgeList es s t).runFF ((es.map Edge.cap).sum.toNat + 2) = some ff ∧ ff.maxFlow? = .ok x := by
  have hne : es.isEmpty = false := by
    cases es with
    | nil => simp [nNodes, FlowSpec.maxId] at hs ht; omega
    | cons a l => rfl
  have hd : Dinic.fromEdgeList es s t = some
      { g := residualDinic es, maxFlow := 0, finished := false, level := #[], parents := #[],
        stack := [], dfsCount := 0, bfsCount := 0, source := s, target := t } := by
    unfold Dinic.fromEdgeList; rw [hne]; rfl
  obtain ⟨d', h1, m1, o1⟩ := dinic_total es s t hnn hst hs ht hN _ hd
  obtain ⟨ek, h2, m2, o2⟩ := ek_ff_total es s t hnn hst hs ht (by omega) popBack popBack_ok popBack_len
  obtain ⟨ff, h3, m3, o3⟩ := ek_ff_total es s t hnn hst hs ht (by omega) popFront popFront_ok popFront_len
  refine ⟨d'.maxFlow, _, d', ek, ff, m1, hd, h1, o1, h2, ?_, h3, ?_⟩
  · rw [o2, maxFlowValue_unique m2 m1]
  · rw [o3, maxFlowValue_unique m3 m1]

/-- **the generic constructor**: `from_generic_edge_list` with ANY capacity closure `f` whose values on
    the given payloads are non-negative yields solvers that return the maximum flow of the capacities
    `f(payload)` — in particular edges with payload ≤ 0 count with capacity `f(payload)` -/
theorem generic_constructor_maxflow (f : Int → Int) (es : List Edge) (s t : Nat)
    (hnn : ∀ e, e ∈ es → 0 ≤ f e.cap) (hst : s ≠ t)
    (hs : s < nNodes ((mapCaps f es).map toE)) (ht : t < nNodes ((mapCaps f es).map toE))
    (hN : nNodes ((mapCaps f es).map toE) + 2 < INV) :
    ∃ (x : ℤ) (d d' : Dinic) (ek ff : Solver),
      IsMaxFlowValue (cF ((mapCaps f es).map toE) (nNodes ((mapCaps f es).map toE))) ⟨s, hs⟩ ⟨t, ht⟩ x ∧
      Dinic.fromGenericEdgeList f es s t = some d ∧
      d.run (((mapCaps f es).map Edge.cap).sum.toNat + 2) = some d' ∧ d'.maxFlow? = .ok x ∧
      (Solver.fromGenericEdgeList f es s t).runEK (((mapCaps f es).map Edge.cap).sum.toNat + 2) = some ek ∧
      ek.maxFlow? = .ok x ∧
      (Solver.fromGenericEdgeList f es s t).runFF (((mapCaps f es).map Edge.cap).sum.toNat + 2) = some ff ∧
      ff.maxFlow? = .ok x :=
  solvers_return_maxflow (mapCaps f es) s t
    (fun e he => by
      obtain ⟨x, hx, rfl⟩ := List.mem_map.mp he
      exact hnn x hx) hst hs ht hN

/-- the closures of the harness on payloads that include 0 and negatives -/
example : (mapCaps (genCap 2) [⟨0,1,-7⟩, ⟨1,2,-2⟩, ⟨0,2,0⟩]).map Edge.cap = [7, 2, 0] ∧
    (mapCaps (genCap 0) [⟨0,1,0⟩, ⟨1,2,-3⟩]).map Edge.cap = [1, 1] ∧
    (mapCaps (genCap 3) [⟨0,1,-5⟩, ⟨1,2,0⟩, ⟨0,2,-3⟩]).map Edge.cap = [3, 3, 5] := by decide

example : nNodes (d1Edges.map toE) = 5 ∧ (d1Edges.map Edge.cap).sum.toNat + 2 = 55 := by decide

/-! ### defect D1 (fixed in /repo): the pre-fix `dfs` violates the property on the witness -/

/-- the legacy model reports 13 on D1's witness, whose maximum flow is 10 -/
example : ((Dinic.fromEdgeList d1Edges 0 4).bind (FlowLegacy.run · 100)).map (·.maxFlow) = some 13 := by
  decide +kernel

end Tbx.Props.C01
