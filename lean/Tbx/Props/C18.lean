import Tbx.Spec.SlotQueue
/-
C18 — merging, selection and prefix-sum structures match their naive definitions.
-/
namespace Tbx.Props.C18

/-- the executable minimum test used by the loser-tree judge is exactly `IsMinSlot` -/
theorem judge_isMinSlot_sound (q : SlotQueue.Q) (s : Nat) (x : Int) :
    SlotQueue.isMinSlotB q s x = true ↔ SlotQueue.IsMinSlot q s x := SlotQueue.isMinSlotB_iff q s x

end Tbx.Props.C18
