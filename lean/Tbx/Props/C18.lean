import Tbx.Spec.SlotQueue
import Tbx.Proofs.Sorting
import Tbx.Proofs.SortedInsert
import Tbx.Proofs.NextFit
import Tbx.Proofs.KWayMerge
import Tbx.Proofs.LoserTreeInit
import Tbx.Proofs.BagTree
import Tbx.Proofs.TopK
import Tbx.Proofs.FenwickUpdate
import Tbx.Proofs.FenwickSelect
import Tbx.Proofs.FenwickLsb
import Tbx.Model.LegacyC18
/-
C18 — merging, selection and prefix-sum structures match their naive definitions.

Property theorems only (helper lemmas live in Tbx/Proofs).  Registered in Tbx/Audit/C18.lean.
Models: Tbx/Model/{LoserTree,KWayMerge,TopK,Fenwick,SortedInsert,NextFit}.lean;
naive definitions: Tbx/Spec/{Sorting,MergeTree,SlotQueue,PrefixSum,NextFit}.lean.
-/
namespace Tbx.Props.C18
open Tbx Tbx.Sorting

/-! ### judge soundness: the executable tests the driver applies to the real output mean the Spec -/

/-- "the output equals the naive sort of the input" ⇔ sorted and the same multiset (merge, top-k, list judge) -/
theorem judge_sorted_union_sound (out xs : List Int) : out = isort xs ↔ Sorted out ∧ out.Perm xs :=
  eq_isort_iff out xs

theorem judge_sortedB_sound (l : List Int) : sortedB l = true ↔ Sorted l := sortedB_iff l

/-- the minimum test of the loser-tree judge is exactly `IsMinSlot` -/
theorem judge_isMinSlot_sound (q : SlotQueue.Q) (s : Nat) (x : Int) :
    SlotQueue.isMinSlotB q s x = true ↔ SlotQueue.IsMinSlot q s x := SlotQueue.isMinSlotB_iff q s x

/-- the next-fit checker decides exactly the laws -/
theorem judge_nextFit_sound (items : List Nat) (cap : Nat) (res : Option (Nat × List Nat)) :
    NextFitSpec.check items cap res = true ↔ NextFitSpec.Laws items cap res := NextFit.check_iff items cap res

/-- the select checker decides exactly `IsSelect` -/
theorem judge_select_sound (v : List Int) (x : Int) (r : Option Nat) :
    PrefixSum.isSelectB v x r = true ↔ PrefixSum.IsSelect v x r := PrefixSum.isSelectB_iff v x r

/-! ### next-fit bin packing (P0) -/

/-- for EVERY input the model's result satisfies the next-fit laws: `Err` iff the capacity is 0 or an
    item is larger than a bin; assignments start at 0 and rise by steps ≤ 1; bin count = last bin + 1;
    no bin is loaded beyond the capacity; a bin is opened at an item only if the item does not fit the
    rest of the previous bin -/
theorem next_fit_laws (items : List Nat) (cap : Nat) :
    NextFitSpec.Laws items cap (NextFit.nextFit items cap) := NextFit.nextFit_laws items cap

example : NextFit.nextFit [2, 5, 4, 7, 1, 3, 8] 11 = some (3, [0, 0, 0, 1, 1, 1, 2]) := by decide
example : NextFit.nextFit [10, 10] 10 = some (2, [0, 1]) ∧ NextFit.nextFit [3] 0 = none ∧
    NextFit.nextFit [1, 11] 10 = none := by decide

/-! ### sorted insertion into the singly linked list (P0, after D17) -/

/-- `insert_sorted` keeps ascending order and the result holds exactly the old items plus the element -/
theorem insert_sorted_ok (l : SList.SL) (e : Int) (h : Sorted l) :
    Sorted (SList.insertSorted l e) ∧ (SList.insertSorted l e).Perm (e :: l) :=
  ⟨SList.insertSorted_sorted l e h, SList.insertSorted_perm l e⟩

/-- `is_sorted` decides ascending order -/
theorem is_sorted_iff (l : SList.SL) : SList.isSorted l = true ↔ Sorted l := SList.isSorted_iff l

/-- non-vacuity, and the D17 witnesses: insertion into the empty list and in front of the head -/
example : Sorted [1, 5, 8] ∧ SList.insertSorted [1, 5, 8] 3 = [1, 3, 5, 8] ∧
    SList.insertSorted [] 5 = [5] ∧ SList.insertSorted [5] 1 = [1, 5] := by
  refine ⟨by simp [Sorted], by decide, by decide, by decide⟩

/-- the code before the D17 fix violates the statement on the recorded witnesses -/
example : LegacyC18.insertSorted [] 5 = [] ∧ LegacyC18.insertSorted [5] 1 = [5, 1] ∧
    ¬ Sorted (LegacyC18.insertSorted [5] 1) := by
  refine ⟨by decide, by decide, ?_⟩
  rw [← sortedB_iff]; decide

/-! ### k-way merge over any MergeTree (P1) -/

/-- for sorted runs, the iterator over ANY tree satisfying `TreeSpec` (started empty, with a slot per run)
    finishes without panic within the model's fuel and yields the sorted multiset union of the runs -/
theorem merge_sorted {σ : Type} {T : KWay.MTree σ} {cap : Nat} (S : KWay.TreeSpec T cap)
    (runs : List (List Int)) (s0 : σ) (h0 : S.ok s0) (hempty : ∀ j, S.slot s0 j = none)
    (hk : runs.length ≤ cap) (hs : ∀ r ∈ runs, Sorted r) :
    ∃ out, KWay.merge T runs s0 = .done out ∧ Sorted out ∧ out.Perm runs.flatten :=
  KWay.merge_spec S runs s0 h0 hempty hk hs

/-- the loser tree IS such a tree (for every capacity): so merging through `LoserTree::with_capacity(cap)`
    with at most `cap` sorted runs yields exactly the naive sorted union -/
theorem merge_sorted_loser (cap : Nat) (runs : List (List Int)) (hk : runs.length ≤ cap)
    (hs : ∀ r ∈ runs, Sorted r) :
    KWay.merge KWay.loserTree runs (LoserTree.withCapacity cap) = .done (isort runs.flatten) := by
  obtain ⟨hI, hc, hn⟩ := LoserTree.withCapacity_inv cap
  obtain ⟨out, h1, h2, h3⟩ := KWay.merge_spec (KWay.loserSpec cap) runs (LoserTree.withCapacity cap)
    ⟨hI, hc⟩ (fun j => by
      show (gt (LoserTree.withCapacity cap).leaves j).map (·.item) = none
      rw [hn j]; rfl) hk hs
  rw [h1, (eq_isort_iff out _).mpr ⟨h2, h3⟩]

/-- the stand-in for `BinaryHeap` used by the driver's model (a bag whose pop removes a minimal entry)
    also satisfies `TreeSpec`: a second, structurally different instance of the specification -/
theorem merge_sorted_bag (runs : List (List Int)) (hs : ∀ r ∈ runs, Sorted r) :
    KWay.merge KWay.bag runs [] = .done (isort runs.flatten) := by
  obtain ⟨out, h1, h2, h3⟩ := KWay.merge_spec (KWay.bagSpec runs.length) runs []
    (by show KWay.bagOk []; exact List.Pairwise.nil) (fun _ => rfl) (Nat.le_refl _) hs
  rw [h1, (eq_isort_iff out _).mpr ⟨h2, h3⟩]

/-- non-vacuity: a concrete instance (3 runs incl. an empty one, duplicates, capacity 3 → 4 leaves) -/
example : KWay.merge KWay.loserTree [[1, 4, 4], [], [2, 4]] (LoserTree.withCapacity 3) = .done [1, 2, 4, 4, 4] := by
  decide

/-! ### the loser tree as a slot-indexed queue (P1, after D16) -/

/-- every capacity (0, 1, powers of two and others): the fresh tree satisfies the invariant
    (`Inv.good`: every internal node holds a leaf of its own subtree that wins it), is empty and has at
    least `capacity` slots -/
theorem loser_tree_init (c : Nat) :
    LoserTree.Inv (LoserTree.withCapacity c) ∧ c ≤ (LoserTree.withCapacity c).leaves.size ∧
    ∀ j, gt (LoserTree.withCapacity c).leaves j = none := LoserTree.withCapacity_inv c

/-- push into a free slot keeps the invariant, fills exactly that slot and counts it -/
theorem loser_tree_push (t : LoserTree.Tree) (e : LoserTree.Entry) (hI : LoserTree.Inv t)
    (hi : e.index < t.leaves.size) (hfree : gt t.leaves e.index = none) :
    ∃ t', LoserTree.push t e = some t' ∧ LoserTree.Inv t' ∧
      t'.leaves = st t.leaves e.index (some e) ∧ LoserTree.len t' = LoserTree.len t + 1 :=
  LoserTree.push_spec t e hI hi hfree

/-- pop never goes out of bounds; it returns `None` iff no entry is live, and otherwise a live entry
    whose item is minimal among all live entries, freeing exactly its slot; the invariant is kept -/
theorem loser_tree_pop (t : LoserTree.Tree) (hI : LoserTree.Inv t) :
    ∃ r t', LoserTree.pop t = some (r, t') ∧ LoserTree.Inv t' ∧
      match r with
      | none => (∀ j, gt t.leaves j = none) ∧ t' = t
      | some e => gt t.leaves e.index = some e ∧ (∀ j e', gt t.leaves j = some e' → e.item ≤ e'.item) ∧
                  t'.leaves = st t.leaves e.index none ∧ t'.size + 1 = t.size :=
  LoserTree.pop_spec t hI

/-- clear empties every slot, sets the length to 0 and keeps the invariant -/
theorem loser_tree_clear (t : LoserTree.Tree) (hI : LoserTree.Inv t) :
    LoserTree.Inv (LoserTree.clear t) ∧ (∀ j, gt (LoserTree.clear t).leaves j = none) ∧
    LoserTree.len (LoserTree.clear t) = 0 ∧ (LoserTree.clear t).leaves.size = t.leaves.size :=
  LoserTree.clear_spec t hI

/-- the length is the number of live entries -/
theorem loser_tree_len (t : LoserTree.Tree) (hI : LoserTree.Inv t) :
    LoserTree.len t = LoserTree.live t.leaves ∧ (LoserTree.isEmpty t = true ↔ LoserTree.live t.leaves = 0) := by
  refine ⟨hI.size, ?_⟩
  simp [LoserTree.isEmpty, hI.size]

/-- the D16 witness on the fixed model: capacity 8, slot 0 = 1, slot 4 = 5 pops 1, then 5, then nothing;
    capacity 1 works -/
example :
    (do let t ← LoserTree.push (LoserTree.withCapacity 8) ⟨1, 0⟩
        let t ← LoserTree.push t ⟨5, 4⟩
        let (a, t) ← LoserTree.pop t
        let (b, t) ← LoserTree.pop t
        let (c, _) ← LoserTree.pop t
        pure (a, b, c)) = some (some ⟨1, 0⟩, some ⟨5, 4⟩, none) := by decide
example :
    (do let t ← LoserTree.push (LoserTree.withCapacity 1) ⟨7, 0⟩
        let (a, t) ← LoserTree.pop t
        let (b, _) ← LoserTree.pop t
        pure (a, b)) = some (some ⟨7, 0⟩, none) := by decide

/-- the initialisation before the D16 fix (all internal nodes = leaf 0) hides slot 4 behind slot 0:
    the second pop returns `None` although an entry is live, contradicting `loser_tree_pop` -/
example :
    (do let t ← LoserTree.push (LegacyC18.loserWithCapacity 8) ⟨1, 0⟩
        let t ← LoserTree.push t ⟨5, 4⟩
        let (a, t) ← LoserTree.pop t
        let (b, t) ← LoserTree.pop t
        pure (a, b, LoserTree.len t)) = some (some ⟨1, 0⟩, none, 1) := by decide

/-! ### top-k (P1) -/

/-- for every `select_nth_unstable` / `sort_unstable` satisfying the std contracts, every input and
    every k that is a usize (including 0, k > len, k ≥ 2^63 where 2k saturates, and k = usize::MAX):
    top_k = the k smallest items in ascending order -/
theorem topk_eq (S : TopK.Std) (hsel : SelectContract S.selectNth) (hsort : SortContract S.sortUnstable)
    (xs : List Int) (k : Nat) (hk : k ≤ TopK.usizeMax) : TopK.topK S xs k = (isort xs).take k :=
  TopK.topK_eq S hsel hsort xs k hk

/-- the saturated limit is usize::MAX from k = 2^63 on, and never below k -/
example : TopK.limitOf (2 ^ 63) = 2 ^ 64 - 1 ∧ TopK.limitOf (2 ^ 64 - 1) = 2 ^ 64 - 1 ∧ TopK.limitOf 3 = 6 := by
  decide

/-- non-vacuity: insertion sort satisfies the sort contract, and a selection that sorts satisfies the
    selection contract -/
theorem contracts_inhabited : SortContract isort ∧ SelectContract (fun l _ => isort l) := by
  refine ⟨isort_sortContract, ?_⟩
  intro l i _
  refine ⟨isort_perm l, ?_⟩
  intro m hm
  have hs : Sorted (isort l) := isort_sorted l
  constructor
  · intro j x hj hx
    exact List.pairwise_iff_getElem.mp hs j i (by
      have := (List.getElem?_eq_some_iff.mp hx).1; exact this) (by
      have := (List.getElem?_eq_some_iff.mp hm).1; exact this) hj
      |> (fun h => by
        rw [(List.getElem?_eq_some_iff.mp hx).2, (List.getElem?_eq_some_iff.mp hm).2] at h; exact h)
  · intro j x hj hx
    exact List.pairwise_iff_getElem.mp hs i j (by
      have := (List.getElem?_eq_some_iff.mp hm).1; exact this) (by
      have := (List.getElem?_eq_some_iff.mp hx).1; exact this) hj
      |> (fun h => by
        rw [(List.getElem?_eq_some_iff.mp hx).2, (List.getElem?_eq_some_iff.mp hm).2] at h; exact h)

example : TopK.topK ⟨fun l _ => isort l, isort⟩ [8, 12, 5, 1, 20, 7, 2, 6, 3, 4, 9, 21, 26, 27, 8] 3 = [1, 2, 3] := by
  decide

/-! ### Fenwick tree (P1; `range` P2) -/

/-- `from_values` establishes  tree[p] = Σ values (p − lsb p, p]  -/
theorem fw_inv_from_values (v : List Int) : Fenwick.FwInv (Fenwick.fromValues v).tree v :=
  Fenwick.fromValues_spec v

/-- `with_size(n)` is the tree of n zeros -/
theorem fw_inv_with_size (n : Nat) : Fenwick.FwInv (Fenwick.withSize n).tree (List.replicate n 0) :=
  Fenwick.withSize_spec n

/-- `update` answers `Err` iff the index is out of range and otherwise preserves the invariant, for
    the plain array with the value added at the index -/
theorem fw_inv_update (t : Array Int) (v : List Int) (hI : Fenwick.FwInv t v) (index : Nat) (x : Int) :
    (index ≥ v.length → Fenwick.update ⟨t⟩ index x = none) ∧
    (index < v.length → ∃ t', Fenwick.update ⟨t⟩ index x = some ⟨t'⟩ ∧
        Fenwick.FwInv t' (PrefixSum.update v index x)) := Fenwick.update_spec t v hI index x

/-- `rank` = prefix sum of the plain array (`None` iff out of range) -/
theorem fw_rank (t : Array Int) (v : List Int) (hI : Fenwick.FwInv t v) (index : Nat) :
    Fenwick.rank ⟨t⟩ index = PrefixSum.rank v index := Fenwick.rank_spec t v hI index

/-- `slow_range(i, j)` = v[i+1] + … + v[j] -/
theorem fw_slow_range (t : Array Int) (v : List Int) (hI : Fenwick.FwInv t v) (i j : Nat)
    (hij : i ≤ j) (hj : j < v.length) :
    Fenwick.slowRange ⟨t⟩ i j = some (PrefixSum.range v i j) := Fenwick.slowRange_spec t v hI i j hij hj

/-- `range(i, j)` (the two-pointer walk) = v[i+1] + … + v[j] -/
theorem fw_range (t : Array Int) (v : List Int) (hI : Fenwick.FwInv t v) (i j : Nat)
    (hij : i < j) (hj : j < v.length) :
    Fenwick.range ⟨t⟩ i j = some (PrefixSum.range v i j) := Fenwick.range_spec t v hI i j hij hj

/-- `select(x)` on an array of non-negative entries returns the largest index whose prefix sum is ≤ x,
    `None` if there is none (P2) -/
theorem fw_select (t : Array Int) (v : List Int) (hI : Fenwick.FwInv t v) (hv : ∀ y ∈ v, 0 ≤ y) (x : Int) :
    PrefixSum.IsSelect v x (Fenwick.select ⟨t⟩ x) := Fenwick.select_spec t v hI hv x

/-- the bit trick `n & n.wrapping_neg()` of the Rust (64-bit usize) is the `lsb` of the model -/
theorem fw_lsb_bits (n : Nat) (h : n < 2 ^ 64) : Fenwick.lsbBits n = Fenwick.lsb n := Fenwick.lsbBits_eq n h

example : PrefixSum.IsSelect [19, 3, 27, 28] 50 (Fenwick.select (Fenwick.fromValues [19, 3, 27, 28]) 50) :=
  fw_select _ _ (fw_inv_from_values _) (by decide) 50
example : Fenwick.lsbBits 12 = 4 ∧ Fenwick.lsbBits 7 = 1 ∧ Fenwick.lsbBits 0 = 0 := by decide

/-- non-vacuity: the invariant is satisfiable (by `from_values`), and then the queries are the plain sums -/
example : Fenwick.rank (Fenwick.fromValues [19, 3, 27, 28, 263]) 3 = some 77 := by
  rw [fw_rank _ _ (fw_inv_from_values _)]; decide
example : Fenwick.range (Fenwick.fromValues [19, 3, 27, 28, 263]) 1 4 = some (27 + 28 + 263) := by
  rw [fw_range _ _ (fw_inv_from_values _) 1 4 (by decide) (by decide)]; decide

end Tbx.Props.C18
