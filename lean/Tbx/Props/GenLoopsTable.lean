import Tbx.Gen.Loops
import Tbx.Model.Arr
import Tbx.Model.HashTable
import Tbx.Props.C13
/-
Tie between the loop-bearing definition regenerated from /repo on every run (Tbx/Gen/Loops.lean) and the
hand-written model the C13 theorems speak about:
  * `contains_key` (src/medium_size_hash_table.rs) — `Tbx.Gen.Loops.tableContains` vs `Tbx.HashTable.containsKey`
The generated function sees the cell array as two columns (stamps, keys); `tm`/`ks` are those columns of a
model table.  The real table has exactly 65536 cells and 16-bit hash values, which are the hypotheses.
-/
namespace Tbx.Props.GenLoopsTable
open Tbx Tbx.HashTable

theorem aget_eq_gt {α : Type} [Inhabited α] (a : Array α) (i : Nat) : Tbx.Gen.aget a i = Tbx.gt a i := rfl
theorem aset_eq_st {α : Type} (a : Array α) (i : Nat) (x : α) : Tbx.Gen.aset a i x = Tbx.st a i x := rfl

/-- the column of stamps -/
def tm (t : Table) : Array Nat := t.cells.map (·.time)
/-- the column of keys -/
def ks (t : Table) : Array Nat := t.cells.map (·.key)

/-- reading a column at an in-bounds position is reading the cell (out of bounds the two differ for the stamp
    column: the default cell has stamp u32::MAX, the default of the column is 0) -/
theorem aget_map_lt (cells : Array Cell) (f : Cell → Nat) (i : Nat) (h : i < cells.size) :
    Tbx.Gen.aget (cells.map f) i = f (gt cells i) := by
  simp [Tbx.Gen.aget, gt, Array.getD_eq_getD_getElem?, h]

/-- the probing loop of the generated text, with the fuel as a parameter (state = position) -/
def genProbe (fuel : Nat) (self_time self_keys : Array Nat) (self_stamp key home : Nat) : Nat :=
  Tbx.Gen.whileFuel fuel
      (fun position_2 => (((Tbx.Gen.aget self_time position_2) == self_stamp) && ((Tbx.Gen.aget self_keys position_2) != key)))
      (fun position_2 =>
      let position_3 : Nat := ((position_2 + (1 : Nat)) % (65536 : Nat))
      position_3)
      home

/-- the generated `contains_key`, written with `genProbe` -/
theorem tableContains_unfold (self_time self_keys : Array Nat) (self_stamp key home : Nat) :
    Tbx.Gen.Loops.tableContains self_time self_keys self_stamp key home =
      (if ((Tbx.Gen.aget self_time (genProbe 65536 self_time self_keys self_stamp key home)) == self_stamp) then
        true
      else
        false) := by
  unfold Tbx.Gen.Loops.tableContains
  rfl

/-- any fuel, any in-range start: where the model's probe stops, the generated loop stops, and that position is
    in range -/
theorem genProbe_eq_model_aux (cells : Array Cell) (hsz : cells.size = 65536) (ts key : Nat) :
    ∀ fuel pos p, pos < 65536 → probe 65536 cells ts key fuel pos = some p →
      genProbe fuel (cells.map (·.time)) (cells.map (·.key)) ts key pos = p ∧ p < 65536 := by
  intro fuel
  induction fuel with
  | zero => intro pos p _ h; simp [probe] at h
  | succ n ih =>
    intro pos p hpos h
    have hb : pos < cells.size := by rw [hsz]; exact hpos
    simp only [probe] at h
    simp only [genProbe, Tbx.Gen.whileFuel, aget_map_lt _ _ _ hb]
    by_cases hc : (gt cells pos).time = ts ∧ (gt cells pos).key ≠ key
    · rw [if_pos hc] at h
      have hcb : (((gt cells pos).time == ts) && ((gt cells pos).key != key)) = true := by
        simp [hc.1, hc.2]
      rw [if_pos hcb]
      exact ih _ _ (Nat.mod_lt _ (by decide)) h
    · rw [if_neg hc] at h
      have hcb : ¬ ((((gt cells pos).time == ts) && ((gt cells pos).key != key)) = true) := by
        intro hcb
        apply hc
        simpa using hcb
      rw [if_neg hcb]
      have := Option.some.inj h
      subst this
      exact ⟨rfl, hpos⟩

/-- `gen_probe_eq_model`: on a table of 65536 cells and a home slot below 65536, if the model's probe (fuel
    65536, the fuel every model function passes) stops at `p`, the generated probing loop stops at `p` -/
theorem gen_probe_eq_model (t : Table) (key home p : Nat) (hsz : t.cells.size = 65536) (hh : home < 65536) :
    Tbx.HashTable.probe 65536 t.cells t.ts key 65536 home = some p →
      genProbe 65536 (tm t) (ks t) t.ts key home = p := fun h =>
  (genProbe_eq_model_aux t.cells hsz t.ts key 65536 home p hh h).1

/-- `gen_contains_eq_model`: where the model's `contains_key` answers, the regenerated one gives that answer -/
theorem gen_contains_eq_model (h : Nat → Nat) (t : Table) (key : Nat) (hsz : t.cells.size = 65536)
    (hh : h key < 65536) (b : Bool) :
    Tbx.HashTable.containsKey 65536 h t key = some b →
      Tbx.Gen.Loops.tableContains (tm t) (ks t) t.ts key (h key) = b := by
  intro hc
  rw [tableContains_unfold]
  simp only [containsKey] at hc
  cases hp : probe 65536 t.cells t.ts key 65536 (h key) with
  | none => rw [hp] at hc; exact absurd hc (by simp)
  | some p =>
    rw [hp] at hc
    obtain ⟨he, hlt⟩ := genProbe_eq_model_aux t.cells hsz t.ts key 65536 (h key) p hh hp
    have he' : genProbe 65536 (tm t) (ks t) t.ts key (h key) = p := he
    have ha : Tbx.Gen.aget (tm t) p = (gt t.cells p).time := aget_map_lt _ _ _ (by rw [hsz]; exact hlt)
    rw [he', ha]
    simp only at hc
    by_cases hts : (gt t.cells p).time = t.ts
    · rw [if_pos hts] at hc
      have hb : ((gt t.cells p).time == t.ts) = true := by simpa using hts
      rw [if_pos hb]; exact Option.some.inj hc
    · rw [if_neg hts] at hc
      have hb : ¬ (((gt t.cells p).time == t.ts) = true) := by simpa using hts
      rw [if_neg hb]; exact Option.some.inj hc

/-- the table the examples use: 65536 default cells at generation 5, cell 7 live with key 7 and cell 8 live with
    key 65543 (both keys have home slot 7 under `k % 65536`, so the second lookup probes twice) -/
def exTable : Table :=
  { cells := st (st (Array.replicate 65536 default) 7 ⟨5, 7, 1⟩) 8 ⟨5, 65543, 2⟩, ts := 5, length := 2 }

theorem exTable_size : exTable.cells.size = 65536 := by simp [exTable]

theorem exTable_gt (i : Nat) :
    gt exTable.cells i = if i = 8 then ⟨5, 65543, 2⟩ else if i = 7 then ⟨5, 7, 1⟩ else default := by
  simp only [exTable]
  rw [gt_st' _ _ _ _ (by simp), gt_st' _ _ _ _ (by simp), gt_replicate _ _ rfl]

theorem default_time : (default : Cell).time = 4294967295 := rfl
theorem exTable_ts : exTable.ts = 5 := rfl

theorem probe_go (N : Nat) (cells : Array Cell) (ts key fuel pos : Nat)
    (hc : (gt cells pos).time = ts ∧ (gt cells pos).key ≠ key) :
    probe N cells ts key (fuel + 1) pos = probe N cells ts key fuel ((pos + 1) % N) := by
  simp only [probe]; rw [if_pos hc]

theorem probe_stop (N : Nat) (cells : Array Cell) (ts key fuel pos : Nat)
    (hc : ¬ ((gt cells pos).time = ts ∧ (gt cells pos).key ≠ key)) :
    probe N cells ts key (fuel + 1) pos = some pos := by
  simp only [probe]; rw [if_neg hc]

/-- the model's probe for the present key 65543 walks 7 → 8 -/
theorem exProbe_present : probe 65536 exTable.cells exTable.ts 65543 65536 7 = some 8 := by
  show probe 65536 exTable.cells 5 65543 (65534 + 1 + 1) 7 = some 8
  rw [probe_go _ _ _ _ _ _ (by simp [exTable_gt]), probe_stop _ _ _ _ _ _ (by simp [exTable_gt])]

/-- the model's probe for the absent key 131079 walks 7 → 8 → 9 -/
theorem exProbe_absent : probe 65536 exTable.cells exTable.ts 131079 65536 7 = some 9 := by
  show probe 65536 exTable.cells 5 131079 (65533 + 1 + 1 + 1) 7 = some 9
  rw [probe_go _ _ _ _ _ _ (by simp [exTable_gt]), probe_go _ _ _ _ _ _ (by simp [exTable_gt]),
    probe_stop _ _ _ _ _ _ (by simp [exTable_gt, default_time])]

/-- non-vacuity of `gen_probe_eq_model`: the chain 7 → 8 is walked -/
example : genProbe 65536 (tm exTable) (ks exTable) exTable.ts 65543 7 = 8 :=
  gen_probe_eq_model exTable 65543 7 8 exTable_size (by decide) exProbe_present

/-- non-vacuity of `gen_contains_eq_model`: a present key behind a collision, and an absent key with the same
    home slot (the probe runs 7 → 8 → 9 and finds a dead cell) -/
example : Tbx.Gen.Loops.tableContains (tm exTable) (ks exTable) exTable.ts 65543 ((· % 65536) 65543) = true :=
  gen_contains_eq_model (· % 65536) exTable 65543 exTable_size (by decide) true (by
    simp only [containsKey]
    rw [show (65543 % 65536 : Nat) = 7 by decide, exProbe_present]
    simp only []
    rw [exTable_gt, exTable_ts]; simp)
example : Tbx.Gen.Loops.tableContains (tm exTable) (ks exTable) exTable.ts 131079 ((· % 65536) 131079) = false :=
  gen_contains_eq_model (· % 65536) exTable 131079 exTable_size (by decide) false (by
    simp only [containsKey]
    rw [show (131079 % 65536 : Nat) = 7 by decide, exProbe_absent]
    simp only []
    rw [exTable_gt, exTable_ts]; simp [default_time])

/-! ### the C13 refinement restated for the regenerated function -/

/-- `refines_observers` (Props/C13) for the regenerated `contains_key`: on a table of the real size related to a
    reference map, with 16-bit hash values, it answers exactly whether the key is in the map -/
theorem gen_contains_refines {h : Nat → Nat} {t : Table} {m : FinMap.M} (R : HashTable.Rel 65536 h t m)
    (hh : ∀ k, h k < 65536) (key : Nat) :
    Tbx.Gen.Loops.tableContains (tm t) (ks t) t.ts key (h key) = FinMap.contains m key :=
  gen_contains_eq_model h t key R.inv.size (hh key) _ ((C13.refines_observers R hh).2.1 key)

/-- `refines_map` (Props/C13) for the regenerated `contains_key`: after every history of insert / get_mut / clear
    that keeps fewer live keys than slots, started on a fresh table of the real size, the regenerated function
    answers what the reference map answers -/
theorem gen_contains_refines_map (h : Nat → Nat) (hh : ∀ k, h k < 65536) (ops : List HashTable.Op)
    (hok : HashTable.HistOK 65536 FinMap.clear ops) :
    ∃ t, HashTable.runM 65536 h (HashTable.init 65536) ops = some (t, (HashTable.runS FinMap.clear ops).2) ∧
      ∀ key, Tbx.Gen.Loops.tableContains (tm t) (ks t) t.ts key (h key) =
        FinMap.contains (HashTable.runS FinMap.clear ops).1 key := by
  obtain ⟨t, he, R⟩ := HashTable.run_rel (by decide) hh ops _ _ (HashTable.init_rel 65536 h (by decide)) hok
  exact ⟨t, he, gen_contains_refines R hh⟩

/-- non-vacuity: the fresh table of the real size is related to the empty map under the real hash function, and
    a one-insert history is in the domain -/
example : HashTable.Rel 65536 HashTable.fibHash (HashTable.init 65536) FinMap.clear :=
  HashTable.init_rel 65536 _ (by decide)
example : ∀ k, HashTable.fibHash k < 65536 := fun k => by
  simp only [HashTable.fibHash]; exact Nat.mod_lt _ (by decide)
example : HashTable.HistOK 65536 FinMap.clear [.insert 3 10, .getMut 7, .clear, .insert 7 1] := by
  simp [HashTable.HistOK, HashTable.InDom, HashTable.stepS, FinMap.insert, FinMap.erase, FinMap.contains,
    FinMap.get?, FinMap.len, FinMap.clear]

end Tbx.Props.GenLoopsTable
