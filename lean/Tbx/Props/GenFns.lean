import Tbx.Gen.Fns
import Mathlib.Tactic.Linarith
/-
Theorems about definitions that tools/translate.py REGENERATES from /repo's Rust source on every check
run (lean/Tbx/Gen/Fns.lean).  An edit of partition_id.rs / geometry.rs / bounding_box.rs changes the
subject of these theorems; the kernel re-checks them against what the code says now.
Arithmetic is unbounded `Nat`/`Int`; the bounds under which Rust's fixed-width arithmetic agrees are
explicit hypotheses (`x < 2^31` for a child step of a 32-bit id).
-/
namespace Tbx.Props.GenFns
open Tbx.Gen

/-! ### PartitionID: binary-tree laws (C20, used by C05) -/

theorem parent_left_child (x : Nat) (h : 1 ≤ x) : pidParent (pidLeftChild x) = x := by
  simp only [pidParent, pidLeftChild, Nat.shiftLeft_eq, Nat.shiftRight_eq_div_pow]
  omega

theorem parent_right_child (x : Nat) (h : 1 ≤ x) : pidParent (pidRightChild x) = x := by
  simp only [pidParent, pidRightChild, Nat.shiftLeft_eq, Nat.shiftRight_eq_div_pow]
  omega

theorem root_parent : pidParent 1 = 1 := by decide

theorem left_child_is_left (x : Nat) : pidIsLeftChild (pidLeftChild x) = true ∧ pidIsRightChild (pidLeftChild x) = false := by
  simp only [pidIsLeftChild, pidIsRightChild, pidLeftChild, Nat.shiftLeft_eq]
  constructor <;> simp

theorem right_child_is_right (x : Nat) : pidIsRightChild (pidRightChild x) = true ∧ pidIsLeftChild (pidRightChild x) = false := by
  simp only [pidIsLeftChild, pidIsRightChild, pidRightChild, Nat.shiftLeft_eq]
  constructor <;> simp

theorem make_left_child_eq (x : Nat) : pidMakeLeftChild x = pidLeftChild x := by
  simp [pidMakeLeftChild, pidLeftmostDescendant, pidLeftChild]

theorem make_right_child_eq (x : Nat) : pidMakeRightChild x = pidRightChild x := by
  simp [pidMakeRightChild, pidRightmostDescendant, pidLeftmostDescendant, pidRightChild]

/-- the leftmost descendant k levels down is the k-fold left child -/
theorem leftmost_descendant_iter (x k : Nat) : pidLeftmostDescendant x k = pidLeftChild^[k] x := by
  induction k generalizing x with
  | zero => simp [pidLeftmostDescendant]
  | succ k ih =>
    rw [Function.iterate_succ, Function.comp_apply, ← ih]
    simp only [pidLeftmostDescendant, pidLeftChild, Nat.shiftLeft_eq]
    rw [Nat.pow_succ]; simp [Nat.mul_assoc, Nat.mul_comm]

/-- the rightmost descendant k levels down is the k-fold right child -/
theorem rightmost_descendant_iter (x k : Nat) : pidRightmostDescendant x k = pidRightChild^[k] x := by
  induction k generalizing x with
  | zero => simp [pidRightmostDescendant, pidLeftmostDescendant]
  | succ k ih =>
    rw [Function.iterate_succ, Function.comp_apply, ← ih]
    simp only [pidRightmostDescendant, pidLeftmostDescendant, pidRightChild, Nat.shiftLeft_eq]
    have hp : 1 ≤ 2 ^ k := Nat.one_le_two_pow
    rw [Nat.pow_succ]
    generalize 2 ^ k = p at hp ⊢
    have e1 : x * (p * 2) = (x * 2) * p := by rw [Nat.mul_comm p 2, Nat.mul_assoc]
    have e2 : (x * 2 + 1) * p = (x * 2) * p + p := by rw [Nat.add_mul, Nat.one_mul]
    rw [Nat.one_mul, Nat.one_mul, e1, e2]
    omega

theorem level_eq_log2 (x : Nat) (h1 : 1 ≤ x) (h2 : x < 2 ^ 32) : pidLevel x = Nat.log2 x := by
  have hl : Nat.log2 x < 32 := (Nat.log2_lt (by omega)).mpr h2
  simp only [pidLevel, leadingZeros32]
  rw [if_neg (by omega)]
  omega

theorem level_root : pidLevel 1 = 0 := by decide

/-- a child is one level below its parent (ids below bit 31, so the child still fits 32 bits) -/
theorem level_child (x : Nat) (h1 : 1 ≤ x) (h2 : x < 2 ^ 31) :
    pidLevel (pidLeftChild x) = pidLevel x + 1 ∧ pidLevel (pidRightChild x) = pidLevel x + 1 := by
  have hx : x ≠ 0 := by omega
  have hl : pidLeftChild x = 2 * x := by simp [pidLeftChild, Nat.shiftLeft_eq, Nat.mul_comm]
  have hr : pidRightChild x = 2 * x + 1 := by simp [pidRightChild, Nat.shiftLeft_eq, Nat.mul_comm]
  have l2 : Nat.log2 (2 * x) = Nat.log2 x + 1 := by
    rw [Nat.log2_def (2 * x)]; simp [hx]
  have l3 : Nat.log2 (2 * x + 1) = Nat.log2 x + 1 := by
    rw [Nat.log2_def (2 * x + 1)]
    have : (2 * x + 1) / 2 = x := by omega
    simp [this, hx]
  rw [hl, hr, level_eq_log2 (2 * x) (by omega) (by omega), level_eq_log2 (2 * x + 1) (by omega) (by omega),
    level_eq_log2 x h1 (by omega), l2, l3]
  exact ⟨rfl, rfl⟩

/-- non-vacuity: id 5 (level 2) and its children 10, 11 -/
example : pidParent (pidLeftChild 5) = 5 ∧ pidLevel 5 = 2 ∧ pidLevel (pidRightChild 5) = 3 ∧
    pidRightmostDescendant 5 2 = 23 ∧ pidLeftmostDescendant 5 2 = 20 := by decide

/-! ### geometry (C19) -/

theorem cross_product_eq (ox oy ax ay bx b_y : Int) :
    crossProduct ox oy ax ay bx b_y = (ay - oy) * (bx - ox) - (ax - ox) * (b_y - oy) := rfl

theorem clock_wise_iff (ox oy ax ay bx b_y : Int) :
    isClockWiseTurn ox oy ax ay bx b_y = decide (0 < crossProduct ox oy ax ay bx b_y) := by
  simp only [isClockWiseTurn, crossProduct]
  congr 1
  apply propext
  constructor <;> intro h <;> omega

theorem prod_bound (p q A B : Int) (_hA : 0 ≤ A) (_hB : 0 ≤ B) (hp : -A ≤ p ∧ p ≤ A) (hq : -B ≤ q ∧ q ≤ B) :
    -(A * B) ≤ p * q ∧ p * q ≤ A * B := by
  have h1 := mul_nonneg (show (0 : Int) ≤ A - p by omega) (show (0 : Int) ≤ B - q by omega)
  have h2 := mul_nonneg (show (0 : Int) ≤ A + p by omega) (show (0 : Int) ≤ B + q by omega)
  have h3 := mul_nonneg (show (0 : Int) ≤ A - p by omega) (show (0 : Int) ≤ B + q by omega)
  have h4 := mul_nonneg (show (0 : Int) ≤ A + p by omega) (show (0 : Int) ≤ B - q by omega)
  constructor <;> nlinarith

/-- the i64 arithmetic of `cross_product` cannot overflow on valid coordinates -/
theorem cross_product_fits_i64 (ox oy ax ay bx b_y : Int)
    (h1 : -90000000 ≤ ox ∧ ox ≤ 90000000) (h2 : -180000000 ≤ oy ∧ oy ≤ 180000000)
    (h3 : -90000000 ≤ ax ∧ ax ≤ 90000000) (h4 : -180000000 ≤ ay ∧ ay ≤ 180000000)
    (h5 : -90000000 ≤ bx ∧ bx ≤ 90000000) (h6 : -180000000 ≤ b_y ∧ b_y ≤ 180000000) :
    -(2 : Int) ^ 63 < crossProduct ox oy ax ay bx b_y ∧ crossProduct ox oy ax ay bx b_y < 2 ^ 63 := by
  rw [cross_product_eq]
  have b1 : -360000000 ≤ ay - oy ∧ ay - oy ≤ 360000000 := by omega
  have b2 : -180000000 ≤ bx - ox ∧ bx - ox ≤ 180000000 := by omega
  have b3 : -180000000 ≤ ax - ox ∧ ax - ox ≤ 180000000 := by omega
  have b4 : -360000000 ≤ b_y - oy ∧ b_y - oy ≤ 360000000 := by omega
  generalize ay - oy = p at b1 ⊢
  generalize bx - ox = q at b2 ⊢
  generalize ax - ox = r at b3 ⊢
  generalize b_y - oy = s at b4 ⊢
  have m1 : -(64800000000000000 : Int) ≤ p * q ∧ p * q ≤ 64800000000000000 :=
    prod_bound p q 360000000 180000000 (by omega) (by omega) b1 b2 |> fun h => by simpa using h
  have m2 : -(64800000000000000 : Int) ≤ r * s ∧ r * s ≤ 64800000000000000 := by
    have := prod_bound s r 360000000 180000000 (by omega) (by omega) b4 b3
    rw [Int.mul_comm r s]; simpa using this
  generalize p * q = u at m1 ⊢
  generalize r * s = v at m2 ⊢
  constructor <;> omega

theorem bbox_contains_iff (a b c d x y : Int) :
    bboxContains a b c d x y = true ↔ (a ≤ x ∧ x ≤ c ∧ b ≤ y ∧ y ≤ d) := by
  simp [bboxContains]
  omega

end Tbx.Props.GenFns
