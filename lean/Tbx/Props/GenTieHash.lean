import Tbx.Gen.Fns
import Tbx.Model.HashTable
/-
C13: the hand model of `FibonacciHash::hash` used by the hash-table model is the function that
tools/translate.py regenerates from /repo/src/fibonacci_hash.rs on every run.
-/
namespace Tbx.Props.GenTieHash

theorem fib_hash_model_eq_gen (key : Nat) : HashTable.fibHash key = Tbx.Gen.fibonacciHash key := rfl

/-- the generated hash is a 16-bit value, as the table's slot arithmetic needs -/
theorem fib_hash_lt (key : Nat) : Tbx.Gen.fibonacciHash key < 65536 := by
  simp only [Tbx.Gen.fibonacciHash]
  exact Nat.mod_lt _ (by decide)

example : Tbx.Gen.fibonacciHash 1 = 32586 ∧ Tbx.Gen.fibonacciHash 0 = 0 := by decide

end Tbx.Props.GenTieHash
