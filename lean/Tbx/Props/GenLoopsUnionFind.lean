import Tbx.Gen.Loops
import Tbx.Model.UnionFind
import Tbx.Props.C16
/-
Tie theorems: `UnionFind::find` / `UnionFind::union` as regenerated statement by statement from
/repo/src/union_find.rs (`Tbx.Gen.Loops.ufFind`, `Tbx.Gen.Loops.ufUnion`) compute what the hand model
`Tbx.UF.find` / `Tbx.UF.union` computes wherever the model does not answer `none` (= the Rust would index
out of bounds or underflow `number_of_sets`).  The C16 union-find theorems are then restated for the
generated functions.
-/
namespace Tbx.Props.GenLoopsUnionFind
open Tbx

theorem aget_eq_gt {α : Type} [Inhabited α] (a : Array α) (i : Nat) : Tbx.Gen.aget a i = Tbx.gt a i := rfl
theorem aset_eq_st {α : Type} (a : Array α) (i : Nat) (x : α) : Tbx.Gen.aset a i x = Tbx.st a i x := rfl

/-- the generated loop of `find`, with the lambdas exactly as they stand in `Tbx.Gen.Loops.ufFind` -/
def genFindLoop (fuel : Nat) (s : Array Nat × Nat) : Array Nat × Nat :=
  Tbx.Gen.whileFuel fuel
      (fun (self_parent_2, p_3) => ((Tbx.Gen.aget self_parent_2 p_3) != p_3))
      (fun (self_parent_2, p_3) =>
      let self_parent_4 : Array Nat := Tbx.Gen.aset self_parent_2 p_3 (Tbx.Gen.aget self_parent_2 (Tbx.Gen.aget self_parent_2 p_3))
      let p_5 : Nat := (Tbx.Gen.aget self_parent_4 p_3)
      (self_parent_4, p_5))
      s

/-- `ufFind` is its loop run from `(parent, x)` with fuel `len + 1`, components swapped -/
theorem ufFind_eq_loop (par rank : Array Nat) (ns x : Nat) :
    Tbx.Gen.Loops.ufFind par rank ns x
      = ((genFindLoop (par.size + 1) (par, x)).2, (genFindLoop (par.size + 1) (par, x)).1) := rfl

/-- key step: whenever the model's fuelled loop answers, the generated `whileFuel` loop stops in the same state -/
theorem findLoop_eq_gen (f : Nat) (par : Array Nat) (p : Nat) (par' : Array Nat) (r : Nat)
    (h : UF.findLoop f par p = some (par', r)) : genFindLoop f (par, p) = (par', r) := by
  induction f generalizing par p with
  | zero => simp [UF.findLoop] at h
  | succ f ih =>
    simp only [UF.findLoop] at h
    simp only [genFindLoop, Tbx.Gen.whileFuel, aget_eq_gt, aset_eq_st]
    split at h
    · cases h
    · split at h
      · rename_i hne
        split at h
        · cases h
        · have hc : (gt par p != p) = true := by simpa using hne
          simp only [hc, if_true]
          have := ih _ _ h
          simpa only [genFindLoop, aget_eq_gt, aset_eq_st] using this
      · rename_i heq
        have hc : (gt par p != p) = false := by simpa using heq
        simp only [hc]
        cases h
        simp

/-- 1. the generated `find` returns the model's root and leaves the model's parent array -/
theorem gen_find_eq_model (u u' : Tbx.UF.UF) (x r : Nat) :
    Tbx.UF.find u x = some (u', r) → Tbx.Gen.Loops.ufFind u.parent u.rank u.numSets x = (r, u'.parent) := by
  intro h
  simp only [UF.find] at h
  split at h
  · cases h
  · rename_i par r' hl
    cases h
    rw [ufFind_eq_loop, findLoop_eq_gen _ _ _ _ _ hl]

/-- `find` touches only `parent` -/
theorem find_rank_numSets (u u' : Tbx.UF.UF) (x r : Nat) (h : Tbx.UF.find u x = some (u', r)) :
    u'.rank = u.rank ∧ u'.numSets = u.numSets := by
  simp only [UF.find] at h
  split at h
  · cases h
  · cases h; exact ⟨rfl, rfl⟩

/-- non-vacuity: a depth-2 tree (0 ← 2 ← 3); `find 3` halves the path -/
example : Tbx.Gen.Loops.ufFind #[0, 0, 0, 2] #[2, 0, 1, 0] 1 3 = (0, #[0, 0, 0, 0]) :=
  gen_find_eq_model ⟨1, #[0, 0, 0, 2], #[2, 0, 1, 0]⟩ ⟨1, #[0, 0, 0, 0], #[2, 0, 1, 0]⟩ 3 0 rfl

/-- 2. the generated `union` leaves the model's `parent`, `rank` and `number_of_sets` -/
theorem gen_union_eq_model (u u' : Tbx.UF.UF) (x y : Nat) :
    Tbx.UF.union u x y = some u' →
    Tbx.Gen.Loops.ufUnion u.parent u.rank u.numSets x y = ((), u'.parent, u'.rank, u'.numSets) := by
  intro h
  simp only [UF.union] at h
  split at h
  · cases h
  · rename_i u1 xs h1
    split at h
    · cases h
    · rename_i u2 ys h2
      obtain ⟨hr1, hn1⟩ := find_rank_numSets _ _ _ _ h1
      obtain ⟨hr2, hn2⟩ := find_rank_numSets _ _ _ _ h2
      have g1 := gen_find_eq_model _ _ _ _ h1
      have g2 := gen_find_eq_model _ _ _ _ h2
      rw [hr1, hn1] at g2
      rw [hr1] at hr2
      rw [hn1] at hn2
      simp only [Tbx.Gen.Loops.ufUnion, g1, g2, aget_eq_gt, aset_eq_st]
      split at h
      · rename_i hxy
        cases h
        simp [hxy, hr2, hn2]
      · rename_i hxy
        have hb : (xs == ys) = false := by simpa using hxy
        simp only [hb, Bool.false_eq_true, if_false]
        split at h
        · cases h
        · rw [hr2] at h
          split at h
          · rename_i hlt
            cases h
            simp only [Nat.compare_eq_lt.mpr hlt, hn2]
          · split at h
            · rename_i hgt
              cases h
              simp only [Nat.compare_eq_gt.mpr hgt, hn2]
            · rename_i hnlt hngt
              cases h
              have : gt u.rank xs = gt u.rank ys := by omega
              simp only [Nat.compare_eq_eq.mpr this, hn2]

/-- non-vacuity: two rank-1 trees are joined (equal ranks: the rank of the first root grows) -/
example : Tbx.Gen.Loops.ufUnion #[0, 0, 2, 2] #[1, 0, 1, 0] 2 1 3 = ((), #[0, 0, 0, 2], #[2, 0, 1, 0], 1) :=
  gen_union_eq_model ⟨2, #[0, 0, 2, 2], #[1, 0, 1, 0]⟩ ⟨1, #[0, 0, 0, 2], #[2, 0, 1, 0]⟩ 1 3 rfl

/-! ## the C16 union-find theorems, restated for the generated functions -/

open Tbx.UF Tbx.Comp in
/-- 3. "union-find reports two elements equal iff they were joined" (`C16.uf_same_iff_joined`), for the
    generated `find`: in every state reachable from `UnionFind::new(n)` with union pairs `ps`, `find(x)`
    followed by `find(y)` on the state the first call left return the same value iff `x` and `y` are related
    by the equivalence closure of `ps`. -/
theorem gen_same_iff_joined {n : Nat} {u : UF.UF} {ps : Edges} (h : Reachable n u ps) (x y : Nat)
    (hx : x < n) (hy : y < n) :
    ((Tbx.Gen.Loops.ufFind u.parent u.rank u.numSets x).1
      = (Tbx.Gen.Loops.ufFind (Tbx.Gen.Loops.ufFind u.parent u.rank u.numSets x).2 u.rank u.numSets y).1)
      ↔ EqvClosure ps x y := by
  obtain ⟨u1, rx, u2, ry, h1, h2, hiff⟩ := Tbx.Props.C16.uf_same_iff_joined h x y hx hy
  obtain ⟨hr1, hn1⟩ := find_rank_numSets _ _ _ _ h1
  have g1 := gen_find_eq_model _ _ _ _ h1
  have g2 := gen_find_eq_model _ _ _ _ h2
  rw [hr1, hn1] at g2
  rw [g1, g2]
  exact hiff

open Tbx.UF Tbx.Comp in
/-- `C16.uf_union_correct` for the generated `union`: the state it leaves is the model's (hence again
    reachable, with `(x, y)` added to the pairs) and `number_of_sets` drops by one iff the two elements
    were not yet joined. -/
theorem gen_union_correct {n : Nat} {u : UF.UF} {ps : Edges} (h : Reachable n u ps) (x y : Nat)
    (hx : x < n) (hy : y < n) :
    ∃ u', Tbx.Gen.Loops.ufUnion u.parent u.rank u.numSets x y = ((), u'.parent, u'.rank, u'.numSets) ∧
      Reachable n u' (ps ++ [(x, y)]) ∧
      (EqvClosure ps x y → u'.numSets = u.numSets) ∧ (¬ EqvClosure ps x y → u'.numSets + 1 = u.numSets) := by
  obtain ⟨u', hu, hr, ha, hb⟩ := Tbx.Props.C16.uf_union_correct h x y hx hy
  exact ⟨u', gen_union_eq_model _ _ _ _ hu, hr, ha, hb⟩

open Tbx.UF Tbx.Comp in
/-- non-vacuity: after `union(0,1)` on `new(3)`, the generated `find` gives 0 and 1 the same root -/
example : (Tbx.Gen.Loops.ufFind #[0, 0, 2] #[1, 0, 0] 2 0).1
    = (Tbx.Gen.Loops.ufFind (Tbx.Gen.Loops.ufFind #[0, 0, 2] #[1, 0, 0] 2 0).2 #[1, 0, 0] 2 1).1 :=
  (gen_same_iff_joined (n := 3) (u := ⟨2, #[0, 0, 2], #[1, 0, 0]⟩) (ps := [] ++ [(0, 1)])
    (Reachable.union (x := 0) (y := 1) Reachable.new (by decide) (by decide) rfl) 0 1
    (by decide) (by decide)).mpr (EqvClosure.rel (by simp))

end Tbx.Props.GenLoopsUnionFind
