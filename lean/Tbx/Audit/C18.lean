import Tbx.Props.C18
#print axioms Tbx.Props.C18.judge_isMinSlot_sound
