import Tbx.Props.GenTie
#print axioms Tbx.Props.GenTie.pid_parent
#print axioms Tbx.Props.GenTie.pid_left_child
#print axioms Tbx.Props.GenTie.pid_right_child
#print axioms Tbx.Props.GenTie.pid_is_left
#print axioms Tbx.Props.GenTie.pid_is_right
#print axioms Tbx.Props.GenTie.pid_level
#print axioms Tbx.Props.GenTie.pid_leftmost
#print axioms Tbx.Props.GenTie.cross_model_eq_gen
#print axioms Tbx.Props.GenTie.bbox_contains_model_eq_gen
