import Tbx.Props.C17
#print axioms Tbx.Props.C17.type_table_complete
#print axioms Tbx.Props.C17.pass_stable_perm
#print axioms Tbx.Props.C17.skip_sound
#print axioms Tbx.Props.C17.float_key_monotone
#print axioms Tbx.Props.C17.lsd_sorted
#print axioms Tbx.Props.C17.placement_eq_buckets
#print axioms Tbx.Props.C17.placement_round
#print axioms Tbx.Props.C17.radix_sorts
#print axioms Tbx.Props.C17.eq_std_sort
#print axioms Tbx.Props.C17.eq_std_partial_sort
#print axioms Tbx.Props.C17.judge_sound
