import Tbx.Props.GenFns
#print axioms Tbx.Props.GenFns.parent_left_child
#print axioms Tbx.Props.GenFns.parent_right_child
#print axioms Tbx.Props.GenFns.root_parent
#print axioms Tbx.Props.GenFns.left_child_is_left
#print axioms Tbx.Props.GenFns.right_child_is_right
#print axioms Tbx.Props.GenFns.make_left_child_eq
#print axioms Tbx.Props.GenFns.make_right_child_eq
#print axioms Tbx.Props.GenFns.leftmost_descendant_iter
#print axioms Tbx.Props.GenFns.rightmost_descendant_iter
#print axioms Tbx.Props.GenFns.level_eq_log2
#print axioms Tbx.Props.GenFns.level_child
#print axioms Tbx.Props.GenFns.cross_product_eq
#print axioms Tbx.Props.GenFns.clock_wise_iff
#print axioms Tbx.Props.GenFns.cross_product_fits_i64
#print axioms Tbx.Props.GenFns.bbox_contains_iff
