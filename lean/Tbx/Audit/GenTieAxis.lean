import Tbx.Props.GenTieAxis
#print axioms Tbx.Props.GenTieAxis.axis_key_model_eq_gen
