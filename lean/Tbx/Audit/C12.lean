import Tbx.Props.C12
#print axioms Tbx.Props.C12.chunks_partition
#print axioms Tbx.Props.C12.pack_partition
#print axioms Tbx.Props.C12.children_count_exact
#print axioms Tbx.Props.C12.iter_complete
#print axioms Tbx.Props.C12.iter_sorted
#print axioms Tbx.Props.C12.iter_terminates
#print axioms Tbx.Props.C12.first_k_nearest
#print axioms Tbx.Props.C12.queues_lawful
#print axioms Tbx.Props.C12.judge_sound
#print axioms Tbx.Props.C12.zorder_key
#print axioms Tbx.Props.C12.zorder_total_preorder
#print axioms Tbx.Props.C12.zsort_sorted_perm
