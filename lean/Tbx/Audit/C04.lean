import Tbx.Props.C04
#print axioms Tbx.Props.C04.reachable_inv
#print axioms Tbx.Props.C04.final_bound_eq_min
#print axioms Tbx.Props.C04.minimal_never_aborted
#print axioms Tbx.Props.C04.minimal_complete
#print axioms Tbx.Props.C04.step_finishes_only_at_end
#print axioms Tbx.Props.C04.sequential
