import Tbx.Props.C08
#print axioms Tbx.Props.C08.judge_oracle_sound
