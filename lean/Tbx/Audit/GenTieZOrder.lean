import Tbx.Props.GenTieZOrder
#print axioms Tbx.Props.GenTieZOrder.zorder_model_eq_gen
