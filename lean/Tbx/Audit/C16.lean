import Tbx.Props.C16
#print axioms Tbx.Props.C16.tarjan_rerun_eq_fresh
#print axioms Tbx.Props.C16.gabow_rerun_eq_fresh
#print axioms Tbx.Props.C16.tarjan_history_eq_fresh
#print axioms Tbx.Props.C16.gabow_history_eq_fresh
#print axioms Tbx.Props.C16.closure_checker_exact
#print axioms Tbx.Props.C16.cycle_checker_exact
#print axioms Tbx.Props.C16.acyclic_checker_exact
#print axioms Tbx.Props.C16.conn_is_equivalence_closure
