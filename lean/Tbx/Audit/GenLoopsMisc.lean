import Tbx.Props.GenLoopsMisc
#print axioms Tbx.Props.GenLoopsMisc.gen_lca_eq_model
#print axioms Tbx.Props.GenLoopsMisc.gen_lca_deepest
#print axioms Tbx.Props.GenLoopsMisc.gen_next_fit_eq_model
