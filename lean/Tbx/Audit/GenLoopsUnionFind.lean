import Tbx.Props.GenLoopsUnionFind
#print axioms Tbx.Props.GenLoopsUnionFind.findLoop_eq_gen
#print axioms Tbx.Props.GenLoopsUnionFind.gen_find_eq_model
#print axioms Tbx.Props.GenLoopsUnionFind.gen_union_eq_model
#print axioms Tbx.Props.GenLoopsUnionFind.gen_same_iff_joined
#print axioms Tbx.Props.GenLoopsUnionFind.gen_union_correct
