import Tbx.Props.C13
#print axioms Tbx.Props.C13.bloom_no_false_negative
#print axioms Tbx.Props.C13.cms_lower_bound
#print axioms Tbx.Props.C13.tiny_refines_map
#print axioms Tbx.Props.C13.table_inv_init
#print axioms Tbx.Props.C13.table_inv_getMut
#print axioms Tbx.Props.C13.table_inv_insert
#print axioms Tbx.Props.C13.table_inv_clear
#print axioms Tbx.Props.C13.probing_terminates
#print axioms Tbx.Props.C13.refines_step
#print axioms Tbx.Props.C13.refines_observers
#print axioms Tbx.Props.C13.refines_map
#print axioms Tbx.Props.C13.refines_map_from_generation
#print axioms Tbx.Props.C13.clearMany_is_iterated_clear
#print axioms Tbx.Props.C13.judge_checkObs_sound
#print axioms Tbx.Props.C13.finmap_laws
