import Tbx.Props.GenLoopsTable
#print axioms Tbx.Props.GenLoopsTable.tableContains_unfold
#print axioms Tbx.Props.GenLoopsTable.gen_probe_eq_model
#print axioms Tbx.Props.GenLoopsTable.gen_contains_eq_model
#print axioms Tbx.Props.GenLoopsTable.gen_contains_refines
#print axioms Tbx.Props.GenLoopsTable.gen_contains_refines_map
