import Tbx.Props.GenTieHash
#print axioms Tbx.Props.GenTieHash.fib_hash_model_eq_gen
#print axioms Tbx.Props.GenTieHash.fib_hash_lt
