import Tbx.Props.C07
#print axioms Tbx.Props.C07.varint_roundtrip
#print axioms Tbx.Props.C07.varint_bytes
#print axioms Tbx.Props.C07.zigzag_roundtrip
#print axioms Tbx.Props.C07.i32_roundtrip
#print axioms Tbx.Props.C07.vec_roundtrip
#print axioms Tbx.Props.C07.decode_encode_edges
#print axioms Tbx.Props.C07.decode_encode_coords
#print axioms Tbx.Props.C07.decode_trivial_edges
#print axioms Tbx.Props.C07.dimacs_parse_render
#print axioms Tbx.Props.C07.dimacs_coords_parse_render
#print axioms Tbx.Props.C07.metis_parse_render
#print axioms Tbx.Props.C07.ddsg_parse_render
#print axioms Tbx.Props.C07.plier_dimacs_preserves
#print axioms Tbx.Props.C07.plier_writes_what_was_read
#print axioms Tbx.Props.C07.judge_delivered_sound
#print axioms Tbx.Props.C07.judge_within_sound
