import Tbx.Props.GenTieFenwick
#print axioms Tbx.Props.GenTieFenwick.fenwick_lsb_model_eq_gen
#print axioms Tbx.Props.GenTieFenwick.fenwick_lsb_gen_spec
