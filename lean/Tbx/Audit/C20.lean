import Tbx.Props.C20
#print axioms Tbx.Props.C20.judge_isLCA_sound
