import Tbx.Props.C11Bulk
#print axioms Tbx.Props.C11Bulk.bulk_items
#print axioms Tbx.Props.C11Bulk.bulk_keys
#print axioms Tbx.Props.C11Bulk.bulk_len
#print axioms Tbx.Props.C11Bulk.bulk_isEmpty
#print axioms Tbx.Props.C11Bulk.bulk_contains
#print axioms Tbx.Props.C11Bulk.bulk_contains_eq
#print axioms Tbx.Props.C11Bulk.bulk_get
#print axioms Tbx.Props.C11Bulk.bulk_get_miss
#print axioms Tbx.Props.C11Bulk.bulk_get_keeps
#print axioms Tbx.Props.C11Bulk.bulk_front
#print axioms Tbx.Props.C11Bulk.bulk_front_zero
#print axioms Tbx.Props.C11Bulk.bulk_evicted
#print axioms Tbx.Props.C11Bulk.bulk_clear
#print axioms Tbx.Props.C11Bulk.bulk_clear_run
#print axioms Tbx.Props.C11Bulk.bulk_reuse
