import Tbx.Props.C10
#print axioms Tbx.Props.C10.judge_isMin_sound
#print axioms Tbx.Props.C10.clear_post
#print axioms Tbx.Props.C10.upLoop_keeps_order
