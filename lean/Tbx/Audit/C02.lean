import Tbx.Props.C02
#print axioms Tbx.Props.C02.assign_closure
#print axioms Tbx.Props.C02.assign_is_min_cut
#print axioms Tbx.Props.C02.assign_minimal
#print axioms Tbx.Props.C02.assign_solver_independent
#print axioms Tbx.Props.C02.minCutOK_sound
#print axioms Tbx.Props.C02.accepted_assignments_agree
#print axioms Tbx.Props.C02.judge_checker_eq
#print axioms Tbx.Props.C02.ek_ff_assignment_canonical
#print axioms Tbx.Props.C02.dinic_assignment_canonical
#print axioms Tbx.Props.C02.assignment_returns
#print axioms Tbx.Props.C02.solvers_return_canonical_cut
#print axioms Tbx.Props.C02.dinic_rerun_same_cut
#print axioms Tbx.Props.C02.ek_ff_rerun_same_cut
