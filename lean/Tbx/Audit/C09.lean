import Tbx.Props.C09
#print axioms Tbx.Props.C09.judge_validPath_iff
