import Tbx.Props.C09
#print axioms Tbx.Props.C09.judge_validPath_iff
#print axioms Tbx.Props.C09.validPath_is_walk
#print axioms Tbx.Props.C09.unreached_none
#print axioms Tbx.Props.C09.unreached_none_of_unreachable
#print axioms Tbx.Props.C09.final_state_ready
#print axioms Tbx.Props.C09.parent_inv
#print axioms Tbx.Props.C09.path_valid
#print axioms Tbx.Props.C09.path_valid_uni
#print axioms Tbx.Props.C09.path_valid_o2m
#print axioms Tbx.Dijkstra.heapLaws
