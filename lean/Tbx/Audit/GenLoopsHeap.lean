import Tbx.Props.GenLoopsHeap
#print axioms Tbx.Props.GenLoopsHeap.gen_up_eq_model
#print axioms Tbx.Props.GenLoopsHeap.gen_down_eq_model
#print axioms Tbx.Props.GenLoopsHeap.up_other_fields
#print axioms Tbx.Props.GenLoopsHeap.down_other_fields
