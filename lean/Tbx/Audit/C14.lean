import Tbx.Props.C14
#print axioms Tbx.Props.C14.judge_canon_sound
