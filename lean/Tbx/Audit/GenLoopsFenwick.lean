import Tbx.Props.GenLoopsFenwick
#print axioms Tbx.Props.GenLoopsFenwick.gen_prevPow2_eq_model
#print axioms Tbx.Props.GenLoopsFenwick.gen_rank_eq_model
#print axioms Tbx.Props.GenLoopsFenwick.gen_update_eq_model
#print axioms Tbx.Props.GenLoopsFenwick.gen_update_components
#print axioms Tbx.Props.GenLoopsFenwick.gen_range_eq_model
#print axioms Tbx.Props.GenLoopsFenwick.gen_select_eq_model
