import Tbx.Props.GenLoopsChoose
#print axioms Tbx.Props.GenLoopsChoose.gen_choose_eq_model
#print axioms Tbx.Props.GenLoopsChoose.gen_choose_binomial
#print axioms Tbx.Props.GenLoopsChoose.gen_choose_lt
#print axioms Tbx.Props.GenLoopsChoose.gen_decode_eq_model
#print axioms Tbx.Props.GenLoopsChoose.gen_decode_u64_unrank
