import Tbx.Props.C03
#print axioms Tbx.Props.C03.balance_eq
