import Tbx.Props.C15
#print axioms Tbx.Props.C15.judge_reach_sound
