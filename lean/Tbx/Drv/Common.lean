/-
Line-protocol plumbing shared by all per-property drivers (core Lean only, so that the
drivers link as `lean_exe`).

Input (written by the Rust harness, one file per run, read from stdin):

    CASE <k> <family>
    <op line> ...            -- property specific, no leading "I "
    I <observation> ...      -- what the real code did, canonicalised by the harness
    END

Output (to stdout), per case:

    CASE <k>
    M <observation> ...      -- what the Lean model does on the same ops (same format as the I lines)
    J ok | J fail <why> | J skip <why>
                             -- the Spec checker applied to the I lines (independent of the model);
                             -- skip = the case lies outside the domain the property quantifies over
    S key=value ...          -- per-case statistics (nontrivial=0/1, branch counters, sizes)
    END
-/
namespace Tbx.Drv

structure Case where
  id     : String
  family : String
  ops    : Array String
  impl   : Array String
deriving Inhabited

inductive Verdict where
  | ok
  | fail (why : String)
  | skip (why : String)
deriving Inhabited

structure CaseOut where
  model   : Array String
  verdict : Verdict
  stats   : List (String × String) := []
deriving Inhabited

def words (s : String) : List String :=
  (s.splitOn " ").filter (· ≠ "")

def trimLine (s : String) : String := s.trimAscii.toString

/-- decimal integer with optional leading '-' -/
def parseInt? (s : String) : Option Int :=
  if s.startsWith "-" then (s.drop 1).toString.toNat?.map (fun n => - (Int.ofNat n))
  else s.toNat?.map Int.ofNat

def parseNat! (s : String) : Nat := s.toNat?.getD 0
def parseInt! (s : String) : Int := (parseInt? s).getD 0

def showVerdict : Verdict → String
  | .ok => "J ok"
  | .fail w => "J fail " ++ w
  | .skip w => "J skip " ++ w

partial def readCases (h : IO.FS.Stream) (handle : Case → CaseOut) : IO Unit := do
  let out ← IO.getStdout
  let rec loop (cur : Option Case) : IO Unit := do
    let line ← h.getLine
    if line.isEmpty then return ()
    let l := trimLine line
    if l.startsWith "CASE " then
      match words l with
      | _ :: k :: fam :: _ => loop (some { id := k, family := fam, ops := #[], impl := #[] })
      | _ :: k :: _ => loop (some { id := k, family := "", ops := #[], impl := #[] })
      | _ => loop cur
    else if l == "END" then
      match cur with
      | some c =>
        let r := handle c
        out.putStrLn ("CASE " ++ c.id)
        for m in r.model do out.putStrLn ("M " ++ m)
        out.putStrLn (showVerdict r.verdict)
        let st := r.stats.foldl (fun acc (k, v) => acc ++ " " ++ k ++ "=" ++ v) "S"
        out.putStrLn st
        out.putStrLn "END"
        loop none
      | none => loop none
    else if l.startsWith "I " then
      loop (cur.map fun c => { c with impl := c.impl.push (l.drop 2).toString })
    else if l == "I" then
      loop (cur.map fun c => { c with impl := c.impl.push "" })
    else if l.isEmpty || l.startsWith "#" then loop cur
    else loop (cur.map fun c => { c with ops := c.ops.push l })
  loop none
  out.flush

def runDriver (handle : Case → CaseOut) : IO Unit := do
  readCases (← IO.getStdin) handle

end Tbx.Drv
