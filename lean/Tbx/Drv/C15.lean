import Tbx.Drv.Common
import Tbx.Model.Search
import Tbx.Spec.Reach
/-
Driver for C15 (BFS / DFS).

ops:
  G <bfs|dfs> <n> <m> u0 v0 u1 v1 …     edges in StaticGraph (CSR) order: sorted by source; edge id = position;
                                         a case starts with a G line; a further G line switches graph / algorithm
                                         and drops all objects (run numbering continues)
  new <obj> <srcs> <tgts>                `BFS::new(srcs, tgts, n)`            lists: a,b,c or `-` (empty)
  run <obj> <filter>                     `run_with_filter` skipping the listed edge ids; `-` = `run()`
  q <srcs> <tgts> <filter>               fresh object + one run
  rep <obj> <N> <filter>                 the same run N times on <obj>; only the last min(N,3) of them are observed
                                         like `run` ops (they take the next run numbers k..), followed by
                                           D r<k> n=<N> true=<how many of the N calls returned true>

obs for the k-th run (k counts `run` and `q` ops):
  D k found=<0|1>
  F k np=<node path> ep=<edge path> it=<iterator output>          only when found and the target set is non-empty
  D k fresh found=…  /  F k fresh np=… ep=… it=…                   the same run on a fresh object, only when the
                                                                   object had been run before
The judge (Spec only): found ⇔ (targets empty ∨ some target in the closed ball); node path valid and simple;
iterator output = reversed node path; edge path joins the same nodes; BFS: no target within fewer hops;
fresh lines = persistent-object lines.
-/
namespace Tbx.Drv.C15
open Tbx Tbx.Drv

inductive Op where
  | graph (alg : String) (n : Nat) (es : List (Nat × Nat))
  | new (id : String) (srcs tgts : List Nat)
  | run (id : String) (filt : Option (List Nat))
  | q (srcs tgts : List Nat) (filt : Option (List Nat))
  | rep (id : String) (n : Nat) (filt : Option (List Nat))
deriving Inhabited

/-- `Reach.ball g filt srcs k` for the smallest k ≤ n at which the ball is closed (computed incrementally:
    `ball (k+1) = expand (ball k)` by definition).  `Reach.closed_ball_reachable` holds for EVERY k whose ball is
    closed, so the judge may stop at the first one instead of always iterating n times (what made graphs with
    thousands of nodes infeasible); the caller still evaluates `closedB` on the result. -/
def closingBall (g : Reach.Graph) (filt : Nat → Bool) (srcs : List Nat) (n : Nat) : List Nat := Id.run do
  let mut C := srcs
  for _ in [0:n] do
    if Reach.closedB g filt C then return C
    C := Reach.expand g filt C
  return C

/-- how many of the runs of a `rep` op are observed individually -/
def repObserved (n : Nat) : Nat := Nat.min n 3

def parseList (s : String) : Option (List Nat) :=
  if s == "-" then some [] else (s.splitOn ",").mapM (·.toNat?)

def parseFilt (s : String) : Option (Option (List Nat)) :=
  if s == "-" then some none else (parseList s).map some

def parseOp (l : String) : Option Op :=
  match words l with
  | ["new", id, a, b] => do some (.new id (← parseList a) (← parseList b))
  | ["run", id, f] => do some (.run id (← parseFilt f))
  | ["q", a, b, f] => do some (.q (← parseList a) (← parseList b) (← parseFilt f))
  | ["rep", id, n, f] => do some (.rep id (← n.toNat?) (← parseFilt f))
  | _ => none

def bit (b : Bool) : String := if b then "1" else "0"
def showList (l : List Nat) : String := if l.isEmpty then "-" else ",".intercalate (l.map toString)

def pairs : List Nat → List (Nat × Nat)
  | u :: v :: rest => (u, v) :: pairs rest
  | _ => []

/-- adjacency arrays from the CSR-ordered edge list -/
def mkAdj (n : Nat) (es : List (Nat × Nat)) : Array (List (Nat × Nat)) := Id.run do
  let mut a : Array (List (Nat × Nat)) := Array.replicate n []
  let mut i := 0
  for (u, v) in es do
    a := a.modify u (· ++ [(v, i)])
    i := i + 1
  return a

def sortedBySource : List (Nat × Nat) → Bool
  | (u, _) :: (u', v') :: rest => u ≤ u' && sortedBySource ((u', v') :: rest)
  | _ => true

def field (line key : String) : Option String :=
  (words line).findSome? fun w => if w.startsWith (key ++ "=") then some (w.drop (key.length + 1)).toString else none

def filtFn (f : Option (List Nat)) : Nat → Bool :=
  match f with
  | none => fun _ => false
  | some l => fun e => l.contains e

structure Obj where
  id : String
  sr : Search.Searcher
  srcs : List Nat
  tgts : List Nat
  runs : Nat

/-- model observation lines of one run (prefix = "k" or "k fresh") -/
def modelLines (g : Search.Graph) (pfx : String) (found : Bool) (sr : Search.Searcher) : Array String := Id.run do
  let mut out := #[s!"D {pfx} found={bit found}"]
  if found && !sr.emptyTargets then
    match Search.nodePath sr, Search.edgePath g sr, Search.pathIter sr with
    | some np, some ep, some it => out := out.push s!"F {pfx} np={showList np} ep={showList ep} it={showList it}"
    | _, _, _ => out := out.push s!"F {pfx} MODEL-PANIC"
  return out

structure Stats where
  runs : Nat := 0
  found : Nat := 0
  notfound : Nat := 0
  emptyT : Nat := 0
  reuse : Nat := 0
  filtered : Nat := 0
  nontriv : Nat := 0
  maxhops : Nat := 0
  hops : Nat := 0
  epfilt : Nat := 0      -- edge paths containing a FILTERED (parallel) edge: allowed by the property, counted
  explored : Nat := 0
  silent : Nat := 0      -- runs of `rep` ops that were only counted
  maxhist : Nat := 0     -- longest history of runs on one object

structure GState where
  isBfs : Bool := true
  alg : String := ""
  n : Nat := 0
  m : Nat := 0
  adj : Array (List (Nat × Nat)) := #[]

def GState.g (gs : GState) : Search.Graph := fun u => gs.adj.getD u []
def GState.pop (gs : GState) : List Nat → Option (Nat × List Nat) := if gs.isBfs then Search.popFront else Search.popBack

/-- the Spec judge for ONE observed run (number `j`) of the implementation; returns the reason of a failure -/
def judgeRun (impl : List String) (gs : GState) (j : Nat) (srcs tgts : List Nat) (f : Option (List Nat))
    (reused : Bool) (stt0 : Stats) : Option String × Stats := Id.run do
  let mut stt := stt0
  let mut bad : Option String := none
  let g := gs.g
  let n := gs.n
  let isBfs := gs.isBfs
  let alg := gs.alg
  let linesOf (pfx : String) : List String := impl.filter (fun l => (l.startsWith (pfx ++ " ")))
  let filt := filtFn f
  let C := closingBall g filt srcs n
  if !Reach.closedB g filt C then
    return (some s!"run {j}: judge: ball n is not closed (spec checker out of fuel)", stt)
  let reach := Reach.anyTargetIn C tgts
  let expected := tgts.isEmpty || reach
  let dls := linesOf s!"D {j}"
  let fls := linesOf s!"F {j}"
  let dMain := dls.filter (fun l => !(l.startsWith s!"D {j} fresh"))
  let fMain := fls.filter (fun l => !(l.startsWith s!"F {j} fresh"))
  let dFresh := dls.filter (fun l => (l.startsWith s!"D {j} fresh"))
  let fFresh := fls.filter (fun l => (l.startsWith s!"F {j} fresh"))
  match dMain with
  | [dl] =>
    let found := field dl "found" == some "1"
    if field dl "found" != some "1" && field dl "found" != some "0" then
      return (some s!"run {j}: unparsable found flag [{dl}]", stt)
    if found != expected then
      return (some (s!"run {j}: {alg} returned {found} but " ++
        (if tgts.isEmpty then "the target set is empty"
         else if reach then "a target is reachable through unfiltered edges"
         else "no target is reachable through unfiltered edges") ++
        s!" (sources {showList srcs} targets {showList tgts} filter {showList (f.getD [])})"), stt)
    stt := { stt with runs := stt.runs + 1, found := stt.found + (if found then 1 else 0),
                      notfound := stt.notfound + (if found then 0 else 1),
                      emptyT := stt.emptyT + (if tgts.isEmpty then 1 else 0),
                      reuse := stt.reuse + (if reused then 1 else 0),
                      filtered := stt.filtered + (if (f.getD []).isEmpty then 0 else 1),
                      explored := stt.explored + (C.filter (fun x => !srcs.contains x)).length }
    if found && !tgts.isEmpty then
      match fMain with
      | [fl] =>
        match (field fl "np").bind parseList, (field fl "ep").bind parseList, (field fl "it").bind parseList with
        | some np, some ep, some it =>
          if !Reach.validPathB g filt srcs tgts np then
            bad := some s!"run {j}: node path {showList np} is not a simple path from a source to a target along existing unfiltered edges (sources {showList srcs} targets {showList tgts} filter {showList (f.getD [])})"
          else if it != np.reverse then
            bad := some s!"run {j}: iterator output {showList it} is not the reverse of the node path {showList np}"
          else if !Reach.edgesJoinB g np ep then
            bad := some s!"run {j}: edge path {showList ep} does not have one edge per hop joining the nodes of {showList np}"
          else if isBfs && !Reach.noShorterB g filt srcs tgts (np.length - 1) then
            bad := some s!"run {j}: bfs path {showList np} has {np.length - 1} edges but a target is reachable with fewer"
          else
            let h := np.length - 1
            let nt := Reach.noShorterB g filt srcs tgts 2
            stt := { stt with maxhops := Nat.max stt.maxhops h, hops := stt.hops + h,
                              nontriv := stt.nontriv + (if nt then 1 else 0),
                              epfilt := stt.epfilt + (if ep.any filt then 1 else 0) }
        | _, _, _ => bad := some s!"run {j}: unparsable path line [{fl}]"
      | _ => bad := some s!"run {j}: expected exactly one path observation, got {fMain.length} ({" | ".intercalate (impl.take 6)})"
    else
      if !fMain.isEmpty then bad := some s!"run {j}: path observation without a found target"
      if !found && (C.any (fun x => !srcs.contains x)) then stt := { stt with nontriv := stt.nontriv + 1 }
    if bad.isSome then return (bad, stt)
    -- independence of earlier runs
    if reused then
      let strip (l : String) : String := l.replace " fresh" ""
      if dFresh.map strip != dMain || fFresh.map strip != fMain then
        bad := some s!"run {j}: result on the reused object differs from a fresh object: reused [{" | ".intercalate (dMain ++ fMain)}] fresh [{" | ".intercalate (dFresh ++ fFresh)}]"
    else if !dFresh.isEmpty || !fFresh.isEmpty then
      bad := some s!"run {j}: unexpected fresh-object observation"
  | _ =>
    bad := some s!"run {j}: expected exactly one found observation, got {dMain.length} ({" | ".intercalate (impl.take 6)})"
  return (bad, stt)

def handle (c : Case) : CaseOut := Id.run do
  -- parse
  let mut ops : Array Op := #[]
  let mut nodes := 0
  let mut edgesTotal := 0
  for l in c.ops do
    match words l with
    | "G" :: a :: ns :: ms :: rest =>
      let n := parseNat! ns
      let es := pairs (rest.map parseNat!)
      if es.length != parseNat! ms then return { model := #[], verdict := .skip "edge count does not match" }
      if a != "bfs" && a != "dfs" then return { model := #[], verdict := .skip "unknown algorithm" }
      -- domain of the property / of StaticGraph
      if !sortedBySource es then return { model := #[], verdict := .skip "edges not sorted by source (not a CSR order)" }
      let maxId := es.foldl (fun m (u, v) => Nat.max m (Nat.max u v)) 0
      if n != maxId + 1 then return { model := #[], verdict := .skip "n differs from StaticGraph::number_of_nodes" }
      nodes := nodes + n; edgesTotal := edgesTotal + es.length
      ops := ops.push (.graph a n es)
    | _ => match parseOp l with
      | some o => ops := ops.push o
      | none => return { model := #[], verdict := .skip s!"unparsable op '{l}'" }
  match ops[0]? with
  | some (.graph ..) => pure ()
  | _ => return { model := #[], verdict := .skip "case does not start with a graph" }
  -- ---------------- model run
  let mut out : Array String := #[]
  let mut objs : List Obj := []
  let mut k := 0
  let mut modelBad : Option String := none
  let mut gs : GState := {}
  for o in ops do
    let g := gs.g
    let n := gs.n
    let pop := gs.pop
    let isBfs := gs.isBfs
    match o with
    | .graph a n' es =>
      gs := { isBfs := a == "bfs", alg := a, n := n', m := es.length, adj := mkAdj n' es }
      objs := []
    | .new id srcs tgts =>
      match Search.new srcs tgts n with
      | some sr => objs := { id := id, sr := sr, srcs := srcs, tgts := tgts, runs := 0 } :: objs.filter (·.id != id)
      | none => modelBad := some "model panic in new"
    | .run id f =>
      match objs.find? (·.id == id) with
      | none => modelBad := some s!"run on unknown object {id}"
      | some ob =>
        match Search.runWith pop g (filtFn f) ob.sr with
        | .ok (b, sr') =>
          out := out ++ modelLines g (toString k) b sr'
          if ob.runs > 0 then
            match (Search.new ob.srcs ob.tgts n) with
            | some fr =>
              match Search.runWith pop g (filtFn f) fr with
              | .ok (b2, fr') => out := out ++ modelLines g s!"{k} fresh" b2 fr'
              | .fuel => modelBad := some "model-out-of-fuel"
              | .panic => modelBad := some "model panic in run"
            | none => modelBad := some "model panic in new"
          objs := objs.map fun x => if x.id == id then { x with sr := sr', runs := x.runs + 1 } else x
        | .fuel => modelBad := some "model-out-of-fuel"
        | .panic => modelBad := some "model panic in run"
      k := k + 1
    | .q srcs tgts f =>
      match (if isBfs then Search.bfsRun n g (filtFn f) srcs tgts else Search.dfsRun n g (filtFn f) srcs tgts) with
      | .ok (b, sr') => out := out ++ modelLines g (toString k) b sr'
      | .fuel => modelBad := some "model-out-of-fuel"
      | .panic => modelBad := some "model panic in q"
      k := k + 1
    | .rep id cnt f =>
      -- The model executes the run ONCE and replicates its answer for all `cnt` calls: by
      -- `Tbx.Props.C15.runs_independent_history` the flag, the parents, the worklist and the path views of a
      -- run do not depend on the history of earlier runs on the object, and a run that repeats the previous
      -- run's arguments leaves the object exactly as it was (`target` is rewritten with the same node or kept).
      -- The JUDGE does not use this: it decides every observed run and the count from the Spec alone.
      match objs.find? (·.id == id) with
      | none => modelBad := some s!"rep on unknown object {id}"
      | some ob =>
        if cnt == 0 then modelBad := some "rep 0"
        else
        match Search.runWith pop g (filtFn f) ob.sr with
        | .ok (b, sr') =>
          let obsN := repObserved cnt
          let freshLines : Option (Bool × Search.Searcher) :=
            match Search.new ob.srcs ob.tgts n with
            | some fr => match Search.runWith pop g (filtFn f) fr with
              | .ok r => some r
              | _ => none
            | none => none
          for i in [0:obsN] do
            out := out ++ modelLines g (toString (k + i)) b sr'
            if ob.runs + (cnt - obsN) + i > 0 then
              match freshLines with
              | some (b2, fr') => out := out ++ modelLines g s!"{k + i} fresh" b2 fr'
              | none => modelBad := some "model panic in fresh run"
          out := out.push s!"D r{k} n={cnt} true={if b then cnt else 0}"
          objs := objs.map fun x => if x.id == id then { x with sr := sr', runs := x.runs + cnt } else x
          k := k + obsN
        | .fuel => modelBad := some "model-out-of-fuel"
        | .panic => modelBad := some "model panic in run"
  -- ---------------- judge (Spec checkers on the implementation's lines)
  let mut verdict : Verdict := .ok
  let mut stt : Stats := {}
  let mut jobs : List (String × List Nat × List Nat × Nat) := []   -- id, srcs, tgts, runs so far
  let impl := c.impl.toList
  let mut j := 0
  gs := {}
  for o in ops do
    if !(verdict matches .ok) then break
    -- runs to judge individually: (srcs, tgts, filter, object was run before)
    let mut cur : List (List Nat × List Nat × Option (List Nat) × Bool) := []
    let mut repCheck : Option (Nat × List Nat × List Nat × Option (List Nat)) := none   -- N, srcs, tgts, filter
    let n := gs.n
    match o with
    | .graph a n' es =>
      gs := { isBfs := a == "bfs", alg := a, n := n', m := es.length, adj := mkAdj n' es }
      jobs := []
    | .new id srcs tgts =>
      if srcs.any (· ≥ n) || tgts.any (· ≥ n) then verdict := .skip "source or target out of range"
      else if srcs.any (tgts.contains ·) then verdict := .skip "sources and targets not disjoint"
      else jobs := (id, srcs, tgts, 0) :: jobs.filter (·.1 != id)
    | .run id f =>
      match jobs.find? (·.1 == id) with
      | none => verdict := .skip s!"run on unknown object {id}"
      | some (_, srcs, tgts, r) =>
        cur := [(srcs, tgts, f, r > 0)]
        stt := { stt with maxhist := Nat.max stt.maxhist (r + 1) }
        jobs := jobs.map fun x => if x.1 == id then (x.1, x.2.1, x.2.2.1, x.2.2.2 + 1) else x
    | .q srcs tgts f =>
      if srcs.any (· ≥ n) || tgts.any (· ≥ n) then verdict := .skip "source or target out of range"
      else if srcs.any (tgts.contains ·) then verdict := .skip "sources and targets not disjoint"
      else cur := [(srcs, tgts, f, false)]
    | .rep id cnt f =>
      match jobs.find? (·.1 == id) with
      | none => verdict := .skip s!"rep on unknown object {id}"
      | some (_, srcs, tgts, r) =>
        if cnt == 0 then verdict := .skip "rep 0"
        else
          let obsN := repObserved cnt
          cur := (List.range obsN).map fun i => (srcs, tgts, f, r + (cnt - obsN) + i > 0)
          repCheck := some (cnt, srcs, tgts, f)
          stt := { stt with silent := stt.silent + (cnt - obsN), maxhist := Nat.max stt.maxhist (r + cnt) }
          jobs := jobs.map fun x => if x.1 == id then (x.1, x.2.1, x.2.2.1, x.2.2.2 + cnt) else x
    if !(verdict matches .ok) then break
    let j0 := j
    for (srcs, tgts, f, reused) in cur do
      if !(verdict matches .ok) then break
      let (bad, stt') := judgeRun impl gs j srcs tgts f reused stt
      stt := stt'
      match bad with
      | some w => verdict := .fail w
      | none => pure ()
      j := j + 1
    if !(verdict matches .ok) then break
    match repCheck with
    | none => pure ()
    | some (cnt, srcs, tgts, f) =>
      -- every one of the `cnt` calls must have returned what the Spec says for this (graph, filter, S, T)
      let filt := filtFn f
      let C := closingBall gs.g filt srcs gs.n
      let expected := tgts.isEmpty || (Reach.closedB gs.g filt C && Reach.anyTargetIn C tgts)
      match impl.filter (fun l => l.startsWith s!"D r{j0} ") with
      | [l] =>
        let want := if expected then cnt else 0
        if field l "n" != some (toString cnt) || field l "true" != some (toString want) then
          verdict := .fail (s!"rep at run {j0}: {cnt} identical {gs.alg} runs on one object, each must return {expected} " ++
            s!"(sources {showList srcs} targets {showList tgts} filter {showList (f.getD [])}), but the implementation reports [{l}]")
      | ls => verdict := .fail s!"rep at run {j0}: expected exactly one count observation, got {ls.length} ({" | ".intercalate (impl.take 8)})"
  if (verdict matches .ok) then
    match modelBad with
    | some w => verdict := .fail s!"{w} on an in-domain case"
    | none => pure ()
  return { model := out, verdict := verdict,
           stats := [("nontrivial", bit (stt.nontriv ≥ 1)), ("runs", toString stt.runs), ("found", toString stt.found),
                     ("notfound", toString stt.notfound), ("emptytargets", toString stt.emptyT),
                     ("reuse", toString stt.reuse), ("filtered", toString stt.filtered),
                     ("nontrivruns", toString stt.nontriv), ("hops", toString stt.hops),
                     ("maxhops", toString stt.maxhops), ("explored", toString stt.explored),
                     ("epfiltered", toString stt.epfilt), ("silentruns", toString stt.silent),
                     ("maxhistory", toString stt.maxhist), ("nodes", toString nodes), ("edges", toString edgesTotal)] }

end Tbx.Drv.C15
