import Tbx.Drv.Common
import Tbx.Model.LruL0
import Tbx.Model.LruL1
/-
Driver for C11 (LRU cache and the cursor list underneath).  Values are tokens (natural numbers
handed out in order of creation); the Rust side counts how often each token's destructor ran.

Two kinds of case, chosen by the header line:

  L <cap> <nkeys>        LRU<i32,Token>; universe of observed keys 0..nkeys-1
     ops:  push k | get k | has k | front | fset | clear | len
     after the ops the executor and the driver both append `cap` pushes of fresh keys 1000,1001,…
     (labels p0,p1,…): evictions reveal the complete recency order and the stored values.
  LL <drain>             LinkedList<Token> driven directly; cursor i = result of the i-th `pf`
     ops:  pf | mtf i | pb | gf | gfm | len | clear
     drain=1: after the ops the list is emptied by `pb` until it answers none (labels d0,d1,…).

obs, one pair per op (label = op index, or p<i>/d<i>):
  D <label> r=<result> len=<n> C=<contains bits over the universe> fr=<key:tok|none>     (L)
  D <label> r=<result> len=<n> fr=<tok|none>                                             (LL)
  F <label> dr=<tokens whose destructor ran during this op, sorted; tok*N if N times; - if none>
then the container is dropped:
  F end dr=…
  D end ntok=<n> drops=<destructor count of token 0,1,…,n-1>
The moment a destructor runs is not fixed by the property (only: never while the value is still
stored, never twice, exactly once at the end), hence the F class.
-/
namespace Tbx.Drv.C11
open Tbx Tbx.Drv Tbx.LruL1

abbrev Tok := Nat

def bit (b : Bool) : String := if b then "1" else "0"
def joinWith (sep : String) (xs : List String) : String := sep.intercalate xs

def errS : Err → String
  | .uaf a => s!"UAF(freed:{a})"
  | .wild a => s!"UAF(never-allocated:{a})"
  | .unwrapNone => "unwrap-none"
  | .assertFail => "assert-fail"
  | .underflow => "underflow"
  | .outOfFuel => "model-out-of-fuel"

def insertSorted (x : Nat) : List Nat → List Nat
  | [] => [x]
  | y :: r => if x ≤ y then x :: y :: r else y :: insertSorted x r
def sortNat (l : List Nat) : List Nat := l.foldr insertSorted []

/-- "3,5*2,9" from a list of dropped tokens -/
def renderDr (l : List Tok) : String :=
  let s := sortNat l
  let rec go : List Nat → List (Nat × Nat) → List (Nat × Nat)
    | [], acc => acc.reverse
    | x :: r, (y, n) :: acc => if x = y then go r ((y, n + 1) :: acc) else go r ((x, 1) :: (y, n) :: acc)
    | x :: r, [] => go r [(x, 1)]
  let g := go s []
  if g.isEmpty then "-" else joinWith "," (g.map fun (t, n) => if n = 1 then toString t else s!"{t}*{n}")

/-- inverse of `renderDr`, as (token, multiplicity) pairs (multiplicities are never expanded: a
    corrupted run may report absurd ones) -/
def parseDr (s : String) : Option (List (Tok × Nat)) :=
  if s == "-" then some [] else
  (s.splitOn ",").foldlM (fun acc w =>
    match w.splitOn "*" with
    | [t] => t.toNat?.map fun t => acc ++ [(t, 1)]
    | [t, n] => match t.toNat?, n.toNat? with
      | some t, some n => some (acc ++ [(t, n)])
      | _, _ => none
    | _ => none) []

def field (line key : String) : Option String :=
  (words line).findSome? fun w => if w.startsWith (key ++ "=") then some (w.drop (key.length + 1)).toString else none

def label (line : String) : String := (words line).getD 1 ""

def optTok : Option Tok → String
  | some t => toString t
  | none => "none"
def entryS : Option (Int × Tok) → String
  | some (k, t) => s!"{k}:{t}"
  | none => "none"

/-! ## LRU cases -/

inductive LOp where
  | push (k : Int) | get (k : Int) | has (k : Int) | front | fset | clear | len
deriving Repr, Inhabited

def parseLOp (l : String) : Option LOp :=
  match words l with
  | ["push", k] => (parseInt? k).map .push
  | ["get", k] => (parseInt? k).map .get
  | ["has", k] => (parseInt? k).map .has
  | ["front"] => some .front
  | ["fset"] => some .fset
  | ["clear"] => some .clear
  | ["len"] => some .len
  | _ => none

def renderLD (lab r : String) (len : Nat) (cbits : String) (fr : Option (Int × Tok)) : String :=
  s!"D {lab} r={r} len={len} C={cbits} fr={entryS fr}"

def countsLine (ntok : Nat) (dropped : List Tok) : String :=
  let cnt := dropped.foldl (fun (a : Array Nat) t => if t < a.size then a.set! t (a[t]! + 1) else a) (Array.replicate ntok 0)
  s!"D end ntok={ntok} drops={joinWith "," (cnt.toList.map toString)}"

structure LStats where
  pushNew : Nat := 0
  pushHit : Nat := 0
  evict : Nat := 0
  getHit : Nat := 0
  getMiss : Nat := 0
  reorder : Nat := 0          -- hit on an entry that was not at the front (the order changed)
  reorderLive : Bool := false -- a reorder happened since the last clear
  evAfterReorder : Nat := 0
  clear : Nat := 0
  fset : Nat := 0
  maxLen : Nat := 0

/-- executable well-formedness of an L1 list: walk from the front along `prev`, check the
    back-links, `back`, `len`, and that exactly the walked cells are live.  (The proved invariant
    is `Tbx.LruL1.WF`; this is a run-time net under the driver.) -/
def wfWalk {T : Type} (s : LL T) : Bool := Id.run do
  let mut cur := s.front
  let mut towardsFront : Option Nat := none
  let mut n := 0
  let mut last : Option Nat := none
  let mut ok := true
  for _ in [0:s.mem.cells.size + 1] do
    match cur with
    | none => break
    | some a =>
      match gt s.mem.cells a with
      | none => ok := false; cur := none
      | some nd =>
        if nd.next != towardsFront then ok := false
        n := n + 1
        last := some a
        towardsFront := some a
        cur := nd.prev
  let live := s.mem.cells.foldl (fun c x => if x.isSome then c + 1 else c) 0
  return ok && cur.isNone && last == s.back && n == s.len && live == n &&
    s.mem.freed.length + live == s.mem.cells.size

def runLru (c : Case) (cap nkeys : Nat) (ops : Array LOp) : CaseOut := Id.run do
  let U : List Int := (List.range nkeys).map Int.ofNat
  let all : Array (String × LOp) :=
    (ops.mapIdx fun i o => (toString i, o)) ++ ((Array.range cap).map fun i => (s!"p{i}", LOp.push (1000 + Int.ofNat i)))
  -- ---------------- model (L1)
  let mut out : Array String := #[]
  let mut stt : LStats := {}
  let mut modelErr : Option String := none
  let mut wfBad := 0
  match (Lru.new cap : Except Err (Lru Int Tok)) with
  | .error e => modelErr := some (errS e)
  | .ok s0 =>
    let mut s := s0
    let mut ntok := 0
    for (lab, o) in all do
      if modelErr.isSome then break
      let before := s.dropped.length
      let mut r := "-"
      let res : Except Err (Lru Int Tok) := do
        match o with
        | .push k => Lru.push s k ntok
        | .get k => let (s', _) ← Lru.get s k; pure s'
        | .has _ | .front | .len => pure s
        | .fset => if (← Lru.isEmpty s) then pure s else let (s', _) ← Lru.setFront s ntok; pure s'
        | .clear => Lru.clear s
      -- results and statistics are taken from the state before the op
      match o with
      | .push k =>
        match s.amap.get k with
        | some h =>
          let moved := s.list.front != some h
          stt := { stt with pushHit := stt.pushHit + 1, reorder := stt.reorder + (if moved then 1 else 0),
                            reorderLive := stt.reorderLive || moved }
        | none =>
          let ev := s.amap.len == s.cap
          stt := { stt with pushNew := stt.pushNew + 1, evict := stt.evict + (if ev then 1 else 0),
                            evAfterReorder := stt.evAfterReorder + (if ev && stt.reorderLive then 1 else 0) }
        ntok := ntok + 1
      | .get k =>
        match Lru.get s k with
        | .ok (_, v) => r := optTok v
        | .error _ => pure ()
        match s.amap.get k with
        | some h =>
          let moved := s.list.front != some h
          stt := { stt with getHit := stt.getHit + 1, reorder := stt.reorder + (if moved then 1 else 0),
                            reorderLive := stt.reorderLive || moved }
        | none => stt := { stt with getMiss := stt.getMiss + 1 }
      | .has k => r := bit (Lru.contains s k)
      | .front =>
        match Lru.getFront s with
        | .ok e => r := entryS e
        | .error e => modelErr := some (errS e)
      | .fset =>
        match Lru.isEmpty s with
        | .ok true => r := "none"
        | .ok false =>
          match Lru.setFront s ntok with
          | .ok (_, e) => r := entryS e
          | .error _ => pure ()
          ntok := ntok + 1
          stt := { stt with fset := stt.fset + 1 }
        | .error _ => pure ()
      | .clear => stt := { stt with clear := stt.clear + 1, reorderLive := false }
      | .len =>
        match Lru.len s with
        | .ok n => r := toString n
        | .error e => modelErr := some (errS e)
      match res with
      | .error e => modelErr := some (errS e)
      | .ok s' =>
        s := s'
        if !(wfWalk s.list) then wfBad := wfBad + 1
        match Lru.len s, Lru.getFront s with
        | .ok n, .ok fr =>
          stt := { stt with maxLen := Nat.max stt.maxLen n }
          out := out.push (renderLD lab r n (String.join (U.map fun k => bit (Lru.contains s k))) fr)
          out := out.push s!"F {lab} dr={renderDr (s.dropped.drop before)}"
        | .error e, _ => modelErr := some (errS e)
        | _, .error e => modelErr := some (errS e)
    if modelErr.isNone then
      let before := s.dropped.length
      match Lru.drop s with
      | .error e => modelErr := some (errS e)
      | .ok s' =>
        out := out.push s!"F end dr={renderDr (s'.dropped.drop before)}"
        out := out.push (countsLine ntok s'.dropped)
        -- freed_once, observed: every allocated cell is freed, each address once
        let m := s'.list.mem
        if !(m.cells.all (·.isNone) && m.freed.length == m.cells.size && (sortNat m.freed) == List.range m.cells.size) then
          wfBad := wfBad + 1
  match modelErr with
  | some e => out := out.push s!"D ERR model:{e}"
  | none => pure ()
  -- ---------------- judge (L0 recency list applied to the I lines)
  let implD := c.impl.filter (·.startsWith "D ")
  let implF := c.impl.filter (·.startsWith "F ")
  let mut verdict : Verdict := .ok
  if cap = 0 then verdict := .skip "capacity 0 (the property quantifies over capacities >= 1)"
  let mut q : LruL0.Cache Int Tok := LruL0.init cap
  let mut ntok := 0
  let mut dropCount : Array Nat := #[]
  let mut j := 0
  for (lab, o) in all do
    if !(verdict matches .ok) then break
    let dl := implD.getD j ""
    let fl := implF.getD j ""
    if dl == "" || fl == "" || label dl != lab || label fl != lab then
      verdict := .fail s!"op {lab}: implementation produced no observation ({joinWith " | " (c.impl.toList.drop (2 * j) |>.take 3)})"
      break
    let mut r := "-"
    match o with
    | .push k => q := LruL0.push q k ntok; ntok := ntok + 1
    | .get k => let g := LruL0.get q k; q := g.1; r := optTok g.2
    | .has k => r := bit (LruL0.contains q k)
    | .front => r := entryS (LruL0.getFront q)
    | .fset =>
      if LruL0.isEmpty q then r := "none"
      else
        let g := LruL0.setFront q ntok
        q := g.1; r := entryS g.2; ntok := ntok + 1
    | .clear => q := LruL0.clear q
    | .len => r := toString (LruL0.len q)
    let exp := renderLD lab r (LruL0.len q) (String.join (U.map fun k => bit (LruL0.contains q k))) (LruL0.getFront q)
    if exp != dl then
      verdict := .fail s!"op {lab}: differs from the recency-list specification: expected [{exp}] got [{dl}]"
      break
    -- destructor runs during this op: never of a stored value, never a second time
    while dropCount.size < ntok do dropCount := dropCount.push 0
    match (field fl "dr").bind parseDr with
    | none => verdict := .fail s!"op {lab}: unparsable drop record [{fl}]"
    | some ds =>
      for (t, n) in ds do
        if !(verdict matches .ok) then break
        if t ≥ ntok then verdict := .fail s!"op {lab}: destructor of a token that does not exist yet ({t})"
        else
          dropCount := dropCount.set! t (dropCount[t]! + n)
          if dropCount[t]! > 1 then verdict := .fail s!"op {lab}: value {t} dropped {dropCount[t]!} times"
          else if q.items.any (fun p => p.2 == t) then
            verdict := .fail s!"op {lab}: value {t} dropped while it is still stored in the cache"
    j := j + 1
  if verdict matches .ok then
    let fl := implF.getD j ""
    let dl := implD.getD j ""
    if label fl != "end" || label dl != "end" then
      verdict := .fail s!"drop of the cache produced no observation ({joinWith " | " (c.impl.toList.drop (2 * j) |>.take 3)})"
    else
      let exp := countsLine ntok (List.range ntok)
      if dl != exp then
        verdict := .fail s!"after dropping the cache not every value was dropped exactly once: expected [{exp}] got [{dl}]"
      else
        -- the per-op records must add up to the final counts
        match (field fl "dr").bind parseDr with
        | none => verdict := .fail s!"unparsable drop record [{fl}]"
        | some ds =>
          for (t, n) in ds do
            if t < dropCount.size then dropCount := dropCount.set! t (dropCount[t]! + n)
          if dropCount.toList != List.replicate ntok 1 then
            verdict := .fail s!"per-operation drop records do not add up to one drop per value: {dropCount.toList}"
  if (verdict matches .ok) then
    if let some e := modelErr then
      verdict := .fail s!"model reached an error branch on an in-domain history: {e} (model/spec mismatch)"
    else if wfBad > 0 then
      verdict := .fail s!"model state violated list well-formedness / freed-once {wfBad} times (model defect)"
  let nontrivial := stt.evAfterReorder ≥ 1
  return { model := out, verdict := verdict,
           stats := [("nontrivial", bit nontrivial), ("kind", "lru"), ("ops", toString ops.size),
                     ("pushnew", toString stt.pushNew), ("pushhit", toString stt.pushHit),
                     ("evict", toString stt.evict), ("gethit", toString stt.getHit), ("getmiss", toString stt.getMiss),
                     ("reorder", toString stt.reorder), ("evafterreorder", toString stt.evAfterReorder),
                     ("clear", toString stt.clear), ("fset", toString stt.fset), ("maxlen", toString stt.maxLen)] }

/-! ## direct list cases -/

inductive QOp where
  | pf | mtf (i : Nat) | pb | gf | gfm | len | clear
deriving Repr, Inhabited

def parseQOp (l : String) : Option QOp :=
  match words l with
  | ["pf"] => some .pf
  | ["mtf", i] => i.toNat?.map .mtf
  | ["pb"] => some .pb
  | ["gf"] => some .gf
  | ["gfm"] => some .gfm
  | ["len"] => some .len
  | ["clear"] => some .clear
  | _ => none

def renderQD (lab r : String) (len : Nat) (fr : Option Tok) : String :=
  s!"D {lab} r={r} len={len} fr={optTok fr}"

structure QStats where
  pf : Nat := 0
  mtfFront : Nat := 0
  mtfBack : Nat := 0
  mtfMid : Nat := 0
  moved : Bool := false
  pbSome : Nat := 0
  pbNone : Nat := 0
  popAfterMove : Nat := 0
  clear : Nat := 0
  maxLen : Nat := 0

def runList (c : Case) (drain : Bool) (ops : Array QOp) : CaseOut := Id.run do
  -- ---------------- judge first (its final length fixes the number of drain pops)
  let implD := c.impl.filter (·.startsWith "D ")
  let implF := c.impl.filter (·.startsWith "F ")
  let mut verdict : Verdict := .ok
  let mut q : LruL0.AList.L Tok := []
  let mut ncur := 0
  let mut ntok := 0
  let mut dropCount : Array Nat := #[]
  let mut j := 0
  let mut all : Array (String × QOp) := ops.mapIdx fun i o => (toString i, o)
  -- the drain phase is appended while judging, as long as the specification list is non-empty
  let mut drainLeft := 0
  let mut drainIdx := 0
  let mut phaseOps := true
  let mut guard := 0
  while (verdict matches .ok) && guard < ops.size * 2 + 16 do
    guard := guard + 1
    if j ≥ all.size then
      if phaseOps then
        phaseOps := false
        if drain then drainLeft := q.length + 1
      if drainLeft = 0 then break
      all := all.push (s!"d{drainIdx}", QOp.pb)
      drainIdx := drainIdx + 1
      drainLeft := drainLeft - 1
    let (lab, o) := all[j]!
    -- the property's quantifier
    match o with
    | .mtf i =>
      if !(q.any fun p => p.1 == i) then
        verdict := .skip s!"op {lab}: move_to_front with the cursor of a node that is not in the list (documented misuse)"
    | .gf | .gfm => if q.isEmpty then verdict := .skip s!"op {lab}: get_front on an empty list (panics by contract)"
    | _ => pure ()
    if !(verdict matches .ok) then break
    let dl := implD.getD j ""
    let fl := implF.getD j ""
    if dl == "" || fl == "" || label dl != lab || label fl != lab then
      verdict := .fail s!"op {lab}: implementation produced no observation ({joinWith " | " (c.impl.toList.drop (2 * j) |>.take 3)})"
      break
    let mut r := "-"
    match o with
    | .pf => q := LruL0.AList.pushFront q ncur ntok; ncur := ncur + 1; ntok := ntok + 1
    | .mtf i => q := LruL0.AList.moveToFront q i
    | .pb => let g := LruL0.AList.popBack q; q := g.1; r := optTok g.2
    | .gf => r := optTok (LruL0.AList.front q)
    | .gfm => r := optTok (LruL0.AList.front q); q := LruL0.AList.setFront q ntok; ntok := ntok + 1
    | .len => r := toString q.length
    | .clear => q := []
    let exp := renderQD lab r q.length (LruL0.AList.front q)
    if exp != dl then
      verdict := .fail s!"op {lab}: differs from the abstract list: expected [{exp}] got [{dl}]"
      break
    while dropCount.size < ntok do dropCount := dropCount.push 0
    match (field fl "dr").bind parseDr with
    | none => verdict := .fail s!"op {lab}: unparsable drop record [{fl}]"
    | some ds =>
      for (t, n) in ds do
        if !(verdict matches .ok) then break
        if t ≥ ntok then verdict := .fail s!"op {lab}: destructor of a token that does not exist yet ({t})"
        else
          dropCount := dropCount.set! t (dropCount[t]! + n)
          if dropCount[t]! > 1 then verdict := .fail s!"op {lab}: value {t} dropped {dropCount[t]!} times"
          else if q.any (fun p => p.2 == t) then
            verdict := .fail s!"op {lab}: value {t} dropped while it is still stored in the list"
    j := j + 1
  if verdict matches .ok then
    let fl := implF.getD j ""
    let dl := implD.getD j ""
    if label fl != "end" || label dl != "end" then
      verdict := .fail s!"drop of the list produced no observation ({joinWith " | " (c.impl.toList.drop (2 * j) |>.take 3)})"
    else
      let exp := countsLine ntok (List.range ntok)
      if dl != exp then
        verdict := .fail s!"after dropping the list not every value was dropped exactly once: expected [{exp}] got [{dl}]"
      else
        match (field fl "dr").bind parseDr with
        | none => verdict := .fail s!"unparsable drop record [{fl}]"
        | some ds =>
          for (t, n) in ds do
            if t < dropCount.size then dropCount := dropCount.set! t (dropCount[t]! + n)
          if dropCount.toList != List.replicate ntok 1 then
            verdict := .fail s!"per-operation drop records do not add up to one drop per value: {dropCount.toList}"
  -- ---------------- model (L1); the drain phase pops until the model list answers none
  let mut out : Array String := #[]
  let mut stt : QStats := {}
  let mut modelErr : Option String := none
  let mut wfBad := 0
  let mut s : LL Tok := LL.new
  let mut cursors : Array Nat := #[]
  let mut mtok := 0
  let mut dropped : List Tok := []
  let mut k := 0
  let mut dIdx := 0
  let mut inDrain := false
  let mut fin := false
  let mut guard2 := 0
  while !fin && modelErr.isNone && guard2 < ops.size * 2 + 16 do
    guard2 := guard2 + 1
    let mut lab := toString k
    let mut o : QOp := .len
    if k < ops.size then
      o := ops[k]!
    else if drain then
      inDrain := true
      lab := s!"d{dIdx}"; o := .pb; dIdx := dIdx + 1
    else
      fin := true
    if fin then break
    k := k + 1
    let before := dropped.length
    let mut r := "-"
    match o with
    | .pf =>
      match LL.pushFront s mtok with
      | .ok (s', cur) => s := s'; cursors := cursors.push cur; mtok := mtok + 1; stt := { stt with pf := stt.pf + 1 }
      | .error e => modelErr := some (errS e)
    | .mtf i =>
      if i ≥ cursors.size then modelErr := some "cursor-not-created-yet"
      else
        let b := cursors[i]!
        if s.front == some b then stt := { stt with mtfFront := stt.mtfFront + 1 }
        else if s.back == some b then stt := { stt with mtfBack := stt.mtfBack + 1, moved := true }
        else stt := { stt with mtfMid := stt.mtfMid + 1, moved := true }
        match LL.moveToFront s b with
        | .ok s' => s := s'
        | .error e => modelErr := some (errS e)
    | .pb =>
      match LL.popBack s with
      | .ok (s', some t) =>
        s := s'; r := toString t; dropped := dropped ++ [t]
        stt := { stt with pbSome := stt.pbSome + 1, popAfterMove := stt.popAfterMove + (if stt.moved then 1 else 0) }
      | .ok (s', none) =>
        s := s'; r := "none"; stt := { stt with pbNone := stt.pbNone + 1 }
        if inDrain then fin := true
      | .error e => modelErr := some (errS e)
    | .gf =>
      match LL.getFront s with
      | .ok t => r := toString t
      | .error e => modelErr := some (errS e)
    | .gfm =>
      match LL.setFront s mtok with
      | .ok (s', old) => s := s'; r := toString old; dropped := dropped ++ [old]; mtok := mtok + 1
      | .error e => modelErr := some (errS e)
    | .len => r := toString (LL.length s)
    | .clear =>
      match LL.clear s with
      | .ok (s', popped) => s := s'; dropped := dropped ++ popped; stt := { stt with clear := stt.clear + 1, moved := false }
      | .error e => modelErr := some (errS e)
    if modelErr.isSome then break
    if !(wfWalk s) then wfBad := wfBad + 1
    stt := { stt with maxLen := Nat.max stt.maxLen s.len }
    let fr : Option Tok := if s.len = 0 then none else match LL.getFront s with | .ok t => some t | .error _ => none
    out := out.push (renderQD lab r s.len fr)
    out := out.push s!"F {lab} dr={renderDr (dropped.drop before)}"
  if modelErr.isNone then
    match LL.drop s with
    | .error e => modelErr := some (errS e)
    | .ok (s', popped) =>
      out := out.push s!"F end dr={renderDr popped}"
      out := out.push (countsLine mtok (dropped ++ popped))
      let m := s'.mem
      if !(m.cells.all (·.isNone) && m.freed.length == m.cells.size && (sortNat m.freed) == List.range m.cells.size) then
        wfBad := wfBad + 1
  match modelErr with
  | some e => out := out.push s!"D ERR model:{e}"
  | none => pure ()
  if (verdict matches .ok) then
    if let some e := modelErr then
      verdict := .fail s!"model reached an error branch on an in-domain history: {e} (model/spec mismatch)"
    else if wfBad > 0 then
      verdict := .fail s!"model state violated list well-formedness / freed-once {wfBad} times (model defect)"
  let nontrivial := stt.popAfterMove ≥ 1
  return { model := out, verdict := verdict,
           stats := [("nontrivial", bit nontrivial), ("kind", "list"), ("ops", toString ops.size),
                     ("pf", toString stt.pf), ("mtffront", toString stt.mtfFront), ("mtfback", toString stt.mtfBack),
                     ("mtfmid", toString stt.mtfMid), ("pbsome", toString stt.pbSome), ("pbnone", toString stt.pbNone),
                     ("popaftermove", toString stt.popAfterMove), ("lclear", toString stt.clear),
                     ("lmaxlen", toString stt.maxLen)] }

/-! ### bulk cases: closed form of the recency-list specification

After pushing the distinct keys 0..n-1 (value = key) into an empty cache of capacity cap ≥ 1 the specification
(`Tbx.LruL0`: a new key at full capacity removes exactly the least recently used entry) leaves the last
m = min n cap keys, most recent first; `get` does not change membership; `clear` empties the cache; every value
is dropped exactly once by the time the cache is gone.  The cases are far too long for the list-based models
(10^6 entries); the lines below are that closed form. -/

def bulkSamples (cap n : Nat) : List Nat :=
  let b := n - cap
  let v := [0, 1, b - 1, b, b + 1, n / 2, n - 2, n - 1, n, n + 1]
  (sortNat v).eraseDups

def bulkLines (cap n : Nat) (clear : Bool) : Array String :=
  let m := min n cap
  let has (k : Nat) : Bool := decide (k < n ∧ n - m ≤ k)
  let keys := bulkSamples cap n
  let fr := if n = 0 then "none" else s!"{n-1}:{n-1}"
  let a : Array String := #[s!"D bulk len={m} empty={if m = 0 then 1 else 0}",
    s!"D bulk has={String.join (keys.map fun k => bit (has k))} front={fr}",
    s!"D bulk get={joinWith "," (keys.map fun k => if has k then toString k else "none")} len={m}",
    s!"F bulk evicted sum={n - m} min={if n = m then 0 else 0} max={if n > m then 1 else 0}"]
  let a := if clear then
      (a.push "D bulk cleared len=0 empty=1").push s!"F bulk cleared sum={n} min={if n = 0 then 0 else 1} max={if n = 0 then 0 else 1}"
        |>.push "D bulk reuse len=1 has=1"
    else a
  let tot := n + (if clear then 1 else 0)
  a.push s!"D bulk end sum={tot} min={if tot = 0 then 0 else 1} max={if tot = 0 then 0 else 1}"

def bulkListLines (n : Nat) (clear : Bool) : Array String :=
  let a : Array String := #[s!"D bulk len={n} front={if n = 0 then "none" else toString (n-1)}"]
  let a := if clear then a.push "D bulk cleared len=0" else a
  a.push s!"D bulk end sum={n} min={if n = 0 then 0 else 1} max={if n = 0 then 0 else 1}"

def judgeBulk (c : Case) (expected : Array String) : CaseOut :=
  let dExp := expected.toList.filter (·.startsWith "D ")
  let dGot := c.impl.toList.filter (·.startsWith "D ")
  let verdict : Verdict :=
    if dGot == dExp then .ok
    else
      let bad := (dExp.zip (dGot ++ List.replicate dExp.length "<missing>")).find? fun (e, g) => e != g
      match bad with
      | some (e, g) => .fail s!"bulk history differs from the recency-list specification: expected [{e}] got [{g}] ({" | ".intercalate (c.impl.toList.take 3)})"
      | none => .fail s!"bulk history: unexpected extra observations {dGot.drop dExp.length}"
  { model := expected, verdict := verdict, stats := [("nontrivial", "1"), ("bulk", "1")] }

def handle (c : Case) : CaseOut :=
  match (c.ops.toList.head?).map words with
  | some ["B", cap, n, cl] =>
    if parseNat! cap = 0 then { model := #[], verdict := .skip "capacity 0" }
    else judgeBulk c (bulkLines (parseNat! cap) (parseNat! n) (cl == "1"))
  | some ["BL", n, cl] => judgeBulk c (bulkListLines (parseNat! n) (cl == "1"))
  | some ["L", cap, nk] =>
    match (c.ops.toList.drop 1).mapM parseLOp with
    | some ops => runLru c (parseNat! cap) (parseNat! nk) ops.toArray
    | none => { model := #[], verdict := .skip "unparsable op" }
  | some ["LL", d] =>
    match (c.ops.toList.drop 1).mapM parseQOp with
    | some ops => runList c (d == "1") ops.toArray
    | none => { model := #[], verdict := .skip "unparsable op" }
  | _ => { model := #[], verdict := .skip "no header line (L <cap> <nkeys> | LL <drain>)" }

end Tbx.Drv.C11
