import Tbx.Spec.Hierarchy
/-
Reference bisection for the C05/C06 judge: "the best bisection of a cell" computed WITHOUT the model
(no `Tbx.InertialFlow`, no Dinic, no renumbering table, no `flowCmp`).  Core Lean only, array based.

For one axis:
  * the cell's ids in ascending order of the axis key (keys are pairwise distinct in the property's domain,
    the driver checks that), S = the first k, T = the last k;
  * unit-capacity network: S contracted to node 0, T to node 1, every other end point of an edge its own
    node, one arc per edge (loops dropped);
  * maximum flow by shortest augmenting paths (plain BFS, one unit per path), stopped once it exceeds `limit`;
  * left = the cell nodes that the final BFS from node 0 reaches in the residual network (the inclusion
    minimal minimum cut), right = the other cell nodes that were contracted or touched by an edge.
Every result is certified before it is used (`certify`, O(arcs)): arc flows are 0/1 and conserved at inner
nodes, the value is the net outflow of node 0, the reached set contains 0, not 1, no residual arc leaves it
(so value = capacity of that cut: maximum flow = minimum cut by weak duality), and every reached node has a
residual tree arc from an earlier reached node (so the set is exactly what is reachable).

`best`: the property's sentence — minimum cut over the four axes, ties broken by better balance
(min(|L|,|R|)/(|L|+|R|), compared exactly), then lower axis; axes whose cut exceeds the cell's node count do
not take part (the shared upper bound of the implementation), and a cell none of whose axes qualifies is
left unsplit (outside the property's domain; the driver reports it).
-/
namespace Tbx.Drv.ChipperRef
open Tbx.Hierarchy

def NIL : Nat := 1000000000000

def axisKeyRef (axis : Nat) (lat lon : Int) : Int :=
  match axis with
  | 0 => lat
  | 1 => lon
  | 2 => lat + lon
  | _ => lat - lon

structure Net where
  nV    : Nat
  src   : Array Nat        -- tail of arc a
  dst   : Array Nat        -- head of arc a
  cap   : Array Nat        -- residual capacity of arc a; arcs 2i (forward, cap 1) and 2i+1 (backward, cap 0)
  head  : Array Nat        -- first arc leaving a node (linked list through `next`)
  next  : Array Nat
deriving Inhabited

/-- node labels (global id -> network node) and the network of a cell -/
def buildNet (nGlobal : Nat) (edges : List Edge) (sorted : Array Nat) (k : Nat) : Array Nat × Net := Id.run do
  let n := sorted.size
  let mut label : Array Nat := Array.replicate nGlobal NIL
  for i in [0:k] do
    label := label.setIfInBounds sorted[i]! 0
  for i in [n - k:n] do
    label := label.setIfInBounds sorted[i]! 1
  let mut cur := 2
  for e in edges do
    if label.getD e.1 NIL == NIL then
      label := label.setIfInBounds e.1 cur
      cur := cur + 1
    if label.getD e.2 NIL == NIL then
      label := label.setIfInBounds e.2 cur
      cur := cur + 1
  let mut src : Array Nat := #[]
  let mut dst : Array Nat := #[]
  let mut cap : Array Nat := #[]
  let mut head : Array Nat := Array.replicate cur NIL
  let mut next : Array Nat := #[]
  for e in edges do
    let u := label.getD e.1 NIL
    let v := label.getD e.2 NIL
    if u != v && u < cur && v < cur then
      let a := src.size
      src := (src.push u).push v
      dst := (dst.push v).push u
      cap := (cap.push 1).push 0
      next := (next.push head[u]!).push head[v]!
      head := (head.set! u a).set! v (a + 1)
  return (label, { nV := cur, src := src, dst := dst, cap := cap, head := head, next := next })

/-- BFS from node 0 over arcs with positive residual capacity: (arc by which a node was reached, discovery order) -/
def bfs (net : Net) : Array Nat × Array Nat := Id.run do
  let mut prev : Array Nat := Array.replicate net.nV NIL
  let mut ord : Array Nat := Array.replicate net.nV NIL
  let mut queue : Array Nat := #[0]
  ord := ord.setIfInBounds 0 0
  let mut qh := 0
  for _ in [0:net.nV + 1] do
    if qh ≥ queue.size then break
    let u := queue[qh]!
    qh := qh + 1
    let mut a := net.head.getD u NIL
    for _ in [0:net.src.size + 1] do
      if a == NIL then break
      let v := net.dst[a]!
      if net.cap[a]! > 0 && ord[v]! == NIL then
        ord := ord.set! v queue.size
        prev := prev.set! v a
        queue := queue.push v
      a := net.next[a]!
  return (prev, ord)

/-- push one unit along the tree path to node 1 -/
def augment (net : Net) (prev : Array Nat) : Net := Id.run do
  let mut cap := net.cap
  let mut v := 1
  for _ in [0:net.nV + 1] do
    if v == 0 then break
    let a := prev.getD v NIL
    if a == NIL then break
    cap := cap.set! a (cap[a]! - 1)
    let b := if a % 2 == 0 then a + 1 else a - 1
    cap := cap.set! b (cap[b]! + 1)
    v := net.src[a]!
  return { net with cap := cap }

/-- (flow, final network, last BFS); the loop stops as soon as the flow exceeds `limit` -/
def maxFlow (net0 : Net) (limit : Nat) : Nat × Net × Array Nat × Array Nat := Id.run do
  let mut net := net0
  let mut flow := 0
  let mut res := bfs net
  for _ in [0:net0.src.size + 2] do
    if res.2.getD 1 NIL == NIL then break
    if flow > limit then break
    net := augment net res.1
    flow := flow + 1
    res := bfs net
  return (flow, net, res.1, res.2)

/-- the certificate described in the header; `true` = the flow is maximum and `ord ≠ NIL` marks exactly the
    minimal minimum cut -/
def certify (net : Net) (flow : Nat) (prev ord : Array Nat) : Bool := Id.run do
  let nA := net.src.size
  if net.nV < 2 then return false
  let seen := fun (v : Nat) => ord.getD v NIL != NIL
  if !seen 0 || seen 1 then return false
  let mut out : Array Int := Array.replicate net.nV 0
  let mut ok := true
  for i in [0:nA / 2] do
    let f := net.cap[2 * i + 1]!
    if net.cap[2 * i]! + f != 1 then ok := false
    let u := net.src[2 * i]!
    let v := net.dst[2 * i]!
    out := out.set! u (out[u]! + f)
    out := out.set! v (out[v]! - f)
  for a in [0:nA] do
    if seen net.src[a]! && net.cap[a]! > 0 && !seen net.dst[a]! then ok := false
  for v in [0:net.nV] do
    if v == 0 then
      if out[v]! != (flow : Int) then ok := false
    else if v != 1 then
      if out[v]! != 0 then ok := false
    if v != 0 && seen v then
      let a := prev.getD v NIL
      if a ≥ nA then ok := false
      else if net.dst[a]! != v || net.cap[a]! == 0 || !seen net.src[a]! || ord[net.src[a]!]! ≥ ord[v]! then ok := false
  return ok

structure Cand where
  axis  : Nat
  flow  : Nat
  left  : List Nat
  right : List Nat
deriving Repr, Inhabited

inductive AxisOut where
  | over                 -- the cut exceeds the limit
  | bad (why : String)   -- the reference could not certify its own result (a bug of the judge, reported as such)
  | cut (c : Cand)
deriving Inhabited

def sortByKey (coord : Nat → Int × Int) (axis : Nat) (ids : List Nat) : Array Nat :=
  ids.toArray.qsort fun a b =>
    axisKeyRef axis (coord a).1 (coord a).2 < axisKeyRef axis (coord b).1 (coord b).2

def bisect (nGlobal : Nat) (coord : Nat → Int × Int) (c : Cell) (axis k limit : Nat) : AxisOut :=
  let sorted := sortByKey coord axis c.ids
  if k = 0 ∨ sorted.size < k then .bad "size of contraction out of range"
  else
    let (label, net) := buildNet nGlobal c.edges sorted k
    let (flow, net', prev, ord) := maxFlow net limit
    if flow > limit then .over
    else if !certify net' flow prev ord then .bad s!"uncertified flow on axis {axis}"
    else
      let inTable := fun x => label.getD x NIL != NIL
      let isLeft := fun x => ord.getD (label.getD x NIL) NIL != NIL
      let l := (sorted.toList.filter fun x => inTable x && isLeft x)
      let r := (sorted.toList.filter fun x => inTable x && !isLeft x)
      -- independent recount: the value is the number of edges leading from the left to the right set
      let crossing := (c.edges.filter fun e => isLeft e.1 && inTable e.1 && !(isLeft e.2) && label.getD e.1 NIL != label.getD e.2 NIL).length
      if crossing != flow then .bad s!"flow {flow} but {crossing} crossing edges on axis {axis}"
      else .cut { axis := axis, flow := flow, left := l, right := r }

/-- strictly better: smaller cut, or equal cut and strictly larger balance (exact) -/
def better (a b : Cand) : Bool :=
  a.flow < b.flow ||
  (a.flow == b.flow &&
    decide (min a.left.length a.right.length * (b.left.length + b.right.length) >
            min b.left.length b.right.length * (a.left.length + a.right.length)))

structure BestOut where
  pick  : Option Cand
  over  : Nat                -- axes whose cut exceeded the cell's node count
  bad   : Option String
  cands : List Cand
deriving Inhabited

def bestOut (nGlobal : Nat) (coord : Nat → Int × Int) (kOf : Nat → Nat) (c : Cell) : BestOut := Id.run do
  let n := c.ids.length
  let mut pick : Option Cand := none
  let mut over := 0
  let mut bad : Option String := none
  let mut cands : List Cand := []
  for axis in [0:4] do
    match bisect nGlobal coord c axis (kOf n) n with
    | .over => over := over + 1
    | .bad w => if bad.isNone then bad := some w
    | .cut cd =>
      cands := cands ++ [cd]
      match pick with
      | none => pick := some cd
      | some p => if better cd p then pick := some cd
  return { pick := pick, over := over, bad := bad, cands := cands }

/-- the `best` handed to `Tbx.Hierarchy.specAll` -/
def best (nGlobal : Nat) (coord : Nat → Int × Int) (kOf : Nat → Nat) (c : Cell) : Option (List Nat × List Nat) :=
  (bestOut nGlobal coord kOf c).pick.map fun p => (p.left, p.right)

end Tbx.Drv.ChipperRef
