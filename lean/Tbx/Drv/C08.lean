import Tbx.Drv.Common
import Tbx.Model.Dijkstra
import Tbx.Spec.ShortestPath
/-
Driver for C08 (Dijkstra distances, cell matrices).  Parsing, adjacency construction, the traced
run used for the statistics and the Bellman-Ford oracle are shared with the C09 driver.

ops:   G <n> <static|dyn|dynins> | E u v w | Q uni s t | Q o2m s t1 t2 …
       R <k>                                             after a Q line: the same query k more times, unobserved
       PG <n> | PE u:v:w … | PQ uni s t | PQ o2m s t…    pre-history: the reused search objects first answer these
                                                          queries on ANOTHER static graph (results unobserved)
       CELL | IN ids… | OUT ids… | E u v w
obs (k = index of the Q line):
  F adj u:v:w …                      edge order as the searches see it (free: order inside a node)
  D k uni reuse=<d> fresh=<d>        result of run on the case's reused object / on a fresh object
  D k o2m reuse=<ok>:<d,…> fresh=<ok>:<d,…>    success flag and distance(t) of every target
  F k labels <distance(v) for v < n> labels of ALL nodes after the query (tentative for unsettled ones)
  D matrix … | D row <u> … | D overlay s:t:d … (sorted) | F overlayorder s:t:d … (code order)
Unreachable marker: 18446744073709551615.

Judge (independent of the Dijkstra model): Bellman-Ford labels `SP.distB`, accepted only if the
certificate check `SP.certB` succeeds (theorem `SP.distB_spec`).
-/
namespace Tbx.Drv.C08
open Tbx Tbx.Drv Tbx.Dijkstra

inductive Query where
  | uni (s t : Nat)
  | o2m (s : Nat) (ts : List Nat)
deriving Repr, Inhabited

structure GCase where
  n : Nat := 0
  rep : String := ""
  edges : List Edge := []
  queries : List Query := []
  isCell : Bool := false
  inc : List Nat := []
  out : List Nat := []
  /-- large graphs (`S` line): labels / paths are observed for these nodes only, no adjacency line -/
  sample : Option (List Nat) := none
  bad : Option String := none
  /-- pre-history (`PG`/`PE`/`PQ` lines): queries that the REUSED search objects answered on another (static) graph
      before the case's own queries; their results are not observed -/
  preN : Nat := 0
  preEdges : List Edge := []
  preQueries : List Query := []
deriving Inhabited

/-- the nodes whose label / path is observed after every query -/
def GCase.watch (c : GCase) : List Nat := match c.sample with | some l => l | none => List.range c.n

def parseTriple (it : String) : Option Edge :=
  match it.splitOn ":" with
  | [u, v, w] => match u.toNat?, v.toNat?, w.toNat? with
    | some u, some v, some w => some (u, v, w)
    | _, _, _ => none
  | _ => none

def parseCase (ops : Array String) : GCase := Id.run do
  let mut c : GCase := {}
  let mut es : Array Edge := #[]
  let mut qs : Array Query := #[]
  let mut pes : Array Edge := #[]
  let mut pqs : Array Query := #[]
  for l in ops do
    match words l with
    | ["R", _] => pure ()   -- `R k`: the query above is run k more times on the reused objects, unobserved; the
                            -- reused model object has the same state after one run as after k+1
                            -- (theorem Props.C08.reuse_eq_fresh), so the model skips the repetitions
    | ["PG", n] => c := { c with preN := parseNat! n }
    | "PE" :: items =>
      for it in items do
        match parseTriple it with
        | some e => pes := pes.push e
        | none => c := { c with bad := some s!"unparsable edge '{it}'" }
    | ["PQ", "uni", s, t] => pqs := pqs.push (.uni (parseNat! s) (parseNat! t))
    | "PQ" :: "o2m" :: s :: ts => pqs := pqs.push (.o2m (parseNat! s) (ts.map parseNat!))
    | ["G", n, rep] => c := { c with n := parseNat! n, rep := rep }
    | ["CELL"] => c := { c with isCell := true }
    | "IN" :: ids => c := { c with inc := ids.map parseNat! }
    | "OUT" :: ids => c := { c with out := ids.map parseNat! }
    | "S" :: ids => c := { c with sample := some (ids.map parseNat!) }
    | ["E", u, v, w] => es := es.push (parseNat! u, parseNat! v, parseNat! w)
    | "EE" :: items =>
      for it in items do
        match parseTriple it with
        | some e => es := es.push e
        | none => c := { c with bad := some s!"unparsable edge '{it}'" }
    | ["Q", "uni", s, t] => qs := qs.push (.uni (parseNat! s) (parseNat! t))
    | "Q" :: "o2m" :: s :: ts => qs := qs.push (.o2m (parseNat! s) (ts.map parseNat!))
    | _ => c := { c with bad := some s!"unparsable op '{l}'" }
  return { c with edges := es.toList, queries := qs.toList, preEdges := pes.toList, preQueries := pqs.toList }

def joinWith (sep : String) (xs : List String) : String := sep.intercalate xs
def bit (b : Bool) : String := if b then "1" else "0"

/-- adjacency lists from an edge list in the given order -/
def adjArrOf (n : Nat) (ordered : List Edge) : Array (List (Nat × Nat)) :=
  -- consing the reversed list keeps the given order inside every node and is linear
  ordered.reverse.foldl (fun a e => if e.1 < a.size then a.modify e.1 ((e.2.1, e.2.2) :: ·) else a) (Array.replicate n [])

def adjFn (a : Array (List (Nat × Nat))) : Adj := fun u => a.getD u []

def renderAdj (n : Nat) (adj : Adj) : String :=
  let items := (List.range n).flatMap fun u => (adj u).map fun e => s!"{u}:{e.1}:{e.2}"
  ("F adj " ++ joinWith " " items).trimAscii.toString

/-- the `F adj` line of the implementation, parsed back into an edge list -/
def parseAdjLine (impl : Array String) : Option (List Edge) :=
  match impl.find? (·.startsWith "F adj") with
  | none => none
  | some l =>
    let items := (words l).drop 2
    items.mapM parseTriple

def edgeLt (a b : Edge) : Bool := edgeLe a b && !(edgeLe b a)

/-- the order `input.sort()` produces (same as `Dijkstra.sortEdges`: the order on full triples is
total, so the sorted list is unique), computed in n log n for the driver -/
def fastSort (es : List Edge) : List Edge := (es.toArray.qsort edgeLt).toList

def sameMultiset (a b : List Edge) : Bool := fastSort a == fastSort b

/-- `number_of_nodes()` the representation will report -/
def repNodes (c : GCase) : Nat := if c.rep == "static" then staticNodes c.edges else c.n

/-- edge order used by the model: sorted for `static`/`dyn` (both constructors sort the input);
for `dynins` (edges inserted one by one with `insert_edge`, whose slot reuse is C14's subject) the
order recorded by the implementation is followed when it is a permutation of the case's edges -/
def modelOrder (c : GCase) (impl : Array String) : List Edge :=
  if c.rep == "dynins" then
    match parseAdjLine impl with
    | some es => if sameMultiset es c.edges then es else c.edges
    | none => c.edges
  else fastSort c.edges

/-! ### traced run (statistics only; compared with the model's final labels) -/

structure Trace where
  pops : Nat := 0
  ins : Nat := 0
  dec : Nat := 0
  decOrd : Nat := 0          -- decreases that moved the node ahead of another queued node
  maxLen : Nat := 0
  lowered : List Nat := []
  q : AHeap.Heap := AHeap.init 0 UMAX
  good : Bool := true
deriving Inhabited

def traceRun (adj : Adj) (n : Nat) (s : Nat) (uniT : Option Nat) (targets : List Nat) : Trace := Id.run do
  let mut tr : Trace := {}
  let mut q := AHeap.insert (AHeap.init 0 UMAX) (s : Int) 0 (s : Int)
  let mut reached := 0
  let mut fin := false
  for _ in [0:n + 1] do
    if fin then break
    let cont := match uniT with
      | some _ => !(AHeap.isEmpty q)
      | none => !(AHeap.isEmpty q) && reached < targets.length
    if !cont then fin := true; break
    match AHeap.deleteMin q with
    | none => tr := { tr with good := false }; fin := true
    | some (q1, u) =>
      q := q1
      tr := { tr with pops := tr.pops + 1 }
      let distance := AHeap.weight q u
      if uniT == some u.toNat then fin := true; break
      if isTarget targets u then reached := reached + 1
      for e in adj u.toNat do
        let v : Int := (e.1 : Int)
        let nd := distance + (e.2 : Int)
        let wasIns := AHeap.inserted q v
        let old := AHeap.weight q v
        let isDec := wasIns && AHeap.contains q v && old > nd
        if isDec then
          let ahead := (List.range n).any fun x =>
            (x : Int) != v && AHeap.contains q (x : Int) && nd < AHeap.weight q (x : Int) && AHeap.weight q (x : Int) < old
          tr := { tr with dec := tr.dec + 1, decOrd := tr.decOrd + (if ahead then 1 else 0),
                          lowered := if tr.lowered.contains e.1 then tr.lowered else e.1 :: tr.lowered }
        if !wasIns then tr := { tr with ins := tr.ins + 1 }
        match relax q u distance e.1 e.2 with
        | none => tr := { tr with good := false }
        | some q' => q := q'
        tr := { tr with maxLen := Nat.max tr.maxLen (AHeap.len q) }
  if !fin then
    -- the loop above ran out of iterations: only fine if the next guard evaluation would stop
    let cont := match uniT with
      | some _ => !(AHeap.isEmpty q)
      | none => !(AHeap.isEmpty q) && reached < targets.length
    if cont then tr := { tr with good := false }
  return { tr with q := q }

def Trace.add (a b : Trace) : Trace :=
  { a with pops := a.pops + b.pops, ins := a.ins + b.ins, dec := a.dec + b.dec, decOrd := a.decOrd + b.decOrd,
           maxLen := Nat.max a.maxLen b.maxLen, good := a.good && b.good }

/-! ### oracle -/

def showD (d : Option Nat) : String := match d with | some x => toString x | none => toString UMAX

/-- Bellman-Ford labels from `s`, only if they pass the certificate check -/
def oracle (adj : Adj) (n s : Nat) : Option SP.DistArr :=
  let D := SP.distB adj n s
  if SP.certB adj n s D then some D else none

def totalWeight (es : List Edge) : Nat := es.foldl (fun a e => a + e.2.2) 0

/-- value of `key=` in an observation line -/
def field (line key : String) : Option String :=
  (words line).findSome? fun w => if w.startsWith (key ++ "=") then some (w.drop (key.length + 1)).toString else none

def implLine (impl : Array String) (pref : String) : Option String := impl.find? (·.startsWith pref)

def hasDup : List Nat → Bool
  | [] => false
  | x :: xs => xs.contains x || hasDup xs

def strictlySorted : List Nat → Bool
  | [] => true
  | [_] => true
  | a :: b :: r => decide (a < b) && strictlySorted (b :: r)

/-- domain of the property for a graph case; `some why` = outside -/
def outOfDomain (c : GCase) : Option String :=
  if c.n == 0 then some "graph without nodes"
  else if c.edges.any (fun e => e.1 ≥ c.n || e.2.1 ≥ c.n) then some "edge endpoint outside 0..n"
  else if totalWeight c.edges ≥ UMAX.toNat then some "path weights may reach usize::MAX (side condition)"
  else if c.preEdges.any (fun e => e.1 ≥ c.preN || e.2.1 ≥ c.preN) then some "pre-history edge endpoint outside 0..n"
  else if totalWeight c.preEdges ≥ UMAX.toNat then some "pre-history path weights may reach usize::MAX"
  else if c.preQueries.any (fun q => match q with
      | .uni s t => s ≥ staticNodes c.preEdges || s ≥ c.preN || t ≥ c.preN
      | .o2m s ts => s ≥ staticNodes c.preEdges || s ≥ c.preN || ts.any (· ≥ c.preN) || hasDup ts) then
    some "pre-history query outside its graph"
  else
    let nn := repNodes c
    c.queries.findSome? fun q =>
      match q with
      | .uni s t => if s ≥ nn || s ≥ c.n || t ≥ c.n then some "query node outside the graph" else none
      | .o2m s ts =>
        if s ≥ nn || s ≥ c.n || ts.any (· ≥ c.n) then some "query node outside the graph"
        else if hasDup ts then some "duplicate targets" else none

/-! ### graph cases -/

def o2mDistStr (st : O2M) (ts : List Nat) : String := joinWith "," (ts.map fun t => toString (st.distance t))

structure GraphOut where
  model : Array String := #[]
  modelBad : Option String := none
  tr : Trace := {}

/-- the reused model objects after the pre-history (fresh objects when there is none) -/
def preStates (c : GCase) : Uni × O2M × Option String := Id.run do
  let adjP := adjFn (adjArrOf c.preN (fastSort c.preEdges))
  let mut uni := Uni.new
  let mut o2m := O2M.new
  let mut bad : Option String := none
  for q in c.preQueries do
    match q with
    | .uni s t =>
      match uniRun adjP c.preN uni s t with
      | .ok (st, _) => uni := st
      | _ => bad := some "model stuck in the pre-history"
    | .o2m s ts =>
      match o2mRun adjP c.preN o2m s ts with
      | .ok (st, _) => o2m := st
      | _ => bad := some "model stuck in the pre-history"
  return (uni, o2m, bad)

def runModelGraph (c : GCase) (adj : Adj) : GraphOut := Id.run do
  let n := c.n
  let large := c.sample.isSome
  let watch := c.watch
  let mut out : Array String := if large then #[] else #[renderAdj n adj]
  let (u0, o0, pbad) := preStates c
  let mut uni := u0
  let mut o2m := o0
  let mut bad : Option String := pbad
  let mut tr : Trace := {}
  let mut k := 0
  for q in c.queries do
    match q with
    | .uni s t =>
      if large then
        -- large graphs: ONE model run per query, on a fresh object; the reused object yields the
        -- same result and state (theorem Props.C08.reuse_eq_fresh), no statistics trace
        match uniRun adj n Uni.new s t with
        | .ok (_, d) => out := out.push s!"D {k} uni reuse={d} fresh={d}"
        | .fuel => bad := some s!"model-out-of-fuel (query {k})"; out := out.push s!"D {k} MODEL-FUEL"
        | .panic => bad := some s!"model reached a panic branch (query {k})"; out := out.push s!"D {k} MODEL-PANIC"
      else
      let t1 := traceRun adj n s (some t) []
      tr := tr.add t1
      match uniRun adj n uni s t, uniRun adj n Uni.new s t with
      | .ok (st, d), .ok (st2, d2) =>
        uni := st
        out := out.push s!"D {k} uni reuse={d} fresh={d2}"
        if (List.range n).any (fun v => AHeap.weight st.queue (v : Int) != AHeap.weight t1.q (v : Int)
              || AHeap.weight st2.queue (v : Int) != AHeap.weight t1.q (v : Int)) then
          bad := some s!"query {k}: statistics trace diverged from the model"
      | .fuel, _ | _, .fuel => bad := some s!"model-out-of-fuel (query {k})"; out := out.push s!"D {k} MODEL-FUEL"
      | _, _ => bad := some s!"model reached a panic branch (query {k})"; out := out.push s!"D {k} MODEL-PANIC"
    | .o2m s ts =>
      if large then
        match o2mRun adj n O2M.new s ts with
        | .ok (st, ok) =>
          out := out.push s!"D {k} o2m reuse={bit ok}:{o2mDistStr st ts} fresh={bit ok}:{o2mDistStr st ts}"
          out := out.push s!"F {k} labels {joinWith "," (watch.map fun v => toString (st.distance v))}"
        | .fuel => bad := some s!"model-out-of-fuel (query {k})"; out := out.push s!"D {k} MODEL-FUEL"
        | .panic => bad := some s!"model reached a panic branch (query {k})"; out := out.push s!"D {k} MODEL-PANIC"
      else
      let t1 := traceRun adj n s none ts
      tr := tr.add t1
      match o2mRun adj n o2m s ts, o2mRun adj n O2M.new s ts with
      | .ok (st, ok), .ok (st2, ok2) =>
        o2m := st
        out := out.push s!"D {k} o2m reuse={bit ok}:{o2mDistStr st ts} fresh={bit ok2}:{o2mDistStr st2 ts}"
        out := out.push s!"F {k} labels {joinWith "," (watch.map fun v => toString (st.distance v))}"
        if (List.range n).any (fun v => st.distance v != AHeap.weight t1.q (v : Int)) then
          bad := some s!"query {k}: statistics trace diverged from the model"
      | .fuel, _ | _, .fuel => bad := some s!"model-out-of-fuel (query {k})"; out := out.push s!"D {k} MODEL-FUEL"
      | _, _ => bad := some s!"model reached a panic branch (query {k})"; out := out.push s!"D {k} MODEL-PANIC"
    k := k + 1
  if !tr.good && bad.isNone then bad := some "statistics trace stuck"
  return { model := out, modelBad := bad, tr := tr }

def parseNatList (s : String) : List Nat :=
  if s == "" then [] else (s.splitOn ",").map parseNat!

/-- `ok:d1,d2` -/
def parseO2m (s : String) : Option (Bool × List Nat) :=
  match s.splitOn ":" with
  | [b, ds] => some (b == "1", parseNatList ds)
  | [b] => some (b == "1", [])
  | _ => none

def judgeGraph (c : GCase) (impl : Array String) : Verdict := Id.run do
  match outOfDomain c with
  | some why => return .skip why
  | none => pure ()
  let n := c.n
  -- the judge's graph: the case's edges, any order
  let adj := adjFn (adjArrOf n c.edges)
  if impl.contains "PANIC" then return .fail "implementation panicked on an in-domain case"
  if impl.contains "HANG" || impl.contains "ABORT" then return .fail "implementation hung or aborted"
  -- the representation must hold exactly the given edges
  if c.sample.isNone then
    match parseAdjLine impl with
    | none => return .fail "no adjacency observation"
    | some es => if !(sameMultiset es c.edges) then return .fail "graph representation does not hold exactly the given edges"
  if c.watch.any (· ≥ n) then return .skip "sampled node outside the graph"
  let watch := c.watch
  let umax := UMAX.toNat
  let mut k := 0
  for q in c.queries do
    let some dl := implLine impl s!"D {k} " | return .fail s!"query {k}: no observation"
    match q with
    | .uni s t =>
      let some D := oracle adj n s | return .fail s!"query {k}: spec oracle did not converge (checker bug)"
      let exp := (gt D t).getD umax
      let r := (field dl "reuse").bind String.toNat?
      let f := (field dl "fresh").bind String.toNat?
      if f != some exp then return .fail s!"query {k}: uni {s}->{t} fresh object returned {f.map toString |>.getD "?"}, true distance {exp}"
      if r != some exp then return .fail s!"query {k}: uni {s}->{t} reused object returned {r.map toString |>.getD "?"}, true distance {exp}"
    | .o2m s ts =>
      let some D := oracle adj n s | return .fail s!"query {k}: spec oracle did not converge (checker bug)"
      let expD := ts.map fun t => (gt D t).getD umax
      let expOk := ts.all fun t => (gt D t).isSome
      for (name, v) in [("fresh", field dl "fresh"), ("reuse", field dl "reuse")] do
        match v.bind parseO2m with
        | none => return .fail s!"query {k}: unparsable {name} field"
        | some (ok, ds) =>
          if ok != expOk then return .fail s!"query {k}: o2m from {s} ({name}) success={bit ok}, all targets reachable={bit expOk}"
          if ds != expD then return .fail s!"query {k}: o2m from {s} ({name}) target distances {ds}, true {expD}"
      -- labels of all nodes: never below the truth, finite only for reachable nodes, exact once the queue was drained
      let some ll := implLine impl s!"F {k} labels" | return .fail s!"query {k}: no labels observation"
      let labels := parseNatList (((words ll).drop 3).headD "")
      if labels.length != watch.length then return .fail s!"query {k}: labels line has {labels.length} entries"
      for (v, lab) in List.zip watch labels do
        let tru := gt D v
        if lab != umax then
          match tru with
          | none => return .fail s!"query {k}: node {v} is unreachable from {s} but has label {lab}"
          | some d => if lab < d then return .fail s!"query {k}: label {lab} of node {v} is below its distance {d}"
                      else if !expOk && lab != d then return .fail s!"query {k}: queue drained but label {lab} of node {v} is not its distance {d}"
        else if !expOk && tru.isSome then return .fail s!"query {k}: queue drained but reachable node {v} has no label"
    k := k + 1
  return .ok

/-! ### cell cases -/

def maxId (c : GCase) : Nat :=
  let m := c.edges.foldl (fun m e => max (max m e.1) e.2.1) 0
  (c.inc ++ c.out).foldl max m

def renderIntList (xs : List Int) : String := joinWith "," (xs.map toString)

def renderOverlay (pref : String) (es : List (Nat × Nat × Int)) : String :=
  (pref ++ " " ++ joinWith " " (es.map fun e => s!"{e.1}:{e.2.1}:{e.2.2}")).trimAscii.toString

def tripleLe (a b : Nat × Nat × Int) : Bool :=
  a.1 < b.1 || (a.1 == b.1 && (a.2.1 < b.2.1 || (a.2.1 == b.2.1 && a.2.2 ≤ b.2.2)))

def insT (e : Nat × Nat × Int) : List (Nat × Nat × Int) → List (Nat × Nat × Int)
  | [] => [e]
  | x :: xs => if tripleLe e x then e :: x :: xs else x :: insT e xs

def sortT (es : List (Nat × Nat × Int)) : List (Nat × Nat × Int) := es.foldr insT []

structure CellOut where
  model : Array String := #[]
  modelBad : Option String := none
  tr : Trace := {}

def runModelCell (c : GCase) : CellOut := Id.run do
  let bc : BaseCell := { incoming := c.inc, outgoing := c.out, edges := c.edges }
  let mut out : Array String := #[]
  match process bc with
  | .panic => return { model := #["PANIC"], modelBad := none }
  | .fuel => return { model := #["MODEL-FUEL"], modelBad := some "model-out-of-fuel (cell)" }
  | .ok mc =>
    out := out.push (("D matrix " ++ renderIntList mc.matrix.toList).trimAscii.toString)
    for u in c.inc do
      match distanceRow mc u with
      | none => out := out.push "PANIC"; return { model := out }
      | some row => out := out.push ((s!"D row {u} " ++ renderIntList row.toList).trimAscii.toString)
    match overlayEdges mc with
    | none => out := out.push "PANIC"; return { model := out }
    | some ov =>
      out := out.push (renderOverlay "D overlay" (sortT ov.toList))
      out := out.push (renderOverlay "F overlayorder" ov.toList)
  -- statistics: the searches `process` ran
  let seen := c.out.foldl orInsert (c.inc.foldl orInsert [])
  let mut tr : Trace := {}
  match renumber c.edges seen with
  | none => pure ()
  | some (ne, seenF) =>
    let adj := staticAdj ne
    let nn := staticNodes ne
    match lookupAll seenF c.inc, lookupAll seenF c.out with
    | some srcs, some tgts =>
      for s in srcs do
        if !c.edges.isEmpty && s < nn then tr := tr.add (traceRun adj nn s none tgts)
    | _, _ => pure ()
  return { model := out, tr := tr }

def judgeCell (c : GCase) (impl : Array String) : Verdict := Id.run do
  if !(strictlySorted c.inc) then return .skip "incoming boundary not strictly sorted (binary_search)"
  if hasDup c.out then return .skip "duplicate ids in the outgoing boundary"
  if totalWeight c.edges ≥ UMAX.toNat then return .skip "path weights may reach usize::MAX (side condition)"
  let n := maxId c + 1
  let adj := adjFn (adjArrOf n c.edges)
  let umax : Int := UMAX
  -- expected matrix from the ORIGINAL cell graph
  let mut expRows : List (Nat × List Int) := []
  for u in c.inc do
    let some D := oracle adj n u | return .fail "spec oracle did not converge (checker bug)"
    expRows := expRows ++ [(u, c.out.map fun t => match gt D t with | some d => (d : Int) | none => umax)]
  let tag := ""
  if impl.contains "PANIC" then return .fail "implementation panicked on an in-domain cell"
  if impl.contains "HANG" || impl.contains "ABORT" then return .fail "implementation hung or aborted"
  let expMatrix := expRows.flatMap (·.2)
  let some ml := implLine impl "D matrix" | return .fail "no matrix observation"
  let got := (parseNatList (((words ml).drop 2).headD "")).map Int.ofNat
  if got != expMatrix then return .fail s!"{tag}matrix {got} differs from the true boundary distances {expMatrix} (row-major incoming x outgoing)"
  for (u, row) in expRows do
    let some rl := implLine impl s!"D row {u} " | return .fail s!"no row observation for {u}"
    let gotR := (parseNatList (((words rl).drop 3).headD "")).map Int.ofNat
    if gotR != row then return .fail s!"{tag}row of {u} is {gotR}, true distances {row}"
  let expOv := sortT (expRows.flatMap fun (u, row) =>
    (List.zip c.out row).filterMap fun (t, d) => if d != umax then some (u, t, d) else none)
  let some ol := implLine impl "D overlay" | return .fail "no overlay observation"
  if ol != renderOverlay "D overlay" expOv then
    return .fail s!"{tag}overlay edges [{ol}] differ from the finite boundary distances [{renderOverlay "D overlay" expOv}]"
  return .ok

def statsOf (tr : Trace) (extra : List (String × String)) : List (String × String) :=
  [("nontrivial", bit (tr.decOrd ≥ 1)), ("pops", toString tr.pops), ("inserts", toString tr.ins),
   ("decreases", toString tr.dec), ("order_changing_decreases", toString tr.decOrd),
   ("maxlen", toString tr.maxLen)] ++ extra

def handle (cs : Case) : CaseOut :=
  let c := parseCase cs.ops
  match c.bad with
  | some why => { model := #[], verdict := .skip why }
  | none =>
    if c.isCell then
      let r := runModelCell c
      let v := judgeCell c cs.impl
      let v := match v, r.modelBad with
        | .ok, some why => .fail why
        | v, _ => v
      { model := r.model, verdict := v,
        stats := statsOf r.tr [("cells", "1"), ("nin", toString c.inc.length), ("nout", toString c.out.length),
                               ("nonsquare", bit (c.inc.length != c.out.length)), ("edges", toString c.edges.length)] }
    else
      let adj := adjFn (adjArrOf c.n (modelOrder c cs.impl))
      let r := runModelGraph c adj
      let v := judgeGraph c cs.impl
      let v := match v, r.modelBad with
        | .ok, some why => .fail why
        | v, _ => v
      { model := r.model, verdict := v,
        stats := statsOf r.tr [("queries", toString c.queries.length), ("nodes", toString c.n),
                               ("edges", toString c.edges.length), ("large", bit c.sample.isSome)] }

end Tbx.Drv.C08
