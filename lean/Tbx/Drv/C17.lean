import Tbx.Drv.Common
import Tbx.Model.Radix
import Tbx.Spec.SortOrder
import Tbx.Gen.Consts
/-
Driver for C17 (radix sort).

ops:   T <type> | v <hex>... (one complete vector) | e <hex> (one element of a trailing vector)
obs (vector i):
  D <i> out <hex>...              the vector after rdx_sort, as bit patterns
  D <i> std=<b>[ partial=<b>]     bitwise equal to the std sort (floats: total_cmp); floats only: `==`-equal
                                  to the stable sort by partial_cmp
  D <i> invalid                   a pattern is not a value of the type (never generated)

Model lines (M) come from the histogram-level model `Radix.radixSort`; `std`/`partial` are computed from
the model's output against `List.mergeSort` with the Spec's order.
Judge (J) = `SortSpec.checkB` on the I lines: permutation of the input and sorted in the type's order,
both computed on decoded values by the Spec (merge sort of the patterns for the multiset comparison,
`le t` on adjacent decoded elements), independent of the model.  NaN or invalid inputs: skip.

The model's `IS_SIGNED` flag for integer types is read from the regenerated `is_signed!` arm list
(`Tbx.Gen.rdxSignedArms`), the judge's order from the type name alone; `type_table_complete` proves
that both agree on the regenerated type list.
-/
namespace Tbx.Drv.C17
open Tbx Tbx.Drv Tbx.SortSpec

def widthOf (name : String) : Option Nat :=
  match name with
  | "u8" | "i8" | "bool" => some 1
  | "u16" | "i16" => some 2
  | "u32" | "i32" | "f32" => some 4
  | "u64" | "i64" | "f64" | "usize" | "isize" => some 8
  | "u128" | "i128" => some 16
  | _ => none

/-- the type as the CODE sees it: signedness from the `is_signed!` arms -/
def modelTy (name : String) : Option Ty :=
  (widthOf name).map fun w =>
    if name == "bool" then ⟨w, .bool⟩
    else if name == "f32" || name == "f64" then ⟨w, .float⟩
    else if Tbx.Gen.rdxSignedArms.contains name then ⟨w, .signed⟩
    else ⟨w, .unsigned⟩

/-- the type as the PROPERTY sees it: `iN` are two's complement integers -/
def specTy (name : String) : Option Ty :=
  (widthOf name).map fun w =>
    if name == "bool" then ⟨w, .bool⟩
    else if name == "f32" || name == "f64" then ⟨w, .float⟩
    else if name.front == 'i' then ⟨w, .signed⟩
    else ⟨w, .unsigned⟩

def hexDigit (c : Char) : Option Nat :=
  if '0' ≤ c ∧ c ≤ '9' then some (c.toNat - '0'.toNat)
  else if 'a' ≤ c ∧ c ≤ 'f' then some (c.toNat - 'a'.toNat + 10)
  else if 'A' ≤ c ∧ c ≤ 'F' then some (c.toNat - 'A'.toNat + 10)
  else none

def parseHex? (s : String) : Option Nat :=
  if s.isEmpty then none
  else s.toList.foldl (fun acc c => match acc, hexDigit c with
    | some a, some d => some (a * 16 + d)
    | _, _ => none) (some 0)

def showHex (x : Nat) : String := String.ofList (Nat.toDigits 16 x)

def hexLine (pre : String) (xs : List Nat) : String :=
  xs.foldl (fun acc x => acc ++ " " ++ showHex x) pre

def hexList (xs : List Nat) : String := " ".intercalate (xs.map showHex)

def parseVec (ws : List String) : Option (List Nat) :=
  ws.foldr (fun w acc => match parseHex? w, acc with
    | some x, some l => some (x :: l)
    | _, _ => none) (some [])

def bit (b : Bool) : String := if b then "1" else "0"

def listEqBy (r : Nat → Nat → Bool) : List Nat → List Nat → Bool
  | [], [] => true
  | a :: l, b :: m => r a b && listEqBy r l m
  | _, _ => false

def distinct2 (xs : List Nat) : Bool :=
  match xs with
  | [] => false
  | a :: l => l.any (· != a)

structure Stats where
  vectors : Nat := 0
  elements : Nat := 0
  nontriv : Nat := 0
  skippedRounds : Nat := 0
  mixedSign : Nat := 0
  oob : Nat := 0
  levelsDiffer : Nat := 0
  tableMismatch : Nat := 0

def handle (c : Case) : CaseOut := Id.run do
  -- parse
  let mut tyName := ""
  let mut vecs : Array (Option (List Nat)) := #[]
  let mut tail : Array String := #[]
  let mut hasTail := false
  for l in c.ops do
    match words l with
    | "T" :: n :: _ => tyName := n
    | "v" :: ws => vecs := vecs.push (parseVec ws)
    | ["e", h] => hasTail := true; tail := tail.push h
    | "W" :: _ => pure ()      -- warm-up sort of another element type (family sort-history): not observed
    | _ => vecs := vecs.push none
  if hasTail then vecs := vecs.push (parseVec tail.toList)
  -- the implementation's `D <i> out …` lines, indexed by vector
  let mut implOut : Array (Option (List String)) := Array.replicate vecs.size none
  for l in c.impl do
    match words l with
    | "D" :: si :: "out" :: ws =>
      match si.toNat? with
      | some i => implOut := implOut.setIfInBounds i (some ws)
      | none => pure ()
    | _ => pure ()
  match modelTy tyName, specTy tyName with
  | some mt, some st =>
    let mut out : Array String := #[]
    let mut stt : Stats := {}
    if mt != st then stt := { stt with tableMismatch := 1 }
    let mut verdict : Verdict := .ok
    let mut anySkip : Option String := none
    let mut i := 0
    for ov in vecs do
      match ov with
      | none =>
        out := out.push s!"D {i} unparsable"
        if verdict matches .ok then verdict := .fail s!"vector {i}: unparsable op line"
      | some xs =>
        let valid := xs.all (fun x => decide (Valid st x))
        let nan := xs.any (isNaN st)
        if !valid then
          out := out.push s!"D {i} invalid"
          anySkip := some s!"vector {i}: pattern is not a value of {tyName}"
        else
          -- model (histogram level)
          let r := Radix.radixSort mt xs.toArray
          match r with
          | none =>
            out := out.push s!"D {i} out OOB"
            stt := { stt with oob := stt.oob + 1 }
          | some a =>
            let ml := a.toList
            out := out.push (hexLine s!"D {i} out" ml)
            let stdEq := ml == xs.mergeSort (leB st)
            if st.kind == .float then
              let pEq := listEqBy (feqB st) ml (xs.mergeSort (pleB st))
              out := out.push s!"D {i} std={bit stdEq} partial={bit pEq}"
            else
              out := out.push s!"D {i} std={bit stdEq}"
            -- the bucket-level model costs 256·n key evaluations per round: cross-checked on a sample of the
            -- short vectors only (every 32nd vector of a case; equality is `placement_eq_buckets`)
            if xs.length ≤ 12 && i % 32 == 0 && Radix.sortB mt xs != ml then
              -- cannot happen (Props.C17.placement_eq_buckets); made visible as a disagreement if it does
              out := out.push s!"D {i} model-levels-differ"
              stt := { stt with levelsDiffer := stt.levelsDiffer + 1 }
          -- statistics
          let d2 := distinct2 xs
          -- a round is skipped iff all keys of that round coincide (= `Radix.skipRound`, computed in O(n))
          let skipped := ((List.range mt.w).filter (fun k =>
            match xs with
            | [] => true
            | x0 :: l => l.all (fun x => Radix.key mt x k == Radix.key mt x0 k))).length
          let mixed := (st.kind == .signed || st.kind == .float) &&
            xs.any (fun x => decide (fneg st x)) && xs.any (fun x => !decide (fneg st x))
          stt := { stt with vectors := stt.vectors + 1, elements := stt.elements + xs.length }
          if d2 && (skipped > 0 || mixed) then stt := { stt with nontriv := stt.nontriv + 1 }
          if d2 then stt := { stt with skippedRounds := stt.skippedRounds + skipped }
          if d2 && mixed then stt := { stt with mixedSign := stt.mixedSign + 1 }
          -- judge on the implementation's lines
          if nan then
            anySkip := some s!"vector {i}: NaN in the input"
          else if verdict matches .ok then
            match implOut.getD i none with
            | none =>
              let what := if c.impl.any (· == "PANIC") then "rdx_sort panicked"
                else if c.impl.any (· == "HANG") then "rdx_sort did not terminate"
                else if c.impl.any (· == "ABORT") then "rdx_sort aborted the process"
                else "no output observed"
              verdict := .fail s!"vector {i} ({tyName}, {xs.length} elements): {what}"
            | some ws =>
              match parseVec ws with
              | none => verdict := .fail s!"vector {i}: unparsable output line"
              | some ys =>
                if !(checkB st xs ys) then
                  let why :=
                    if !(permB ys xs) then "output is not a permutation of the input"
                    else "output is not sorted in the order of " ++ tyName
                  verdict := .fail (s!"vector {i} ({tyName}): {why}; input [{hexList xs}] " ++
                    s!"observed [{hexList ys}] expected [{hexList (xs.mergeSort (leB st))}]")
      i := i + 1
    let final := match verdict, anySkip with
      | .ok, some w => Verdict.skip w
      | v, _ => v
    return { model := out, verdict := final,
             stats := [("nontrivial", bit (stt.nontriv > 0)), ("vectors", toString stt.vectors),
                       ("elements", toString stt.elements),
                       ("nontrivial_vectors", toString stt.nontriv),
                       ("skipped_rounds", toString stt.skippedRounds),
                       ("mixed_sign_vectors", toString stt.mixedSign),
                       ("model_oob", toString stt.oob), ("levels_differ", toString stt.levelsDiffer),
                       ("table_mismatch", toString stt.tableMismatch)] }
  | _, _ =>
    return { model := #[], verdict := .fail s!"unknown element type '{tyName}'", stats := [("nontrivial", "0")] }

end Tbx.Drv.C17
