import Tbx.Drv.Common
import Tbx.Model.Tarjan
import Tbx.Model.Gabow
import Tbx.Model.CycleCheck
import Tbx.Model.Kruskal
import Tbx.Spec.Components
/-
Driver for C16 (SCC by Tarjan and Gabow, cycle check, Kruskal, union-find).

family scc*   ops:  e <u> <v>        add an edge to the pending edge list
                    run              build StaticGraph from the pending edges (then forget them) and analyse it
                    gm <n> <mask>    pending := { u->v | bit u*n+v of mask }, then `run`
                    fresh            replace both objects by new ones (Tarjan::new(), PathBasedScc::new())
                    rep <N> <n> <mask>   like `gm <n> <mask>`, but the graph is analysed N times in a row by the same
                                     objects; the first N-1 ("silent") runs are only summarised:
                                       D k S silent=<N-1> hash=<H>     H = chained hash of the fingerprints of the
                                     silent runs (canonical Tarjan partition, canonical PathBasedScc partition,
                                     cycle_check answer, number of usize::MAX labels of each); the N-th run is
                                     observed in full like any other run
              otherwise the SAME Tarjan and PathBasedScc objects are used for every run of a case.
              obs per run k:   D k n=<nodes>
                               D k T <canonical partition>   F k T <raw labels>      (Tarjan)
                               D k G <canonical partition>   F k G <raw labels>      (Gabow)
                               D k C <0|1>                                           (cycle_check)
family mst*   ops:  w <u> <v> <weight> ... ; kruskal      (several inputs per case: each `kruskal` consumes the pending edges)
              obs per call k:  D k cost=<c>   D k part=<canonical connectivity partition of 0..=max id>   F k mst=<u-v-w;...>
family uf*    ops:  new <n> ; union x y | find x | same x y | nsets | part
              obs per op k:  union/nsets: D k nsets=<c> ; same: D k same=<0|1> ; find: F k find=<r> ;
                             part: D k part=<canonical partition>  F k reps=<find(0),find(1),...>
A canonical partition labels every node with the smallest node of its class.
-/
namespace Tbx.Drv.C16
open Tbx Tbx.Drv

def bit (b : Bool) : String := if b then "1" else "0"
def joinC (xs : List Nat) : String := ",".intercalate (xs.map toString)

/-- label every position by the first position carrying the same label -/
def canonOf (labels : List Nat) : List Nat :=
  labels.map fun l => (labels.findIdx? (· == l)).getD 0

def parseList (s : String) : List Nat :=
  if s == "" then [] else (s.splitOn ",").map parseNat!

/-- the line of class `cls` for step `k` with tag `tag`, payload only -/
def findLine (impl : Array String) (pre : String) : Option String :=
  (impl.find? (·.startsWith pre)).map fun l => (l.drop pre.length).toString

/-! ### Spec side helpers (only `Tbx.Comp` checkers) -/

def reachSets (es : Comp.Edges) (n : Nat) : Option (Array (List Nat)) :=
  (List.range n).foldl (fun acc u => match acc, Comp.reachSet es u with
    | some a, some r => some (a.push r)
    | _, _ => none) (some #[])

/-- canonical SameSCC partition from the reach sets -/
def specCanon (rs : Array (List Nat)) (n : Nat) : List Nat :=
  (List.range n).map fun v =>
    ((List.range n).find? fun u => (gt rs u).contains v && (gt rs v).contains u).getD v

def specSame (rs : Array (List Nat)) (u v : Nat) : Bool := (gt rs u).contains v && (gt rs v).contains u

def specCycle (rs : Array (List Nat)) (es : Comp.Edges) : Bool := es.any fun p => (gt rs p.2).contains p.1

/-- first pair of nodes on which "same label" and "same SCC" differ -/
def firstMismatch (rs : Array (List Nat)) (raw : Array Nat) (n : Nat) : Option (Nat × Nat) :=
  (List.range n).findSome? fun u => (List.range n).findSome? fun v =>
    if (gt raw u == gt raw v) != specSame rs u v then some (u, v) else none

def maskEdges (n mask : Nat) : List (Nat × Nat) :=
  (List.range n).flatMap fun u => (List.range n).filterMap fun v =>
    if mask.testBit (u * n + v) then some (u, v) else none

/-! ### long histories (`rep`) -/

def fpMod : Nat := 2305843009213693951

/-- fingerprint of one run: both canonical partitions, the cycle answer, the number of unassigned labels -/
def fingerprint (canT canG : List Nat) (cyc : Bool) (maxT maxG : Nat) : Nat :=
  (canT ++ [9999] ++ canG ++ [9999, if cyc then 1 else 0, maxT, maxG]).foldl (fun h x => (h * 31 + x + 1) % fpMod) 7

/-- chained hash of `cnt` runs that all have fingerprint `fp` -/
def silentHash (fp cnt : Nat) : Nat := (List.range cnt).foldl (fun h _ => (h * 1000003 + fp) % fpMod) 0

def countMax (a : Array Nat) : Nat := (a.toList.filter (· == Csr.maxU)).length

/-! ### family scc -/

structure SccStats where
  runs : Nat := 0
  nodes : Nat := 0
  edges : Nat := 0
  sccs : Nat := 0
  cyclic : Nat := 0
  reused : Nat := 0
  total : Nat := 0        -- runs of the history including silent repetitions
  maxRep : Nat := 0
  nontriv : Bool := false

def renderLabels (k : Nat) (tag : String) (r : Option (Array Nat)) : List String :=
  match r with
  | some a => [s!"D {k} {tag} {joinC (canonOf a.toList)}", s!"F {k} {tag} {joinC a.toList}"]
  | none => [s!"D {k} {tag} STUCK"]

def judgeLabels (k : Nat) (name tag : String) (impl : Array String) (rs : Array (List Nat)) (n : Nat) : Option String :=
  match findLine impl s!"F {k} {tag} ", findLine impl s!"D {k} {tag} " with
  | some rawS, some canS =>
    let raw := (parseList rawS).toArray
    if raw.size != n then some s!"run {k}: {name} returned {raw.size} labels for {n} nodes"
    else if raw.any (· == Csr.maxU) then
      some s!"run {k}: {name} left node {(raw.toList.findIdx? (· == Csr.maxU)).getD 0} unassigned (usize::MAX)"
    else match firstMismatch rs raw n with
      | some (u, v) =>
        some s!"run {k}: {name} labels {gt raw u},{gt raw v} for nodes {u},{v} but SameSCC={bit (specSame rs u v)}"
      | none =>
        if parseList canS != specCanon rs n then
          some s!"run {k}: {name} canonical partition [{canS}] differs from the SameSCC partition [{joinC (specCanon rs n)}]"
        else none
  | _, _ => some s!"run {k}: no {name} observation"

def handleScc (c : Case) : CaseOut := Id.run do
  let mut pending : List (Nat × Nat) := []
  let mut ts : Tarjan.State := Tarjan.State.fresh
  let mut gs : Gabow.State := Gabow.State.fresh
  let mut out : Array String := #[]
  let mut verdict : Verdict := .ok
  let mut stt : SccStats := {}
  let mut k := 0
  let mut stuck := false
  for l in c.ops do
    let mut doRun := false
    let mut reps : Option Nat := none
    match words l with
    | ["rep", cnt, a, b] =>
      if parseNat! cnt == 0 then return { model := out, verdict := .skip s!"rep 0 in '{l}'" }
      pending := maskEdges (parseNat! a) (parseNat! b); doRun := true; reps := some (parseNat! cnt)
    | ["e", a, b] => pending := pending ++ [(parseNat! a, parseNat! b)]
    | ["run"] => doRun := true
    | ["fresh"] => ts := Tarjan.State.fresh; gs := Gabow.State.fresh
    | ["gm", a, b] => pending := maskEdges (parseNat! a) (parseNat! b); doRun := true
    | _ => return { model := out, verdict := .skip s!"unparsable op '{l}'" }
    if doRun then
      let es := pending
      pending := []
      -- model
      let g := Csr.ofEdges es
      let n := Csr.numNodes g
      if !Csr.wfB g then stuck := true
      -- The model analyses the graph ONCE, also for `rep N`: by `Tbx.Props.C16.tarjan_rerun_eq_fresh` /
      -- `gabow_rerun_eq_fresh` (and `tarjan_history_eq_fresh` / `gabow_history_eq_fresh` for whole histories)
      -- every one of the N runs returns the labels AND leaves the object state of a run on a fresh object,
      -- so run 1..N have the same result and the state after N runs is the state after one; `cycle_check`
      -- is a pure function.  The N-1 silent fingerprints are therefore N-1 copies of this run's fingerprint.
      let rT := Tarjan.run ts g
      let rG := Gabow.run gs g
      let rC := CycleCheck.cycleCheck g
      match reps with
      | some cnt =>
        let fp := fingerprint (match rT with | some (_, a) => canonOf a.toList | none => [])
          (match rG with | some (_, a) => canonOf a.toList | none => []) (rC.getD false)
          (match rT with | some (_, a) => countMax a | none => 0) (match rG with | some (_, a) => countMax a | none => 0)
        out := out.push s!"D {k} S silent={cnt - 1} hash={silentHash fp (cnt - 1)}"
      | none => pure ()
      out := out.push s!"D {k} n={n}"
      match rT with
      | some (ts', a) => ts := ts'; out := out ++ (renderLabels k "T" (some a)).toArray
      | none => stuck := true; out := out ++ (renderLabels k "T" none).toArray
      match rG with
      | some (gs', a) => gs := gs'; out := out ++ (renderLabels k "G" (some a)).toArray
      | none => stuck := true; out := out ++ (renderLabels k "G" none).toArray
      match rC with
      | some b => out := out.push s!"D {k} C {bit b}"
      | none => stuck := true; out := out.push s!"D {k} C STUCK"
      -- judge (Spec checkers on the implementation's lines only)
      if verdict matches .ok then
        match findLine c.impl s!"D {k} n=" with
        | none => verdict := .fail s!"run {k}: implementation produced no observation ({" | ".intercalate (c.impl.toList.take 12)})"
        | some ns =>
          let ni := parseNat! ns
          if es.any (fun p => p.1 ≥ ni || p.2 ≥ ni) then
            verdict := .fail s!"run {k}: graph has {ni} nodes but an edge mentions a larger id"
          else match reachSets es ni with
            | none => verdict := .fail s!"run {k}: judge closure out of fuel"
            | some rs =>
              let canon := specCanon rs ni
              let nscc := ((List.range ni).filter fun v => canon.getD v 0 == v).length
              let big := (List.range ni).any fun v => canon.getD v 0 != v
              -- the silent repetitions: every one must have produced the Spec's partition and cycle answer
              match reps with
              | some cnt =>
                let exp := s!"silent={cnt - 1} hash={silentHash (fingerprint canon canon (specCycle rs es) 0 0) (cnt - 1)}"
                match findLine c.impl s!"D {k} S " with
                | none => verdict := .fail s!"run {k}: no summary of the {cnt - 1} silent repetitions"
                | some got =>
                  if got != exp then
                    verdict := .fail s!"run {k}: among the first {cnt - 1} of {cnt} consecutive runs on this graph (history run {stt.total + 1}..) at least one deviates from the SameSCC partition [{joinC canon}] / HasCycle={bit (specCycle rs es)} or leaves nodes unassigned: summary [{got}], expected [{exp}]"
              | none => pure ()
              stt := { stt with total := stt.total + (reps.getD 1), maxRep := Nat.max stt.maxRep (reps.getD 1) }
              stt := { stt with runs := stt.runs + 1, nodes := stt.nodes + ni, edges := stt.edges + es.length,
                                sccs := stt.sccs + nscc, reused := stt.reused + (if k > 0 then 1 else 0),
                                cyclic := stt.cyclic + (if specCycle rs es then 1 else 0),
                                nontriv := stt.nontriv || (big && nscc ≥ 2) }
              match judgeLabels k "Tarjan" "T" c.impl rs ni with
              | some why => verdict := .fail why
              | none =>
                match judgeLabels k "PathBasedScc" "G" c.impl rs ni with
                | some why => verdict := .fail why
                | none =>
                  match findLine c.impl s!"D {k} C " with
                  | none => verdict := .fail s!"run {k}: no cycle_check observation"
                  | some cs =>
                    if cs != bit (specCycle rs es) then
                      verdict := .fail s!"run {k}: cycle_check={cs} but HasCycle={bit (specCycle rs es)}"
      k := k + 1
  if stuck && (verdict matches .ok) then verdict := .fail "model-out-of-fuel (or model panic branch) on an in-domain graph"
  return { model := out, verdict := verdict,
           stats := [("nontrivial", bit stt.nontriv), ("runs", toString stt.runs), ("nodes", toString stt.nodes),
                     ("edges", toString stt.edges), ("sccs", toString stt.sccs), ("cyclic", toString stt.cyclic),
                     ("reused_runs", toString stt.reused), ("history_runs", toString stt.total),
                     ("history_ge_257", bit (stt.total ≥ 257)), ("history_ge_65537", bit (stt.total ≥ 65537))] }

/-! ### family mst -/

def renderMst (es : List Comp.WEdge) : String :=
  ";".intercalate (es.map fun e => s!"{e.1}-{e.2.1}-{e.2.2}")

def parseMst (s : String) : Option (List Comp.WEdge) :=
  if s == "" then some [] else
  (s.splitOn ";").mapM fun t => match t.splitOn "-" with
    | [a, b, c] => some (parseNat! a, parseNat! b, parseNat! c)
    | _ => none

/-- canonical connectivity partition of nodes 0..n-1 -/
def connCanon (ps : Comp.Edges) (n : Nat) : Option (List Nat) :=
  (reachSets (Comp.sym ps) n).map fun rs =>
    (List.range n).map fun v => ((List.range n).find? fun u => (gt rs u).contains v).getD v

/-- independent reference for larger inputs: Prim's algorithm from every still unreached node
    (tree set as a list, linear scans) -/
def primCost (inp : List Comp.WEdge) (n : Nat) : Nat := Id.run do
  let mut inTree : Array Bool := Array.replicate n false
  let mut total := 0
  for root in List.range n do
    if !(gt inTree root) then
      inTree := st inTree root true
      for _ in List.range n do
        -- cheapest edge leaving the tree
        let mut bestW : Option (Nat × Nat) := none
        for e in inp do
          let a := gt inTree e.1
          let b := gt inTree e.2.1
          if a != b then
            let v := if a then e.2.1 else e.1
            match bestW with
            | none => bestW := some (e.2.2, v)
            | some (w, _) => if e.2.2 < w then bestW := some (e.2.2, v)
        match bestW with
        | none => break
        | some (w, v) => total := total + w; inTree := st inTree v true
      -- `inTree` now also contains other finished components; an edge between two finished
      -- components does not exist (each was grown to exhaustion), so the scan above is sound
  return total

def countOcc (e : Comp.WEdge) (l : List Comp.WEdge) : Nat := (l.filter (· == e)).length

def handleMst (c : Case) : CaseOut := Id.run do
  let mut inp : List Comp.WEdge := []
  let mut out : Array String := #[]
  let mut verdict : Verdict := .ok
  let mut stuck := false
  let mut k := 0
  let mut nontriv := false
  let mut edgesIn := 0
  let mut edgesOut := 0
  let mut ties := 0
  for l in c.ops do
    match words l with
    | ["w", a, b, w] => inp := inp ++ [(parseNat! a, parseNat! b, parseNat! w)]
    | ["kruskal"] =>
      let cur := inp
      inp := []
      let n := (Kruskal.maxNode cur 0) + 1
      -- model
      let mut mlen := 0
      match Kruskal.kruskal cur with
      | some (cost, mst) =>
        out := out.push s!"D {k} cost={cost}"
        out := out.push s!"D {k} part={match connCanon (Comp.ends mst) n with | some p => joinC p | none => "STUCK"}"
        out := out.push s!"F {k} mst={renderMst mst}"
        mlen := mst.length
      | none => stuck := true; out := out.push s!"D {k} cost=STUCK"
      edgesIn := edgesIn + cur.length
      edgesOut := edgesOut + mlen
      if mlen < cur.length && mlen ≥ 2 then nontriv := true
      if cur.any (fun e => (cur.filter fun f => f.2.2 == e.2.2).length ≥ 2) then ties := ties + 1
      -- judge
      if verdict matches .ok then
        -- domain: the Rust adds up the weights of the SELECTED edges in a u32 (`mst_cost += edge.data`); what has to
        -- fit is therefore the cost of the minimum spanning forest (the model's result, proved minimal:
        -- Props.C16.kruskal_minimal), not the sum of all input weights - single weights may be as large as u32::MAX
        let total := match Kruskal.kruskal cur with
          | some (cost, _) => cost
          | none => Comp.cost cur
        if total ≥ 4294967296 then verdict := .skip s!"call {k}: cost of the minimum spanning forest does not fit u32"
        else
          match findLine c.impl s!"D {k} cost=", findLine c.impl s!"D {k} part=", (findLine c.impl s!"F {k} mst=").bind parseMst with
          | some cs, some ps, some mst =>
            let cost := parseNat! cs
            if mst.any (fun e => countOcc e mst > countOcc e cur) then
              verdict := .fail s!"call {k}: mst [{renderMst mst}] is not a sub-multiset of the input"
            else if Comp.acyclicB (Comp.ends mst) != some true then
              verdict := .fail s!"call {k}: mst [{renderMst mst}] contains a cycle"
            else if Comp.spansB (Comp.ends cur) (Comp.ends mst) != some true then
              verdict := .fail s!"call {k}: mst [{renderMst mst}] does not connect everything the input connects"
            else if cost != Comp.cost mst then
              verdict := .fail s!"call {k}: reported cost {cost} but the returned edges weigh {Comp.cost mst}"
            else if some (parseList ps) != connCanon (Comp.ends cur) n then
              verdict := .fail s!"call {k}: connectivity partition [{ps}] differs from the input's"
            else
              let prim := primCost cur n
              if cost != prim then
                verdict := .fail s!"call {k}: cost {cost} is not minimal: Prim's algorithm finds a spanning forest of cost {prim}"
              else if cur.length ≤ 10 then
                match Comp.minForestCost cur with
                | some m => if cost != m then verdict := .fail s!"call {k}: cost {cost} is not minimal: enumeration finds a spanning forest of cost {m}"
                | none => verdict := .fail s!"call {k}: judge: enumeration found no spanning forest / closure out of fuel"
          | _, _, _ => verdict := .fail s!"call {k}: implementation produced no observation ({" | ".intercalate (c.impl.toList.take 6)})"
      k := k + 1
    | _ => return { model := out, verdict := .skip s!"unparsable op '{l}'" }
  if k == 0 then return { model := #[], verdict := .skip "no kruskal op" }
  if stuck && (verdict matches .ok) then verdict := .fail "model-out-of-fuel (or model panic branch) on an in-domain input"
  return { model := out, verdict := verdict,
           stats := [("nontrivial", bit nontriv), ("mst_inputs", toString k), ("mst_edges_in", toString edgesIn),
                     ("mst_edges_out", toString edgesOut), ("mst_ties", toString ties)] }

/-! ### family uf -/

def handleUf (c : Case) : CaseOut := Id.run do
  let mut n := 0
  let mut u : UF.UF := UF.new 0
  let mut pairs : Comp.Edges := []
  let mut out : Array String := #[]
  let mut verdict : Verdict := .ok
  let mut stuck := false
  let mut halvings := 0
  let mut merges := 0
  let mut k := 0
  for l in c.ops do
    match words l with
    | ["new", a] => n := parseNat! a; u := UF.new n; pairs := []
    | "union" :: a :: b :: _ =>
      let x := parseNat! a; let y := parseNat! b
      if x ≥ n || y ≥ n then return { model := out, verdict := .skip s!"op {k}: element out of range" }
      let before := u
      match UF.union u x y with
      | some u' =>
        if u'.numSets != before.numSets then merges := merges + 1
        u := u'
      | none => stuck := true
      out := out.push s!"D {k} nsets={u.numSets}"
      pairs := pairs ++ [(x, y)]
      if verdict matches .ok then
        match findLine c.impl s!"D {k} nsets=", Comp.countClasses pairs n with
        | some s, some cnt =>
          if parseNat! s != cnt then verdict := .fail s!"op {k}: number_of_sets={s} after union({x},{y}) but the unions so far leave {cnt} classes"
        | none, _ => verdict := .fail s!"op {k}: no observation"
        | _, none => verdict := .fail "judge closure out of fuel"
      k := k + 1
    | "find" :: a :: _ =>
      let x := parseNat! a
      if x ≥ n then return { model := out, verdict := .skip s!"op {k}: element out of range" }
      match UF.find u x with
      | some (u', r) =>
        if u'.parent != u.parent then halvings := halvings + 1
        u := u'; out := out.push s!"F {k} find={r}"
      | none => stuck := true; out := out.push s!"F {k} find=STUCK"
      if verdict matches .ok then
        match findLine c.impl s!"F {k} find=" with
        | some s =>
          let r := parseNat! s
          if Comp.connB pairs x r != some true then verdict := .fail s!"op {k}: find({x})={r}, which was never joined with {x}"
        | none => verdict := .fail s!"op {k}: no observation"
      k := k + 1
    | "same" :: a :: b :: _ =>
      let x := parseNat! a; let y := parseNat! b
      if x ≥ n || y ≥ n then return { model := out, verdict := .skip s!"op {k}: element out of range" }
      match UF.find u x with
      | some (u1, rx) =>
        match UF.find u1 y with
        | some (u2, ry) =>
          if u2.parent != u.parent then halvings := halvings + 1
          u := u2; out := out.push s!"D {k} same={bit (rx == ry)}"
        | none => stuck := true
      | none => stuck := true
      if verdict matches .ok then
        match findLine c.impl s!"D {k} same=", Comp.connB pairs x y with
        | some s, some b =>
          if s != bit b then verdict := .fail s!"op {k}: find({x})==find({y}) is {s} but joined={bit b}"
        | none, _ => verdict := .fail s!"op {k}: no observation"
        | _, none => verdict := .fail "judge closure out of fuel"
      k := k + 1
    | ["nsets"] =>
      out := out.push s!"D {k} nsets={UF.numberOfSets u}"
      if verdict matches .ok then
        match findLine c.impl s!"D {k} nsets=", Comp.countClasses pairs n with
        | some s, some cnt =>
          if parseNat! s != cnt then verdict := .fail s!"op {k}: number_of_sets={s} but the unions so far leave {cnt} classes"
        | none, _ => verdict := .fail s!"op {k}: no observation"
        | _, none => verdict := .fail "judge closure out of fuel"
      k := k + 1
    | ["part"] =>
      let mut reps : Array Nat := #[]
      let before := u
      for i in List.range n do
        match UF.find u i with
        | some (u', r) => u := u'; reps := reps.push r
        | none => stuck := true; reps := reps.push 0
      if u.parent != before.parent then halvings := halvings + 1
      out := out.push s!"D {k} part={joinC (canonOf reps.toList)}"
      out := out.push s!"F {k} reps={joinC reps.toList}"
      if verdict matches .ok then
        match findLine c.impl s!"D {k} part=", findLine c.impl s!"F {k} reps=", connCanon pairs n with
        | some ps, some rs, some canon =>
          let ireps := (parseList rs).toArray
          if ireps.size != n then verdict := .fail s!"op {k}: {ireps.size} representatives for {n} elements"
          else if canonOf ireps.toList != canon then
            verdict := .fail s!"op {k}: find results [{rs}] induce partition [{joinC (canonOf ireps.toList)}], the unions give [{joinC canon}]"
          else if parseList ps != canon then
            verdict := .fail s!"op {k}: partition [{ps}] differs from the equivalence closure [{joinC canon}]"
          else if (List.range n).any (fun i => gt ireps (gt ireps i) != gt ireps i) then
            verdict := .fail s!"op {k}: a representative is not its own representative [{rs}]"
        | _, _, none => verdict := .fail "judge closure out of fuel"
        | _, _, _ => verdict := .fail s!"op {k}: no observation"
      k := k + 1
    | _ => return { model := out, verdict := .skip s!"unparsable op '{l}'" }
  if stuck && (verdict matches .ok) then verdict := .fail "model-out-of-fuel (or model panic branch) on an in-domain history"
  return { model := out, verdict := verdict,
           stats := [("nontrivial", bit (halvings ≥ 1 && merges ≥ 2)), ("uf_ops", toString k), ("uf_merges", toString merges),
                     ("uf_halving_ops", toString halvings)] }

def handle (c : Case) : CaseOut :=
  if c.family.startsWith "mst" then handleMst c
  else if c.family.startsWith "uf" then handleUf c
  else handleScc c

end Tbx.Drv.C16
