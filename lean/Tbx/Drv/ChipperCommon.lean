import Tbx.Drv.Common
import Tbx.Drv.Sha256
import Tbx.Drv.ChipperRef
import Tbx.Model.Chipper
import Tbx.Spec.Hierarchy
import Tbx.Spec.Bisection
/-
Shared by the C05 and C06 drivers: parsing of the case, the model run, the observation lines, the judge.

ops (see harness/src/chipper_common.rs):
  P r=<depth> m=<min cell size> bbits=<f64 bits of the balance factor> bstr=<...>
  N <n>
  C <lat> <lon>                 x n
  U <u> <v> <w1> <w2>  |  E <u> <v> <w>
  R n=<threads|-> pin=<cpus|-> jit=<0|1>            (C06)

Two independent computations of the expected ids:
  model  `Tbx.Chipper.chipper` with `Tbx.InertialFlow.subStep` (Dinic model, renumbering table, job queue, id
         array), size of contraction through Lean `Float` (the same IEEE multiply + truncation as the Rust);
  judge  `Tbx.Hierarchy.specAll` (depth first) with `Tbx.Drv.ChipperRef.best` (own max-flow with certificate),
         size of contraction through exact integer arithmetic (`Tbx.Bisection.sizeOfContraction`).
-/
namespace Tbx.Drv.Chipper
open Tbx Tbx.Drv Tbx.Chipper Tbx.InertialFlow

structure Input where
  r      : Nat := 0
  m      : Nat := 0
  bbits  : Nat := 0
  nDecl  : Nat := 0
  coords : Array (Int × Int) := #[]
  edges  : Array (Nat × Nat × Nat) := #[]      -- source, target, weight, in file order
  runs   : Array String := #[]                 -- the R lines, verbatim after "R "
  bad    : Option String := none
deriving Inhabited

def kvOf (ws : List String) (key : String) : Option String :=
  ws.findSome? fun w => if w.startsWith (key ++ "=") then some (w.drop (key.length + 1)).toString else none

def parseInput (ops : Array String) : Input := Id.run do
  let mut inp : Input := {}
  let mut haveP := false
  for op in ops do
    let ws := words op
    match ws with
    | "P" :: rest =>
      haveP := true
      match (kvOf rest "r").bind String.toNat?, (kvOf rest "m").bind String.toNat?, (kvOf rest "bbits").bind String.toNat? with
      | some r, some m, some b => inp := { inp with r := r, m := m, bbits := b }
      | _, _, _ => inp := { inp with bad := some "malformed P line" }
    | ["N", n] => inp := { inp with nDecl := parseNat! n }
    | ["C", la, lo] =>
      match parseInt? la, parseInt? lo with
      | some a, some b => inp := { inp with coords := inp.coords.push (a, b) }
      | _, _ => inp := { inp with bad := some "malformed C line" }
    | ["U", u, v, w1, w2] =>
      match u.toNat?, v.toNat?, w1.toNat?, w2.toNat? with
      | some u, some v, some w1, some w2 => inp := { inp with edges := (inp.edges.push (u, v, w1)).push (v, u, w2) }
      | _, _, _, _ => inp := { inp with bad := some "malformed U line" }
    | ["E", u, v, w] =>
      match u.toNat?, v.toNat?, w.toNat? with
      | some u, some v, some w => inp := { inp with edges := inp.edges.push (u, v, w) }
      | _, _, _ => inp := { inp with bad := some "malformed E line" }
    | "R" :: rest => inp := { inp with runs := inp.runs.push (" ".intercalate rest) }
    | _ => inp := { inp with bad := some s!"unknown op line: {op.take 30}" }
  if !haveP then inp := { inp with bad := some "no P line" }
  return inp

def Input.n (inp : Input) : Nat := inp.coords.size
def Input.plainEdges (inp : Input) : List (Nat × Nat) := inp.edges.toList.map fun e => (e.1, e.2.1)
def Input.coordI (inp : Input) (i : Nat) : Int × Int := inp.coords.getD i (0, 0)
def Input.coord (inp : Input) (i : Nat) : Coord := ⟨(inp.coordI i).1, (inp.coordI i).2⟩

/-! ### the property's domain -/

def allDistinct (xs : Array Int) : Bool :=
  let s := xs.qsort (· < ·)
  (List.range (s.size - 1)).all fun i => s[i]! != s[i + 1]!

def connected (n : Nat) (edges : List (Nat × Nat)) : Bool := Id.run do
  if n = 0 then return false
  let mut adj : Array (List Nat) := Array.replicate n []
  for e in edges do
    if e.1 < n && e.2 < n then adj := adj.set! e.1 (e.2 :: adj[e.1]!)
  let mut seen : Array Bool := Array.replicate n false
  seen := seen.set! 0 true
  let mut stack : List Nat := [0]
  let mut cnt := 1
  for _ in [0:n + edges.length + 1] do
    match stack with
    | [] => break
    | u :: rest =>
      stack := rest
      for v in adj[u]! do
        if !seen[v]! then
          seen := seen.set! v true
          cnt := cnt + 1
          stack := v :: stack
  return cnt == n

def symmetric (n : Nat) (edges : List (Nat × Nat)) : Bool :=
  let key := fun (e : Nat × Nat) => e.1 * n + e.2
  let fwd := (edges.toArray.map key).qsort (· < ·)
  let bwd := (edges.toArray.map fun e => key (e.2, e.1)).qsort (· < ·)
  fwd == bwd

/-- `none` = inside the domain C05/C06 quantify over; `some why` otherwise.  `roadLike = false` (C06's one-way
    families): symmetry and connectivity are not required -/
def outsideDomain (inp : Input) (roadLike : Bool := true) : Option String :=
  let n := inp.n
  let es := inp.plainEdges
  let i32 := fun (x : Int) => decide (-2147483648 ≤ x ∧ x ≤ 2147483647)
  if let some w := inp.bad then some w
  else if inp.nDecl ≠ n then some "N does not match the number of C lines"
  else if n < 3 then some "fewer than three nodes"
  else if inp.r < 1 ∨ inp.r > 31 then some "recursion depth outside 1..31 (rejected by the command line)"
  else if inp.m < 1 then some "minimum cell size 0 (a one-node cell has no bisection)"
  else if inp.bbits > 4602678819172646912 then some "balance factor outside [0, 0.5] (rejected by the command line)"
  else if !(es.all fun e => decide (e.1 < n ∧ e.2 < n)) then some "edge end point out of range"
  else if es.any (fun e => e.1 == e.2) then some "self-loop"
  else if roadLike && !symmetric n es then some "not symmetric"
  else if roadLike && !connected n es then some "not connected"
  else if !(inp.coords.all fun c => i32 c.1 && i32 c.2 && i32 (c.1 + c.2) && i32 (c.1 - c.2)) then some "coordinate arithmetic leaves i32"
  else if !((List.range 4).all fun a => allDistinct (inp.coords.map fun c => ChipperRef.axisKeyRef a c.1 c.2)) then
    some "axis keys are not pairwise distinct"
  else none

/-! ### model -/

/-- `max(1, (n as f64 * b) as usize)` with Lean's IEEE binary64 -/
def kOfFloat (bbits : Nat) (n : Nat) : Nat :=
  sizeOfContraction (Float.ofNat n * Float.ofBits (UInt64.ofNat bbits)).toUInt64.toNat

/-- the same through exact integer arithmetic (judge) -/
def kOfExact (bbits : Nat) (n : Nat) : Nat := Tbx.Bisection.sizeOfContraction n bbits

def Input.step (inp : Input) : Step := fun e ids a k β => subStep e ids inp.coord a k β
def Input.cfg (inp : Input) : Cfg := { r := inp.r, m := inp.m, kOf := kOfFloat inp.bbits }

/-- what `io::read_graph_into_trivial_edges` / `io::read_vec_from_file` return for the files the harness wrote:
    the model ENCODES the op lines and DECODES the bytes again -/
def Input.graphBytes (inp : Input) : List Nat :=
  Bincode.encodeEdges (inp.edges.toList.map fun e => ⟨e.1, e.2.1, e.2.2⟩)
def Input.coordBytes (inp : Input) : List Nat :=
  Bincode.encodeCoords (inp.coords.toList.map fun c => ⟨c.1, c.2⟩)

structure ModelOut where
  pid    : Array Nat
  queues : List (List Job)
deriving Inhabited

/-- the model of `main` on the decoded files; `none` = the model panics -/
def runModel (inp : Input) : Option ModelOut :=
  match Bincode.decodeTrivialEdges inp.graphBytes, Bincode.decodeCoords inp.coordBytes with
  | some es, some (cs, _) =>
    let coord : Nat → Coord := fun i => match cs[i]? with | some c => ⟨c.lat, c.lon⟩ | none => ⟨0, 0⟩
    let coordArr := cs.toArray
    let coordF : Nat → Coord := fun i => match coordArr[i]? with | some c => ⟨c.lat, c.lon⟩ | none => coord i
    let step : Step := fun e ids a k β => subStep e ids coordF a k β
    match chipper step inp.cfg es cs.length with
    | some (pid, qs) => some { pid := pid, queues := qs }
    | none => none
  | _, _ => none

def strBytesSha (s : String) : String := Sha256.hashString s

/-- the observation lines that depend only on the ids (shared by model and, for cross-checking, judge) -/
def fileLines (inp : Input) (pid : Array Nat) : Array String :=
  let pb := partitionBytes pid
  let arows := ",".intercalate ((List.range pid.size).map fun i =>
    s!"{gt pid i}:{(inp.coordI i).1}:{(inp.coordI i).2}")
  let crows := ",".intercalate ((cutEdges inp.plainEdges pid).map fun e =>
    s!"{(inp.coordI e.1).1}:{(inp.coordI e.1).2}>{(inp.coordI e.2).1}:{(inp.coordI e.2).2}")
  #[s!"D pfile len={pb.length} sha={Sha256.hashBytes pb}",
    "D ids=" ++ " ".intercalate (pid.toList.map toString),
    "D arows=" ++ arows,
    "D crows=" ++ crows]

/-- the byte layout of the two CSV files (free: judged through the rows, compared strictly only for drift);
    these lines come after all `D` lines of a case -/
def csvShaLines (inp : Input) (pid : Array Nat) : Array String :=
  #[s!"F afile sha={strBytesSha (assignmentCsv pid inp.coord)} hdr=1 nl=1",
    s!"F cfile sha={strBytesSha (cutCsv inp.plainEdges pid inp.coord)} hdr=1 nl=1"]

def inputShaLine (inp : Input) : String :=
  s!"D gsha={Sha256.hashBytes inp.graphBytes} csha={Sha256.hashBytes inp.coordBytes}"

/-! ### statistics from the model's queues -/

structure Stats where
  depth      : Nat := 0      -- number of levels processed
  jobs       : Nat := 0
  lastSplit  : Nat := 0      -- jobs processed at level r-1 (their nodes are not padded)
  paddedNodes : Nat := 0     -- nodes that left the queue before level r-1 (padded by >= 1 level)
  maxCell    : Nat := 0

def statsOf (r : Nat) (qs : List (List Job)) : Stats := Id.run do
  let mut s : Stats := { depth := qs.length }
  let arr := qs.toArray
  for l in [0:arr.size] do
    let q := arr[l]!
    s := { s with jobs := s.jobs + q.length }
    if l + 1 == r then s := { s with lastSplit := q.length }
    let here := (q.map fun j => j.ids.length).foldl (· + ·) 0
    let nextSz := if l + 1 < arr.size then (arr[l + 1]!.map fun j => j.ids.length).foldl (· + ·) 0 else 0
    if l + 1 < r then s := { s with paddedNodes := s.paddedNodes + (here - nextSz) }
    if l ≥ 1 then s := { s with maxCell := max s.maxCell ((q.map fun j => j.ids.length).foldl max 0) }
  return s

/-! ### parsing the implementation's observations -/

def findLine (impl : Array String) (pfx : String) : Option String :=
  impl.findSome? fun l => if l.startsWith pfx then some (l.drop pfx.length).toString else none

def parseIds (s : String) : Option (List Nat) :=
  ((s.splitOn " ").filter (· ≠ "")).mapM String.toNat?

def parseARows (s : String) : Option (List (Nat × Int × Int)) :=
  ((s.splitOn ",").filter (· ≠ "")).mapM fun row =>
    match row.splitOn ":" with
    | [a, b, c] =>
      match a.toNat?, parseInt? b, parseInt? c with
      | some a, some b, some c => some (a, b, c)
      | _, _, _ => none
    | _ => none

def parsePoint (s : String) : Option (Int × Int) :=
  match s.splitOn ":" with
  | [a, b] =>
    match parseInt? a, parseInt? b with
    | some a, some b => some (a, b)
    | _, _ => none
  | _ => none

def parseCRows (s : String) : Option (List ((Int × Int) × (Int × Int))) :=
  ((s.splitOn ",").filter (· ≠ "")).mapM fun seg =>
    match seg.splitOn ">" with
    | [a, b] =>
      match parsePoint a, parsePoint b with
      | some a, some b => some (a, b)
      | _, _ => none
    | _ => none

/-! ### the judge -/

structure RefOut where
  sides   : Array (Option (List Bool))      -- per node
  short   : Nat                             -- nodes whose reference sides are shorter than r
deriving Inhabited

def refCell (inp : Input) : Hierarchy.Cell := { edges := inp.plainEdges, ids := List.range inp.n }

def refBest (inp : Input) : Hierarchy.Cell → Option (List Nat × List Nat) := fun c =>
  let o := ChipperRef.bestOut inp.n inp.coordI (kOfExact inp.bbits) c
  if o.bad.isSome then none else o.pick.map fun p => (p.left, p.right)

def runRef (inp : Input) : RefOut := Id.run do
  let all := Hierarchy.specAll (refBest inp) inp.m inp.r (refCell inp)
  let mut arr : Array (Option (List Bool)) := Array.replicate inp.n none
  for p in all do
    arr := arr.setIfInBounds p.1 (some p.2)
  let short := (arr.toList.filter fun o => match o with | some s => decide (s.length < inp.r) | none => true).length
  return { sides := arr, short := short }

/-- why a reference cell stayed unsplit: walks the reference tree again (only called when `short > 0`) -/
partial def diagnose (inp : Input) (d : Nat) (c : Hierarchy.Cell) : List String :=
  if d = 0 then []
  else
    let o := ChipperRef.bestOut inp.n inp.coordI (kOfExact inp.bbits) c
    match o.bad with
    | some w => [s!"judge-internal: {w} (cell of {c.ids.length} nodes)"]
    | none =>
      match o.pick with
      | none => [s!"over: every axis' cut exceeds the node count {c.ids.length} of a cell"]
      | some p =>
        let unc := c.ids.filter fun x => !p.left.contains x && !p.right.contains x
        (if unc.isEmpty then [] else [s!"uncovered: {unc.length} nodes of a cell have no edge"]) ++
        (if p.left.length > inp.m then diagnose inp (d - 1) (Hierarchy.restrict c p.left) else []) ++
        (if p.right.length > inp.m then diagnose inp (d - 1) (Hierarchy.restrict c p.right) else [])

structure JudgeOut where
  verdict : Verdict
  refShort : Nat := 0
  note : String := ""
deriving Inhabited

/-- the Spec applied to one set of files of the implementation: ids against the reference hierarchy, level,
    reports, canonical encoding.  `claimLevel = false` for the dense families. -/
def judgeFiles (inp : Input) (claimLevel : Bool) (impl : Array String) (ref : RefOut) : JudgeOut :=
  match findLine impl "D ids=" with
  | none => { verdict := .fail "no partition ids observed" }
  | some idsS =>
  match parseIds idsS with
  | none => { verdict := .fail "the partition file is not a bincode Vec<u32>" }
  | some ids =>
  if ids.length ≠ inp.n then { verdict := .fail s!"partition file has {ids.length} ids for {inp.n} nodes" }
  else
    let idArr := ids.toArray
    -- id for id against the reference
    let mism := (List.range inp.n).find? fun x =>
      match ref.sides.getD x none with
      | some s => Hierarchy.idOfSides s != idArr.getD x 0
      | none => true
    match mism with
    | some x =>
      let exp := match ref.sides.getD x none with | some s => toString (Hierarchy.idOfSides s) | none => "?"
      { verdict := .fail s!"node {x}: id {idArr.getD x 0}, the reference hierarchy gives {exp}" }
    | none =>
    -- reading the id top-down gives the reference's sides
    let rd := (List.range inp.n).find? fun x => some (Hierarchy.sidesOf (idArr.getD x 0)) != ref.sides.getD x none
    match rd with
    | some x => { verdict := .fail s!"node {x}: the id does not read back as the reference's sequence of sides" }
    | none =>
    -- reports
    let reportFail : Option String :=
      match findLine impl "F afile ", findLine impl "F cfile ", findLine impl "D arows=", findLine impl "D crows=" with
      | some af, some cf, some ar, some cr =>
        if !((words af).contains "hdr=1") then some "assignment file: wrong header line"
        else if !((words cf).contains "hdr=1") then some "cut file: wrong header line"
        else if !((words af).contains "nl=1") ∨ !((words cf).contains "nl=1") then some "a report does not end with a newline"
        else
          match parseARows ar, parseCRows cr with
          | some arows, some crows =>
            if arows ≠ Hierarchy.expectedAssignment ids inp.coordI then
              some "assignment rows are not (id, lat, lon) of every node in node order"
            else if crows ≠ Hierarchy.expectedCut inp.plainEdges ids inp.coordI then
              some "cut rows are not exactly the edges whose end points have different ids"
            else none
          | _, _ => some "a report row cannot be read as decimal micro-degrees"
      | _, _, _, _ => some "report observations missing"
    match reportFail with
    | some w => { verdict := .fail w }
    | none =>
    -- the partition file is the canonical encoding of the ids
    let pf := findLine impl "D pfile "
    let enc := partitionBytes idArr
    if pf != some s!"len={enc.length} sha={Sha256.hashBytes enc}" then
      { verdict := .fail "the partition file is not the bincode encoding of its ids" }
    else
    -- level
    let lv := (List.range inp.n).find? fun x => Tbx.Gen.pidLevel (idArr.getD x 0) != inp.r
    match lv with
    | none => { verdict := .ok, refShort := ref.short }
    | some x =>
      if !claimLevel then { verdict := .ok, refShort := ref.short, note := "level-not-claimed" }
      else
        -- ids agree with the reference, so the reference has a short node too: why?
        let why := diagnose inp inp.r (refCell inp)
        match why.find? (fun w => w.startsWith "judge-internal") with
        | some w => { verdict := .fail w }
        | none =>
          match why.find? (fun w => w.startsWith "over") with
          | some w => { verdict := .skip s!"outside the domain ({w})", refShort := ref.short }
          | none =>
            { verdict := .fail s!"node {x}: id {idArr.getD x 0} has level {Tbx.Gen.pidLevel (idArr.getD x 0)}, not {inp.r}" }

end Tbx.Drv.Chipper
