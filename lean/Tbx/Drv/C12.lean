import Std.Data.HashMap
import Tbx.Drv.Common
import Tbx.Model.RTree
import Tbx.Model.RTreeHeap
import Tbx.Spec.Nearest
/-
Driver for C12 (R-tree nearest-first iteration).

ops:   Q <lat> <lon> | E <id> <lat> <lon> | X <id> <lat1> <lon1> <lat2> <lon2> ...   (X: an element with several
       sites; centre = first site, bbox = box of all sites, distance_to = minimum over the sites)
obs (same order on both sides):
  P dist <id>:<bits> ...     input of the model (value of distance_to), echoed
  F order <id> ...           ids after the stable Z-order sort          (model: `zsort`)
  F levels / F nodes / F nbox / F lbox                                   (model: `bulkLoad`, `Box.union`)
  P nprio / P lprio <bits>   input of the model (value of min_distance per search node / leaf), echoed
  D count=  D set <id>:<bits>...   what the iteration yielded, as a multiset
  D sorted=0/1               printed with class F by the model when some search node box is inadmissible
                             (then the contract of the queue does not determine the order)
  F seq <id>:<bits> ...      the yielded sequence

Judge (uses the I lines only): `Tbx.Nearest.completeB` and `nondecB` on the yielded sequence against the
ids of the E lines and the `P dist` values.  An ordering failure is attributed to D7 iff EVERY element that
was yielded after a farther one has an enclosing search node (in the structure reported by `verif_nodes`,
leaf membership from `F order`, validated against the reported leaf boxes) whose box contains the element
and whose priority exceeds the
element's distance while the query lies outside the box (the root excepted: it is alone in the queue when it is popped); the leaf boxes' own `min_distance` is never used by the iterator and is only counted.
-/
namespace Tbx.Drv.C12
open Tbx Tbx.Drv Tbx.RTree

def B : Nat := Tbx.Gen.rtreeBranchingFactor
def L : Nat := Tbx.Gen.rtreeLeafPackFactor

/-- id, centre (what the Z-order sort uses), bounding box (what the leaf boxes are built from) -/
abbrev Elem := Nat × Coord × Box

def _root_.Tbx.RTree.Box.containsBox (b o : Box) : Bool :=
  decide (b.minLat ≤ o.minLat) && decide (o.maxLat ≤ b.maxLat) && decide (b.minLon ≤ o.minLon) && decide (o.maxLon ≤ b.maxLon)

def pairsOf : List Int → Option (List Coord)
  | [] => some []
  | a :: b :: rest => (pairsOf rest).map (⟨a, b⟩ :: ·)
  | [_] => none

def tagged (tag : String) (items : List String) : String :=
  items.foldl (fun acc s => acc ++ " " ++ s) tag

def showBox (b : Box) : String := s!"{b.minLat},{b.minLon},{b.maxLat},{b.maxLon}"

def parsePair (s : String) : Option (Nat × Nat) :=
  match s.splitOn ":" with
  | [a, b] => match a.toNat?, b.toNat? with
    | some x, some y => some (x, y)
    | _, _ => none
  | _ => none

def parseBox (s : String) : Option Box :=
  match (s.splitOn ",").map parseInt? with
  | [some a, some b, some c, some d] => some ⟨a, b, c, d⟩
  | _ => none

/-- the items of the impl line starting with `tag ` (or exactly `tag`) -/
def lineItems (impl : Array String) (tag : String) : Option (List String) :=
  impl.findSome? fun l =>
    if l == tag then some []
    else if l.startsWith (tag ++ " ") then some (words (l.drop (tag.length + 1)).toString)
    else none

def allSome {β : Type} (xs : List (Option β)) : Option (List β) :=
  xs.foldr (fun x acc => match x, acc with | some v, some l => some (v :: l) | _, _ => none) (some [])

/-- largest finite non-negative double: 0x7FEFFFFFFFFFFFFF; anything above is inf / NaN / negative -/
def maxFiniteBits : Nat := 0x7FEFFFFFFFFFFFFF
def bigKey : Nat := 0xFFFFFFFFFFFFFFFFFF

/-- structure as arrays: for every search node the range of children and, derived, parents -/
structure Hook where
  nLeaves : Nat
  nodes : Array SNode
  ends : List Nat
  nprio : Array Nat

/-- children of search node `i`: leaves for kind 0, search nodes for kind 1 (as the iterator expands them) -/
def Hook.childRange (h : Hook) (i : Nat) : Nat × Nat :=
  let nd := h.nodes.getD i default
  if nd.kind = 0 then (nd.first, min (nd.first + B) h.nLeaves)
  else (nd.first, nd.first + childrenCount B h.ends nd.first)

/-- (group of every leaf, parent of every search node); `none`-valued entries = not covered -/
def Hook.parents (h : Hook) : Array (Option Nat) × Array (Option Nat) := Id.run do
  let mut grp : Array (Option Nat) := Array.replicate h.nLeaves none
  let mut par : Array (Option Nat) := Array.replicate h.nodes.size none
  for i in [0:h.nodes.size] do
    let (lo, hi) := h.childRange i
    if (h.nodes.getD i default).kind = 0 then
      for j in [lo:hi] do
        if j < grp.size then grp := grp.set! j (some i)
    else
      for j in [lo:hi] do
        if j < par.size && j < i then par := par.set! j (some i)
  return (grp, par)

/-- minimum distance of the elements below every leaf and every search node -/
def minBelow (h : Hook) (leafMin : Array Nat) : Array Nat := Id.run do
  let mut mb : Array Nat := Array.replicate h.nodes.size bigKey
  for i in [0:h.nodes.size] do
    let (lo, hi) := h.childRange i
    let mut m := bigKey
    if (h.nodes.getD i default).kind = 0 then
      for j in [lo:hi] do m := min m (leafMin.getD j bigKey)
    else
      for j in [lo:hi] do
        if j < i then m := min m (mb.getD j bigKey)
    mb := mb.set! i m
  return mb

def countInadmissible (prio below : Array Nat) (upto : Nat := below.size) : Nat := Id.run do
  let mut k := 0
  for i in [0:min upto below.size] do
    if prio.getD i 0 > below.getD i bigKey then k := k + 1
  return k

/-- leaf `j`'s elements in a sorted id order, for leaves of `lsz` elements -/
def leafSlice (lsz : Nat) (order : Array Nat) (j : Nat) : List Nat :=
  (order.extract (lsz * j) (lsz * j + lsz)).toList

/-- leaf sizes under which `n` elements make `nl` leaves: the constant from /repo first, then any other
(a harmless repacking must not turn D7 cases into unattributable ones) -/
def leafSizeCandidates (n nl : Nat) : List Nat :=
  if nl = 0 then [L]
  else
    let lo := ceilDiv n nl
    L :: ((List.range 4).map (· + lo)).filter fun c => c != L && c > 0 && ceilDiv n c == nl

structure Parsed where
  q : Coord
  elems : Array Elem

def parseOps (ops : Array String) : Option Parsed := Id.run do
  let mut q : Option Coord := none
  let mut es : Array Elem := #[]
  for l in ops do
    match words l with
    | ["Q", a, b] =>
      match parseInt? a, parseInt? b with
      | some x, some y => q := some ⟨x, y⟩
      | _, _ => return none
    | ["E", i, a, b] =>
      match i.toNat?, parseInt? a, parseInt? b with
      | some id, some x, some y => es := es.push (id, ⟨x, y⟩, Box.ofCoord ⟨x, y⟩)
      | _, _, _ => return none
    | "X" :: i :: rest =>
      -- an element with several sites: centre = first site, bbox = box of all sites
      match i.toNat?, (allSome (rest.map parseInt?)).bind pairsOf with
      | some id, some (c0 :: sites) => es := es.push (id, c0, Box.union ((c0 :: sites).map Box.ofCoord))
      | _, _ => return none
    | _ => return none
  return q.map fun qq => ⟨qq, es⟩

def inI32 (x : Int) : Bool := decide (i32Min ≤ x) && decide (x ≤ i32Max)

def showSeq (xs : List (Nat × Nat)) : List String := xs.map fun p => s!"{p.1}:{p.2}"

def pairLe (a b : Nat × Nat) : Bool := a.1 < b.1 || (a.1 == b.1 && a.2 ≤ b.2)

/-- ids sorted inside every maximal run of equal distance (order among equal distances is free) -/
def canonRuns (seq : List (Nat × Nat)) : List (Nat × Nat) := Id.run do
  let mut out : Array (Nat × Nat) := #[]
  let mut run : List (Nat × Nat) := []
  for p in seq do
    match run with
    | [] => run := [p]
    | r :: _ =>
      if r.2 == p.2 then run := p :: run
      else
        out := out ++ (run.mergeSort pairLe).toArray
        run := [p]
  out := out ++ (run.mergeSort pairLe).toArray
  return out.toList

def handle (c : Case) : CaseOut := Id.run do
  let some p := parseOps c.ops | return { model := #[], verdict := .skip "unparsable ops" }
  let n := p.elems.size
  let ids := p.elems.toList.map (·.1)
  -- domain of the property's quantifier
  let sortedIds := ids.mergeSort (fun a b => decide (a ≤ b))
  let distinct := (sortedIds.zip (sortedIds.drop 1)).all fun ab => ab.1 != ab.2
  if !distinct then return { model := #[], verdict := .skip "element ids are not distinct" }
  if !(p.elems.all fun e => inI32 e.2.2.minLat && inI32 e.2.2.minLon && inI32 e.2.2.maxLat && inI32 e.2.2.maxLon)
      || !(inI32 p.q.lat && inI32 p.q.lon) then
    return { model := #[], verdict := .skip "coordinate outside i32" }
  let boxOf : Std.HashMap Nat Box := p.elems.foldl (fun m e => m.insert e.1 e.2.2) {}
  -- ---------------------------------------------------------------- inputs supplied by the hooks
  let distItems := (lineItems c.impl "P dist").bind fun ws => allSome (ws.map parsePair)
  let nprioItems := (lineItems c.impl "P nprio").bind fun ws => allSome (ws.map (·.toNat?))
  let lprioItems := (lineItems c.impl "P lprio").bind fun ws => allSome (ws.map (·.toNat?))
  let some distL := distItems
    | return { model := #[], verdict := .fail s!"no distances observed: {" | ".intercalate (c.impl.toList.take 3)}" }
  let distMap : Std.HashMap Nat Nat := distL.foldl (fun m p => m.insert p.1 p.2) {}
  let dist (id : Nat) : Nat := distMap.getD id bigKey
  if distL.map (·.1) != ids then
    return { model := #[], verdict := .fail "harness: P dist does not list exactly the elements" }
  if distL.any (fun p => p.2 > maxFiniteBits) then
    return { model := #[], verdict := .skip "a distance is not a finite non-negative double" }
  let nprio : Array Nat := (nprioItems.getD []).toArray
  if nprio.any (· > maxFiniteBits) then
    return { model := #[], verdict := .skip "a box priority is not a finite non-negative double" }
  -- ---------------------------------------------------------------- model
  let sorted : List Elem := zsort (·.2.1) p.elems.toList
  let mut out : Array String := #[]
  out := out.push (tagged "P dist" (showSeq distL))
  out := out.push (tagged "F order" (sorted.map fun e => toString e.1))
  let mut modelNote := ""
  let mut mInadm := 0
  let mut mNodes := 0
  let mut mLevels := 0
  let mut mGroups := 0
  match bulkLoad B L sorted with
  | none => modelNote := "model-out-of-fuel (bulk loader)"
  | some t =>
    let leafBoxes : Array Box := (t.leaves.map fun lf => Box.union (lf.map fun e => e.2.2)).toArray
    let nodesA := t.nodes.toArray
    let hk : Hook := ⟨t.leaves.length, nodesA, t.ends, nprio⟩
    let mut nbox : Array Box := #[]
    for i in [0:nodesA.size] do
      let (lo, hi) := hk.childRange i
      let kids : List Box :=
        if (nodesA.getD i default).kind = 0 then (leafBoxes.extract lo hi).toList else (nbox.extract lo hi).toList
      nbox := nbox.push (Box.union kids)
    out := out.push (tagged "F levels" (t.ends.map toString))
    out := out.push (tagged "F nodes" (t.nodes.map fun nd => s!"{nd.kind}:{nd.first}"))
    out := out.push (tagged "F nbox" (nbox.toList.map showBox))
    out := out.push (tagged "F lbox" (leafBoxes.toList.map showBox))
    out := out.push (tagged "P nprio" ((nprioItems.getD []).map toString))
    out := out.push (tagged "P lprio" ((lprioItems.getD []).map toString))
    mNodes := nodesA.size
    mLevels := t.ends.length
    mGroups := (t.nodes.filter (·.kind == 0)).length
    let leafMin : Array Nat := (t.leaves.map fun lf => lf.foldl (fun m e => min m (dist e.1)) bigKey).toArray
    mInadm := countInadmissible nprio (minBelow hk leafMin) (nodesA.size - 1)
    let fuel := nodesA.size + n + 2
    match collect heapPQ B t (fun e => dist e.1) (fun i => nprio.getD i 0) fuel fuel with
    | .ok res =>
      let seq := res.map fun r => (r.1.1, r.2)
      let set := seq.mergeSort pairLe
      out := out.push s!"D count={seq.length}"
      out := out.push (tagged "D set" (showSeq set))
      let fl := if Nearest.nondecB (seq.map (·.2)) then "1" else "0"
      -- a sorted run is what the property demands; an unsorted run of the model is possible only with an
      -- inadmissible non-root box (Props.C12.iter_sorted), where the queue contract does not determine the order
      out := out.push ((if fl == "1" || mInadm == 0 then "D" else "F") ++ s!" sorted={fl}")
      out := out.push (tagged "F seq" (showSeq (canonRuns seq)))
      -- `nth` / `skip` / `step_by` / `take.last` of the real iterator agree with its own `next()` sequence
      out := out.push "D adapt=ok"
    | .panic => modelNote := "model reached a panic branch"
    | .outOfFuel => modelNote := "model-out-of-fuel (iterator)"
  -- ---------------------------------------------------------------- judge (I lines only)
  let mut stats : List (String × String) := []
  let mut verdict : Verdict := .ok
  let mut inadm := 0
  let mut inadmLeaf := 0
  let mut inadmNonRoot := 0
  let mut late := 0
  let seqItems := (lineItems c.impl "F seq").bind fun ws => allSome (ws.map parsePair)
  if c.impl.any (fun l => l == "PANIC" || l == "HANG" || l == "ABORT") then
    verdict := .fail s!"implementation did not finish: {c.impl.toList.getLast?.getD ""} (n={n}, query {p.q.lat} {p.q.lon})"
  else if c.impl.any (· == "D runaway") then
    verdict := .fail s!"iteration yields more than 2n+16 items (n={n})"
  else
    match seqItems with
    | none => verdict := .fail "no yielded sequence observed"
    | some seq =>
      -- harness consistency: the canonical D lines are derived from the sequence
      let cnt := (lineItems c.impl s!"D count={seq.length}").isSome
      let setOk := lineItems c.impl "D set" == some (showSeq (seq.mergeSort pairLe))
      let isSorted := Nearest.nondecB (seq.map (·.2))
      let flagOk := (lineItems c.impl s!"D sorted={if isSorted then 1 else 0}").isSome
      let adaptBad := c.impl.toList.find? fun l => l.startsWith "D adapt=" && l != "D adapt=ok"
      if !(cnt && setOk && flagOk) then
        verdict := .fail "harness: D lines inconsistent with the yielded sequence"
      else if let some l := adaptBad then
        verdict := .fail s!"iterator adaptor hands out another item than iterating with next(): {l.drop 8} (n={n}, query {p.q.lat} {p.q.lon})"
      else if !(Nearest.completeB ids dist seq) then
        -- describe the first problem
        let outIds := (seq.map (·.1)).mergeSort (fun a b => decide (a ≤ b))
        let dup := (outIds.zip (outIds.drop 1)).find? fun ab => ab.1 == ab.2
        let inSet : Std.HashMap Nat Unit := seq.foldl (fun m p => m.insert p.1 ()) {}
        let missing := ids.find? fun i => !inSet.contains i
        let extra := seq.find? fun p => !distMap.contains p.1
        let wrong := seq.find? fun p => distMap.contains p.1 && p.2 != dist p.1
        let why :=
          match dup, missing, extra, wrong with
          | some d, _, _, _ => s!"element {d.1} yielded more than once"
          | _, some m, _, _ => s!"element {m} never yielded"
          | _, _, some x, _ => s!"yielded id {x.1} is not a stored element"
          | _, _, _, some w => s!"element {w.1} yielded with distance bits {w.2}, distance_to gives {dist w.1}"
          | _, _, _, _ => "multiset of yielded elements differs from the stored elements"
        verdict := .fail s!"completeness: {why} (n={n}, yielded {seq.length}, query {p.q.lat} {p.q.lon})"
      else
        -- the structure the real tree reports
        let orderI := (lineItems c.impl "F order").bind fun ws => allSome (ws.map (·.toNat?))
        let levelsI := (lineItems c.impl "F levels").bind fun ws => allSome (ws.map (·.toNat?))
        let nodesI := (lineItems c.impl "F nodes").bind fun ws => allSome (ws.map parsePair)
        let lboxI := (lineItems c.impl "F lbox").bind fun ws => allSome (ws.map parseBox)
        let nboxA : Array Box := (((lineItems c.impl "F nbox").bind fun ws => allSome (ws.map parseBox)).getD []).toArray
        let mut attributable := false
        let mut grp : Array (Option Nat) := #[]
        let mut par : Array (Option Nat) := #[]
        let mut leafOf : Std.HashMap Nat Nat := {}
        match orderI, levelsI, nodesI, lboxI with
        | some order, some levels, some nodes, some lbox =>
          let orderA := order.toArray
          let nl := lbox.length
          let hk : Hook := ⟨nl, (nodes.map fun p => (⟨p.1, p.2⟩ : SNode)).toArray, levels, nprio⟩
          -- leaf membership from the sorted order, validated against the reported leaf boxes
          let okOrder := order.mergeSort (fun a b => decide (a ≤ b)) == sortedIds
          let lboxA := lbox.toArray
          let okL (lsz : Nat) : Bool :=
            nl == ceilDiv n lsz && (List.range nl).all fun j =>
              Box.union ((leafSlice lsz orderA j).map fun i => boxOf.getD i default) == lboxA.getD j default
          let lszO := (leafSizeCandidates n nl).find? okL
          if let (true, true, some lsz) := (okOrder, nprio.size == nodes.length, lszO) then
            attributable := true
            let (g, pr) := hk.parents
            grp := g; par := pr
            leafOf := Id.run do
              let mut m : Std.HashMap Nat Nat := {}
              for k in [0:orderA.size] do m := m.insert (orderA.getD k 0) (k / lsz)
              return m
            let leafMin : Array Nat := ((List.range nl).map fun j =>
              (leafSlice lsz orderA j).foldl (fun m i => min m (dist i)) bigKey).toArray
            inadm := countInadmissible nprio (minBelow hk leafMin)
            inadmNonRoot := countInadmissible nprio (minBelow hk leafMin) (nodes.length - 1)
            inadmLeaf := countInadmissible (lprioItems.getD []).toArray leafMin
        | _, _, _, _ => pure ()
        if !isSorted then
          -- every element yielded after a farther one must have an inadmissible enclosing search node
          let mut mx := 0
          let mut unattributed : Option (Nat × Nat × Nat) := none
          let mut firstLate : Option (Nat × Nat × Nat × Nat) := none
          for pr in seq do
            if pr.2 < mx then
              late := late + 1
              let mut found : Option Nat := none
              if attributable then
                let mut cur : Option Nat := (leafOf.get? pr.1).bind fun j => (grp.getD j none)
                let mut guard := hkGuard par
                while cur.isSome && guard > 0 do
                  guard := guard - 1
                  match cur with
                  | some a =>
                    -- the root (last search node) is alone in the queue when popped: its priority is never compared
                    -- and the box must really enclose the element: then `min_distance(box) > distance(element)`
                    -- says that the corner minimum is not a lower bound of the distance to the box (D7)
                    -- D7 is about queries OUTSIDE the box (corner minimum instead of the distance to the box); a box
                    -- that contains the query (borders included) must have distance 0 and is never excused
                    let bx := nboxA.getD a default
                    let qIn := decide (bx.minLat ≤ p.q.lat) && decide (p.q.lat ≤ bx.maxLat) &&
                               decide (bx.minLon ≤ p.q.lon) && decide (p.q.lon ≤ bx.maxLon)
                    if a + 1 < nprio.size && nprio.getD a 0 > pr.2 && found.isNone && !qIn
                        && a < nboxA.size && bx.containsBox (boxOf.getD pr.1 default) then
                      found := some a
                    cur := par.getD a none
                  | none => pure ()
              match found with
              | some a => if firstLate.isNone then firstLate := some (pr.1, pr.2, a, nprio.getD a 0)
              | none => if unattributed.isNone then unattributed := some (pr.1, pr.2, mx)
            else mx := pr.2
          match unattributed, firstLate with
          | some (id, d, m), _ =>
            let why := if attributable then "although no non-root search node above it has both a box containing the element and a priority > its distance"
              else "and the reported structure (F order / F lbox / F nodes) does not validate, so nothing can be attributed to D7"
            verdict := .fail s!"ordering: element {id} (distance bits {d}) yielded after distance bits {m} {why} (n={n}, query {p.q.lat} {p.q.lon})"
          | none, some (id, d, a, pa) =>
            verdict := .fail s!"[D7-bbox-min-distance] ordering: {late} element(s) yielded late, each below a search node whose min_distance exceeds the element's distance; e.g. element {id} (distance bits {d}) below search node {a} with priority bits {pa} (n={n}, query {p.q.lat} {p.q.lon})"
          | none, none => verdict := .fail "ordering: sequence not sorted but no late element found (judge bug)"
  if modelNote != "" && (verdict matches .ok) then
    verdict := .fail modelNote
  let nontrivial := mGroups ≥ 2 && mInadm == 0 && (verdict matches .ok)
  stats := [("nontrivial", if nontrivial then "1" else "0"), ("n", toString n), ("nodes", toString mNodes),
            ("levels", toString mLevels), ("groups", toString mGroups), ("inadm_model", toString mInadm),
            ("inadm_nodes", toString inadm), ("inadm_nonroot", toString inadmNonRoot),
            ("inadm_leafboxes", toString inadmLeaf),
            ("cases_with_inadm_nonroot", if inadmNonRoot > 0 then "1" else "0"),
            ("multi_group", if mGroups ≥ 2 then "1" else "0"),
            ("multi_group_admissible", if mGroups ≥ 2 && mInadm == 0 then "1" else "0"),
            ("late_elements", toString late)]
  return { model := out, verdict := verdict, stats := stats }
where
  hkGuard (par : Array (Option Nat)) : Nat := par.size + 2

end Tbx.Drv.C12
