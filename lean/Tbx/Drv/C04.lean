import Tbx.Drv.Common
import Tbx.Model.Bound
import Tbx.Model.FlowDinic
/-
Driver for C04 (shared upper bound under all interleavings).

ops:  N <n> | B <B0> | P <i> <f1> ... <fk>   (accumulated flow after each phase of solver i's unbounded run)
      G <i> <s> <t> <u:v:c> ...               (solver i's graph; used by the executor only)
      S <i1> <i2> ...                          (schedule: which solver performs its next bound access)
After the schedule both sides complete the remaining solvers lowest id first.
obs:  D <k> i=<i> kind=<load|fmin|noop> flow=<f> st=<R|A|F> bound=<b>     per event
      D out i=<i> st=<A|F> value=<flow|ERR>                                 per solver
      D final bound=<b>
-/
namespace Tbx.Drv.C04
open Tbx Tbx.Drv Tbx.Bound

def stS : Status → String
  | .running _ => "R"
  | .aborted => "A"
  | .finished => "F"

def lastD (l : List Int) : Int := l.getLast?.getD 0

/-- run the model on a schedule (SC loads: the observed value is the current bound), then complete -/
def simulate (N : Nat) (P : Fin N → Proc) (B0 : Int) (sched : List Nat) (assignOf : Nat → String) : Array String × St N := Id.run do
  let mut s : St N := init B0
  let mut out : Array String := #[]
  let mut k := 0
  let doEvent := fun (s : St N) (i : Fin N) (k : Nat) =>
    let line :=
      match s.st i with
      | .running pc =>
        if h : pc < (P i).phases.length then
          let s' := step P s i s.bound
          (s!"D {k} i={i.val} kind=load flow={(P i).phases[pc]} st={stS (s'.st i)} bound={s'.bound}", s')
        else
          let s' := step P s i s.bound
          (s!"D {k} i={i.val} kind=fmin flow={(P i).F} st={stS (s'.st i)} bound={s'.bound}", s')
      | _ => (s!"D {k} i={i.val} kind=noop", s)
    line
  for n in sched do
    if h : n < N then
      let (l, s') := doEvent s ⟨n, h⟩ k
      out := out.push l; s := s'; k := k + 1
    else
      out := out.push s!"D {k} i={n} kind=noop"; k := k + 1
  -- completion: lowest running id first (fuel: total number of remaining events is bounded)
  let total := (List.finRange N).foldl (fun a i => a + (P i).phases.length + 1) 0
  for _ in [0:total] do
    match (List.finRange N).find? (fun i => match s.st i with | .running _ => true | _ => false) with
    | some i =>
      let (l, s') := doEvent s i k
      out := out.push l; s := s'; k := k + 1
    | none => break
  for i in List.finRange N do
    let v := match s.st i with
      | .finished => toString (P i).F
      | _ => "ERR"
    let a := match s.st i with
      | .finished => assignOf i.val
      | _ => "-"
    out := out.push s!"D out i={i.val} st={stS (s.st i)} value={v} assign={a}"
  out := out.push s!"D final bound={s.bound}"
  return (out, s)

/-- accumulated flow after each phase of the Dinic MODEL (C01: `Tbx.Flow.Dinic`, proved to return the maximum
    flow) on solver i's graph, plus the model's canonical source-side assignment of the finished run -/
def modelPhases (es : List Flow.Edge) (s t : Nat) : Option (List Int × List Bool) :=
  match Flow.Dinic.fromEdgeList es s t with
  | none => none
  | some d =>
    let n := d.g.numNodes
    if d.source ≥ n ∨ d.target ≥ n then none
    else
      let d0 := { d with parents := Array.replicate n 0, level := Array.replicate n Flow.INV }
      let cap := es.foldl (fun a e => a + e.cap.toNat) 2
      let rec loop (fuel : Nat) (d : Flow.Dinic) (flow : Int) (acc : List Int) : Option (Flow.Dinic × Int × List Int) :=
        match fuel with
        | 0 => none
        | fuel + 1 =>
          match d.bfs with
          | none => none
          | some (d1, false) => some (d1, flow, acc.reverse)
          | some (d1, true) =>
            match d1.dfs with
            | none => none
            | some (d2, bf) => loop fuel d2 (flow + bf) ((flow + bf) :: acc)
      match loop cap d0 0 [] with
      | none => none
      | some (d', flow, ph) =>
        let fin : Flow.Dinic := { d' with maxFlow := flow, finished := true }
        match fin.assignment? s with
        | .ok bits => some (ph, bits.toList)
        | _ => none

def parseEdge (t : String) : Option Flow.Edge :=
  match t.splitOn ":" with
  | [a, b, c] => some ⟨parseNat! a, parseNat! b, parseInt! c⟩
  | _ => none

def field (line key : String) : Option String :=
  (words line).findSome? fun w => if w.startsWith (key ++ "=") then some (w.drop (key.length + 1)).toString else none

def handle (c : Case) : CaseOut := Id.run do
  let mut N := 0
  let mut B0 : Int := 0
  let mut procs : Array Proc := #[]
  let mut sched : List Nat := []
  let mut graphs : Array (Nat × Nat × Nat × List Flow.Edge) := #[]
  for l in c.ops do
    match words l with
    | ["N", n] => N := parseNat! n; procs := Array.replicate N ⟨[], 0⟩
    | ["B", b] => B0 := parseInt! b
    | "P" :: i :: fs =>
      let ph := fs.map parseInt!
      procs := procs.setIfInBounds (parseNat! i) ⟨ph, lastD ph⟩
    | ["PR", i, f] =>
      -- a computation that completed a plain `run()` before joining the bound: no phase left, F known
      procs := procs.setIfInBounds (parseNat! i) ⟨[], parseInt! f⟩
    | "S" :: is => sched := is.map parseNat!
    | "G" :: i :: a :: b :: es =>
      graphs := graphs.push (parseNat! i, parseNat! a, parseNat! b, es.filterMap parseEdge)
    | _ => return { model := #[], verdict := .skip s!"unparsable op '{l}'" }
  if N == 0 || procs.size != N then return { model := #[], verdict := .skip "no solvers" }
  let P : Fin N → Proc := fun i => procs.getD i.val ⟨[], 0⟩
  -- well-formedness of the process descriptions (what C01 guarantees): flows nondecreasing, ≥ 0
  let wf := procs.all fun p => p.phases.all (fun x => decide (x ≤ p.F)) && p.phases.all (fun x => decide (0 ≤ x))
  if !wf then return { model := #[], verdict := .skip "phase flows not bounded by the final flow" }
  let assignTab : Array String := Id.run do
    let mut t : Array String := Array.replicate N "-"
    for (i, src, tgt, es) in graphs do
      match modelPhases es src tgt with
      | some (_, bits) => t := t.setIfInBounds i (String.join (bits.map fun b => if b then "1" else "0"))
      | none => pure ()
    return t
  let (out, _) := simulate N P B0 sched (fun i => assignTab.getD i "-")
  -- judge: the clauses of C04 on the implementation's outcome, from the I lines alone
  let outs := c.impl.filter (·.startsWith "D out ")
  let fin := (c.impl.filter (·.startsWith "D final ")).getD 0 ""
  let mut verdict : Verdict := .ok
  if outs.size != N || fin == "" then
    verdict := .fail s!"implementation reported {outs.size} outcomes for {N} solvers: {c.impl.toList.take 6}"
  else
    let minF := (List.finRange N).foldl (fun m i => min m (P i).F) ((procs.getD 0 ⟨[], 0⟩).F)
    let mut finishedMin : Int := B0
    for i in List.finRange N do
      let l := outs.getD i.val ""
      let st := (field l "st").getD "?"
      let v := (field l "value").getD "?"
      if st == "F" then
        finishedMin := min finishedMin (P i).F
        if v != toString (P i).F then
          verdict := .fail s!"solver {i.val} completed and reports {v}, its true maximum flow is {(P i).F}"
      else if st == "A" then
        if v != "ERR" then verdict := .fail s!"solver {i.val} was aborted but reports a value {v}"
        if (P i).F == minF && (P i).F ≤ B0 then
          verdict := .fail s!"solver {i.val} has the smallest true flow {(P i).F} ≤ initial bound {B0} but did not complete"
      else verdict := .fail s!"solver {i.val}: unknown status {st}"
    match (field fin "bound").bind parseInt? with
    | some b =>
      if b != finishedMin then
        verdict := .fail s!"final bound {b} ≠ min(initial bound, completed flows) = {finishedMin}"
    | none => verdict := .fail "no final bound"
    -- the abstraction itself: the phase flows recorded from the real unbounded run (P lines) are those of the
    -- Dinic MODEL on the same graph (C01 proves that model returns the maximum flow), and a finished bounded
    -- run's assignment is the model's canonical minimum cut (C02)
    for (i, src, tgt, es) in graphs do
      if verdict matches .ok then
        match modelPhases es src tgt with
        | none => verdict := .fail s!"solver {i}: the Dinic model does not return on this graph (model-out-of-fuel)"
        | some (ph, bits) =>
          let recordedF := (procs.getD i ⟨[], 0⟩).F
          let recorded := (procs.getD i ⟨[], 0⟩).phases
          -- Which blocking flow a phase finds (hence the intermediate phase flows, and how often the bound is
          -- consulted) is a free choice of the implementation; what the property determines is the END of the
          -- sequence: the unbounded run's last accumulated flow is THE maximum flow (the model's, by C01's theorem)
          if recordedF != ph.getLast?.getD 0 then
            verdict := .fail s!"solver {i}: the real unbounded run ends with flow {recordedF}, the maximum flow is {ph.getLast?.getD 0} (phase flows {recorded}, Dinic model {ph})"
          else
            let want := String.join (bits.map fun b => if b then "1" else "0")
            for l in c.impl do
              if l.startsWith s!"D out i={i} " then
                match field l "assign" with
                | some a => if a != "-" && a != want then
                    verdict := .fail s!"solver {i} completed but its assignment {a} is not the canonical minimum cut {want}"
                | none => pure ()
    -- the bounded runs executed the phases of the unbounded runs
    for l in c.impl do
      if (verdict matches .ok) && l.startsWith "D " && (field l "kind") == some "load" then
        match (field l "i").map parseNat!, (field l "flow").bind parseInt? with
        | some i, some f =>
          if !((procs.getD i ⟨[], 0⟩).phases.contains f) then
            verdict := .fail s!"solver {i} checked the bound with accumulated flow {f}, which is not a phase flow of its unbounded run"
        | _, _ => pure ()
  let events := out.size - N - 1
  let aborted := (out.filter (fun l => l.startsWith "D out" && (field l "st") == some "A")).size
  let nontrivial := N ≥ 2 && aborted ≥ 1 && aborted < N
  return { model := out, verdict := verdict,
           stats := [("nontrivial", if nontrivial then "1" else "0"), ("solvers", toString N), ("events", toString events),
                     ("aborted", toString aborted)] }

end Tbx.Drv.C04
