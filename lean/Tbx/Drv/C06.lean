import Tbx.Drv.ChipperCommon
/-
Driver for C06 (chipper's output is independent of thread count and scheduling).

ops: see Tbx/Drv/ChipperCommon.lean; one `R n=<threads|-> pin=<cpus|-> jit=<0|1>` line per run of the binary, the
first one being `-n 1`.
obs (all determined):
  D rc=…, D gsha=…, D pfile …, D ids=…, D afile …, D arows=…, D cfile …, D crows=…     the first run, as for C05
  D jobs L<level>:<ids>|<ids>|…            job log of the first run (hook TOOLBOX_RS_VERIF_JOBLOG), jobs sorted by
                                           smallest id, ids ascending
  D run <k> <R line> rc=0 p=<sha256> j=<sha256 of the canonical job log>      every run
  F runcsv <k> a=<sha256> c=<sha256>                                         every run (equal across runs: judged)
Model: the sequential reference `Tbx.Chipper.chipper` once; it predicts the same files and the same job sets for
EVERY run (that is `Tbx.Props.C06.par_eq_seq`).
Judge: every run exits 0 and has the hashes of the first run; the first run's files satisfy the C05 Spec
(reference hierarchy, reports); per level the logged jobs are pairwise disjoint (`Tbx.Hierarchy.disjointAll`),
level 0 is the whole node set and every job is contained in one job of the level above.
-/
namespace Tbx.Drv.C06
open Tbx Tbx.Drv Tbx.Drv.Chipper Tbx.Chipper

def insertSorted (x : Nat) : List Nat → List Nat
  | [] => [x]
  | y :: ys => if x ≤ y then x :: y :: ys else y :: insertSorted x ys

def sortNat (xs : List Nat) : List Nat := (xs.toArray.qsort (· < ·)).toList

/-- canonical text of one level's queue -/
def jobsLine (lvl : Nat) (q : List Job) : String :=
  let sets := q.map fun j => sortNat j.ids
  let sorted := (sets.toArray.qsort fun a b => a.headD 0 < b.headD 0).toList
  s!"L{lvl}:" ++ "|".intercalate (sorted.map fun s => " ".intercalate (s.map toString))

def jobLines (qs : List (List Job)) : List String :=
  (List.range qs.length).map fun l => jobsLine l (qs.getD l [])

def parseJobsLine (s : String) : Option (Nat × List (List Nat)) :=
  match s.splitOn ":" with
  | [l, body] =>
    if !l.startsWith "L" then none
    else
      match (l.drop 1).toString.toNat? with
      | none => none
      | some lvl =>
        match (body.splitOn "|").mapM (fun j => ((j.splitOn " ").filter (· ≠ "")).mapM String.toNat?) with
        | some jobs => some (lvl, jobs)
        | none => none
  | _ => none

def subsetOfOne (job : List Nat) (parents : List (Array Bool)) : Bool :=
  parents.any fun p => job.all fun x => p.getD x false

def markSet (n : Nat) (ids : List Nat) : Array Bool :=
  ids.foldl (fun a x => a.setIfInBounds x true) (Array.replicate n false)

/-- the disjointness clause on a logged run -/
def jobsJudge (n r : Nat) (levels : List (Nat × List (List Nat))) : Option String := Id.run do
  if levels.isEmpty then return some "no job was logged"
  let mut prev : List (Array Bool) := []
  let mut k := 0
  for (lvl, jobs) in levels do
    if lvl ≠ k then return some s!"job log: level {k} missing"
    if lvl ≥ r then return some s!"job log: a job at level {lvl} although the recursion depth is {r}"
    if jobs.any (fun j => j.any (fun x => decide (x ≥ n))) then return some s!"job log: node id out of range at level {lvl}"
    if !(jobs.all fun j => (List.range (j.length - 1)).all fun i => j.getD i 0 < j.getD (i + 1) 0) then
      return some s!"level {lvl}: a job lists a node twice"
    if !Hierarchy.disjointAll jobs then return some s!"level {lvl}: two jobs share a node (they would write the same partition id slot)"
    if lvl = 0 then
      if jobs.length ≠ 1 ∨ (jobs.headD []).length ≠ n then return some "level 0 is not one job with every node"
    else if !(jobs.all fun j => subsetOfOne j prev) then
      return some s!"level {lvl}: a job is not contained in one job of level {lvl - 1}"
    prev := jobs.map (markSet n)
    k := k + 1
  return none

def fieldsOf (l : String) : List String := words l

def handle (c : Case) : CaseOut :=
  let inp := parseInput c.ops
  let asym := c.family.startsWith "asym"
  match outsideDomain inp (!asym) with
  | some why => { model := #[], verdict := .skip ("outside the domain: " ++ why) }
  | none =>
  if inp.runs.isEmpty then { model := #[], verdict := .skip "no run requested" }
  else
    let dense := c.family.startsWith "dense" || asym
    let (model, stats) : Array String × List (String × String) :=
      match runModel inp with
      | none => (#["D rc=101"], [("model", "panic")])
      | some mo =>
        let st := statsOf inp.r mo.queues
        let jl := jobLines mo.queues
        let p := Sha256.hashBytes (partitionBytes mo.pid)
        let a := strBytesSha (assignmentCsv mo.pid inp.coord)
        let cu := strBytesSha (cutCsv inp.plainEdges mo.pid inp.coord)
        let j := Sha256.hashString ("\n".intercalate jl)
        let runs := ((List.range inp.runs.size).map fun k =>
          s!"D run {k} {inp.runs.getD k ""} rc=0 p={p} j={j}") ++ (csvShaLines inp mo.pid).toList ++
          ((List.range inp.runs.size).map fun k => s!"F runcsv {k} a={a} c={cu}")
        let widest := (mo.queues.map List.length).foldl max 0
        let nontrivial := decide (st.depth ≥ 3) && decide (widest ≥ 4) && decide (inp.runs.size ≥ 10)
        (#["D rc=0", inputShaLine inp] ++ fileLines inp mo.pid ++ (jl.map fun l => "D jobs " ++ l).toArray ++ runs.toArray,
         [("nontrivial", if nontrivial then "1" else "0"), ("n", toString inp.n), ("r", toString inp.r),
          ("depth", toString st.depth), ("jobs", toString st.jobs), ("widest", toString widest),
          ("runs", toString inp.runs.size)])
    -- judge
    let rc := findLine c.impl "D rc="
    let verdict : Verdict :=
      if c.impl.contains "HANG" then .fail "a chipper run did not terminate"
      else if rc != some "0" then .fail s!"chipper failed on an in-domain input (rc={rc.getD "?"})"
      else
        let csvs := (c.impl.toList.filter fun l => l.startsWith "F runcsv ").map fieldsOf
        let runs0 := (c.impl.toList.filter fun l => l.startsWith "D run ").map fieldsOf
        -- attach the CSV hashes of run k to its run line
        let runs := (List.range runs0.length).map fun k => runs0.getD k [] ++ (csvs.getD k []).drop 3
        let get := fun (ws : List String) (k : String) => (kvOf ws k).getD "?"
        if runs.length ≠ inp.runs.size ∨ csvs.length ≠ inp.runs.size then .fail s!"{runs.length} of {inp.runs.size} runs observed"
        else
          let base := runs.headD []
          let bad := runs.find? fun ws =>
            get ws "rc" ≠ "0" ∨ get ws "p" ≠ get base "p" ∨ get ws "a" ≠ get base "a" ∨ get ws "c" ≠ get base "c" ∨
            get ws "j" ≠ get base "j"
          match bad with
          | some ws =>
            let what :=
              if get ws "rc" ≠ "0" then s!"exit status {get ws "rc"}"
              else if get ws "p" ≠ get base "p" then "a different partition file"
              else if get ws "a" ≠ get base "a" then "a different assignment file"
              else if get ws "c" ≠ get base "c" then "a different cut file"
              else "different job sets"
            .fail s!"run [{" ".intercalate (ws.drop 2 |>.take 4)}] gave {what} than the -n 1 run"
          | none =>
            let pline := (findLine c.impl "D pfile ").getD ""
            if (kvOf (words pline) "sha").getD "" ≠ get base "p" then .fail "hash lines inconsistent (harness)"
            else
              let jl := (c.impl.toList.filter fun l => l.startsWith "D jobs ").map fun l => (l.drop 7).toString
              if Sha256.hashString ("\n".intercalate jl) ≠ get base "j" then .fail "job log hash inconsistent (harness)"
              else
                match jl.mapM parseJobsLine with
                | none => .fail "malformed job log"
                | some levels =>
                  match jobsJudge inp.n inp.r levels with
                  | some w => .fail w
                  | none => (judgeFiles inp (!dense) c.impl (runRef inp)).verdict
    { model := model, verdict := verdict, stats := stats }

end Tbx.Drv.C06
