import Tbx.Drv.Common
import Tbx.Model.AHeap
import Tbx.Spec.PQ
/-
Driver for C10 (addressable heap).

ops:   T <wmin> <wmax> | U <id>... | ins id w d | dec id w | decd id w d | del | flush | clear | setd id d
obs (after every op k, k counts the ops after the T/U header lines):
  D k len= empty= ilen= W=<weights over U> C=<contains bits> R=<removed bits> N=<inserted bits> D=<data over U>
  F k min=<id|none> ret=<id|->          -- free among equal weights
-/
namespace Tbx.Drv.C10
open Tbx Tbx.Drv

inductive Op where
  | ins (id w d : Int) | dec (id w : Int) | decd (id w d : Int) | del | flush | clear | setd (id d : Int)
deriving Repr, Inhabited

def parseOp (l : String) : Option Op :=
  match words l with
  | ["ins", a, b, c] => some (.ins (parseInt! a) (parseInt! b) (parseInt! c))
  | ["dec", a, b] => some (.dec (parseInt! a) (parseInt! b))
  | ["decd", a, b, c] => some (.decd (parseInt! a) (parseInt! b) (parseInt! c))
  | ["del"] => some .del
  | ["flush"] => some .flush
  | ["clear"] => some .clear
  | ["setd", a, b] => some (.setd (parseInt! a) (parseInt! b))
  | _ => none

def bit (b : Bool) : String := if b then "1" else "0"
def joinWith (sep : String) (xs : List String) : String := sep.intercalate xs
def optS : Option Int → String
  | some x => toString x
  | none => "x"

/-- the determined observers, rendered from six functions over the universe -/
def renderD (k : Nat) (U : List Int) (len ilen : Nat) (w : Int → Int) (c r n : Int → Bool)
    (d : Int → Option Int) : String :=
  s!"D {k} len={len} empty={bit (len == 0)} ilen={ilen} W={joinWith "," (U.map fun i => toString (w i))} " ++
  s!"C={String.join (U.map fun i => bit (c i))} R={String.join (U.map fun i => bit (r i))} " ++
  s!"N={String.join (U.map fun i => bit (n i))} D={joinWith "," (U.map fun i => optS (d i))}"

def renderModelD (k : Nat) (U : List Int) (s : AHeap.Heap) : String :=
  renderD k U (AHeap.len s) (AHeap.insertedLen s) (AHeap.weight s) (AHeap.contains s) (AHeap.removed s)
    (AHeap.inserted s) (AHeap.data? s)

def renderSpecD (k : Nat) (U : List Int) (wmax : Int) (q : PQ.Q) : String :=
  renderD k U (PQ.len q) (PQ.insertedLen q) (PQ.weight q wmax) (PQ.contains q) (PQ.removed q)
    (PQ.inserted q) (PQ.data? q)

def renderF (k : Nat) (mn : Option Int) (ret : Option Int) : String :=
  s!"F {k} min={match mn with | some x => toString x | none => "none"} ret={match ret with | some x => toString x | none => "-"}"

/-- value of `key=` in a rendered observation line -/
def field (line key : String) : Option String :=
  (words line).findSome? fun w => if w.startsWith (key ++ "=") then some (w.drop (key.length + 1)).toString else none

structure Stats where
  ins : Nat := 0
  dec : Nat := 0
  del : Nat := 0
  flush : Nat := 0
  clear : Nat := 0
  moved : Nat := 0        -- decreases / deletes that moved an element at least one level
  maxLen : Nat := 0

def keyOf (s : AHeap.Heap) (id : Int) : Nat :=
  match AHeap.lookup s.idx id with
  | some i => (gt s.nodes i).key
  | none => 0

def handle (c : Case) : CaseOut := Id.run do
  let mut wmin : Int := 0
  let mut wmax : Int := 0
  let mut U : List Int := []
  let mut ops : Array Op := #[]
  for l in c.ops do
    match words l with
    | ["T", a, b] => wmin := parseInt! a; wmax := parseInt! b
    | "U" :: ids => U := ids.map parseInt!
    | _ => match parseOp l with
      | some o => ops := ops.push o
      | none => return { model := #[], verdict := .skip s!"unparsable op '{l}'" }
  -- model run
  let mut s := AHeap.init wmin wmax
  let mut out : Array String := #[]
  let mut stt : Stats := {}
  let mut modelStuck := false
  let mut k := 0
  for o in ops do
    let mut ret : Option Int := none
    match o with
    | .ins id w d => s := AHeap.insert s id w d; stt := { stt with ins := stt.ins + 1 }
    | .dec id w =>
      let k0 := keyOf s id
      match AHeap.decreaseKey s id w with
      | some s' => s := s'
      | none => modelStuck := true
      stt := { stt with dec := stt.dec + 1, moved := stt.moved + (if keyOf s id < k0 then 1 else 0) }
    | .decd id w d =>
      let k0 := keyOf s id
      match AHeap.decreaseKeyData s id w d with
      | some s' => s := s'
      | none => modelStuck := true
      stt := { stt with dec := stt.dec + 1, moved := stt.moved + (if keyOf s id < k0 then 1 else 0) }
    | .del =>
      let lastIdx := (gt s.heap (s.heap.size - 1)).index
      match AHeap.deleteMin s with
      | some (s', id) =>
        s := s'; ret := some id
        -- the element swapped to the root sank at least one level?
        stt := { stt with del := stt.del + 1, moved := stt.moved + (if (gt s.nodes lastIdx).key > 1 then 1 else 0) }
      | none => modelStuck := true
    | .flush => s := AHeap.flush s; stt := { stt with flush := stt.flush + 1 }
    | .clear => s := AHeap.clear s; stt := { stt with clear := stt.clear + 1 }
    | .setd id d =>
      match AHeap.setData s id d with
      | some s' => s := s'
      | none => modelStuck := true
    stt := { stt with maxLen := Nat.max stt.maxLen (AHeap.len s) }
    out := out.push (renderModelD k U s)
    out := out.push (renderF k (AHeap.min? s) ret)
    k := k + 1
  -- judge: follow the ops in the reference queue, validating the implementation's free choices
  let implD := c.impl.filter (·.startsWith "D ")
  let implF := c.impl.filter (·.startsWith "F ")
  let mut q : PQ.Q := []
  let mut verdict : Verdict := .ok
  let mut j := 0
  for o in ops do
    if !(verdict matches .ok) then break
    let fl := implF.getD j ""
    let dl := implD.getD j ""
    -- preconditions of the property's quantifier
    match o with
    | .ins id w _ =>
      if PQ.inserted q id then verdict := .skip s!"op {j}: insert of an id already inserted"
      else if w < wmin then verdict := .skip s!"op {j}: weight below the weight type's minimum"
    | .dec id w | .decd id w _ =>
      if !PQ.contains q id then verdict := .skip s!"op {j}: decrease of an id that is not contained"
      else if w > PQ.weight q wmax id then verdict := .skip s!"op {j}: decrease raises the weight"
      else if w < wmin then verdict := .skip s!"op {j}: weight below the weight type's minimum"
    | .del => if PQ.len q == 0 then verdict := .skip s!"op {j}: delete_min on an empty heap"
    | .setd id _ => if !PQ.inserted q id then verdict := .skip s!"op {j}: data_mut of an unknown id"
    | _ => pure ()
    if !(verdict matches .ok) then break
    if dl == "" || fl == "" then
      verdict := .fail s!"op {j}: implementation produced no observation ({joinWith " | " c.impl.toList |>.take 120})"
      break
    match o with
    | .ins id w d => q := PQ.insert q id w d
    | .dec id w => q := PQ.decreaseKey q id w
    | .decd id w d => q := PQ.setData (PQ.decreaseKey q id w) id d
    | .del =>
      match (field fl "ret").bind parseInt? with
      | some id =>
        if PQ.isMinB q id then q := PQ.remove q id
        else verdict := .fail s!"op {j}: delete_min returned {id}, which is not a contained id of minimal weight"
      | none => verdict := .fail s!"op {j}: delete_min returned nothing"
    | .flush => q := PQ.flush q
    | .clear => q := PQ.clear q
    | .setd id d => q := PQ.setData q id d
    if !(verdict matches .ok) then break
    let exp := renderSpecD j U wmax q
    if exp != dl then
      verdict := .fail s!"op {j}: observers differ from the reference queue: expected [{exp}] got [{dl}]"
      break
    match field fl "min" with
    | some "none" =>
      if PQ.len q != 0 then verdict := .fail s!"op {j}: min() not reported on a non-empty heap"
    | some m =>
      match parseInt? m with
      | some id => if !(PQ.isMinB q id) then verdict := .fail s!"op {j}: min()={id} is not a contained id of minimal weight"
      | none => verdict := .fail s!"op {j}: unparsable min"
    | none => verdict := .fail s!"op {j}: no min field"
    j := j + 1
  if modelStuck && (verdict matches .ok) then
    verdict := .fail "model reached a panic branch on an in-domain history (model/spec mismatch)"
  let nontrivial := stt.moved ≥ 1
  return { model := out, verdict := verdict,
           stats := [("nontrivial", bit nontrivial), ("ops", toString ops.size), ("ins", toString stt.ins),
                     ("dec", toString stt.dec), ("del", toString stt.del), ("flush", toString stt.flush),
                     ("clear", toString stt.clear), ("moved", toString stt.moved), ("maxlen", toString stt.maxLen)] }

end Tbx.Drv.C10
