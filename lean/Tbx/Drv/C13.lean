import Tbx.Drv.Common
import Tbx.Gen.Consts
import Tbx.Model.HashTable
import Tbx.Model.TinyTable
import Tbx.Model.Bloom
import Tbx.Model.CountMin
import Tbx.Spec.FinMap
/-
Driver for C13.  The first op line `K <kind>` selects the container.

K tab | K fib            MediumSizeHashTable<u32,i64,TabulationHash|FibonacciHash>
  H <key> <hash>         (header) real `hasher.hash(key)` of every key of the case; the H lines, in order,
                         are also the key universe of the observers
  ins k v | gm k | clear | setgen g | clears n
  obs:  D cap=<capacity>                     once
        F h <key> <hash>                     once per key: the real hash at execution time (free: the property
                                             does not fix the hash function; the model prints `fibHash` for fib)
        D j ret=<v|-> len= empty= P=<peek_value over U, x = None> C=<contains_key bits over U>   after op j
K tiny                   TinyTable<u32,i64>
  U <key>...             (header) universe
  ins k v | rem k | set k v | clear
  obs:  D j ret=<0|1|-> len= empty= P=<find over U> C=<contains bits over U>
K bloom                  BloomFilter
  B <n> <pbits> <len> <k> (header) new_from_size_and_probabilty(n, f64::from_bits(pbits)); len,k = the sizes
                         the harness computes with the same float formulas (not modelled)
  L <pbits> <len> <k> <idx>...   alternative header: new_from_list over those values
  V <idx> <h1> <h2> <hex> (header) value universe with its two real xxh3 hashes
  add i | addg i
  obs:  D j A=<per value: 1/0 answer if it has been added, '-' otherwise>    (determined: never 0)
        F j Q=<answer bits for every value>                                  (false positives are free)
K cms                    CountMinSketch (random private seed)
  C <deltabits> <epsbits> (header)
  V <idx> <hex>          (header) key universe
  ins i
  obs:  F P <seed> <k> <m>      the sketch's parameters (hook verif_params), read back by the driver
        F V <idx> <h1> <h2>     the real hash pair of every key under that seed, read back by the driver
        F j E=<estimate of every key>
-/
namespace Tbx.Drv.C13
open Tbx Tbx.Drv

def bit (b : Bool) : String := if b then "1" else "0"
def joinWith (sep : String) (xs : List String) : String := sep.intercalate xs
def optS : Option Int → String
  | some x => toString x
  | none => "x"

def field (line key : String) : Option String :=
  (words line).findSome? fun w => if w.startsWith (key ++ "=") then some (w.drop (key.length + 1)).toString else none

def implBroken (impl : Array String) : Option String :=
  impl.findSome? fun l => if l == "HANG" || l == "PANIC" || l == "ABORT" then some l else none

def renderD (j : Nat) (ret : String) (len : Nat) (empty : Bool) (P : List (Option Int)) (C : List Bool) : String :=
  s!"D {j} ret={ret} len={len} empty={bit empty} P={joinWith "," (P.map optS)} C={String.join (C.map bit)}"

/-! ## medium-size hash table -/

inductive TOp where
  | ins (k : Nat) (v : Int) | gm (k : Nat) | clear | setgen (g : Nat) | clears (n : Nat)
deriving Inhabited

def parseTOp (l : String) : Option TOp :=
  match words l with
  | ["ins", a, b] => some (.ins (parseNat! a) (parseInt! b))
  | ["gm", a] => some (.gm (parseNat! a))
  | ["clear"] => some .clear
  | ["setgen", g] => some (.setgen (parseNat! g))
  | ["clears", n] => some (.clears (parseNat! n))
  | _ => none

def lookupHash (hs : List (Nat × Nat)) (k : Nat) : Nat := (List.lookup k hs).getD 0

/-- number of cells the probe loop looks at for `key` in `t` (1 = found at its home cell) -/
def chainLen (N : Nat) (h : Nat → Nat) (t : HashTable.Table) (key : Nat) : Nat :=
  match HashTable.probe N t.cells t.ts key N (h key) with
  | some p => (p + N - h key) % N + 1
  | none => 0

def handleTable (c : Case) (kind : String) : CaseOut := Id.run do
  let N := Tbx.Gen.hashMaxElements
  let mut hs : List (Nat × Nat) := []
  let mut ops : Array TOp := #[]
  for l in c.ops do
    match words l with
    | ["K", _] => pure ()
    | ["H", a, b] => hs := hs ++ [(parseNat! a, parseNat! b)]
    | _ => match parseTOp l with
      | some o => ops := ops.push o
      | none => return { model := #[], verdict := .skip s!"unparsable op '{l}'" }
  let U := hs.map (·.1)
  let h := lookupHash hs
  -- domain of the model / property
  if N == 0 then return { model := #[], verdict := .skip "MAX_ELEMENTS = 0" }
  if hs.any (fun e => e.2 ≥ N) then return { model := #[], verdict := .skip "hash value not below MAX_ELEMENTS" }
  let keyOK := fun (k : Nat) => U.contains k
  let opKeysOK := ops.all fun o => match o with
    | .ins k _ => keyOK k | .gm k => keyOK k | _ => true
  if !opKeysOK then return { model := #[], verdict := .skip "op on a key without H line" }
  -- model run
  let mut t := HashTable.init N
  let mut out : Array String := #[s!"D cap={HashTable.capacity N}"]
  for (k, hv) in hs do
    out := out.push s!"F h {k} {if kind == "fib" then HashTable.fibHash k else hv}"
  let mut stuck := false
  let mut maxChain := 0
  let mut nClear := 0
  let mut nWrap := 0
  let mut nCreate := 0
  let mut nUpdate := 0
  let mut maxLen := 0
  let mut j := 0
  for o in ops do
    if stuck then break
    let mut ret := "-"
    match o with
    | .ins k v =>
      maxChain := Nat.max maxChain (chainLen N h t k)
      let l0 := t.length
      match HashTable.insert N h t k v with
      | some t' => t := t'
      | none => stuck := true
      if t.length > l0 then nCreate := nCreate + 1 else nUpdate := nUpdate + 1
    | .gm k =>
      maxChain := Nat.max maxChain (chainLen N h t k)
      let l0 := t.length
      match HashTable.getMut N h t k with
      | some (t', p) => t := t'; ret := toString (HashTable.valAt t' p)
      | none => stuck := true
      if t.length > l0 then nCreate := nCreate + 1 else nUpdate := nUpdate + 1
    | .clear =>
      t := HashTable.clear N t
      nClear := nClear + 1
      if t.ts == 0 || t.ts == HashTable.u32Max then nWrap := nWrap + 1
    | .clears n =>
      -- fast path, equal to n single clears (Tbx.Props.C13.clearMany_is_iterated_clear)
      let g0 := t.ts
      t := HashTable.clearMany N n t
      nClear := nClear + n
      nWrap := nWrap + (g0 + n) / HashTable.u32Max
    | .setgen g =>
      match HashTable.setGeneration N t g with
      | some t' => t := t'
      | none => stuck := true
    if stuck then break
    maxLen := Nat.max maxLen t.length
    let mut P : List (Option Int) := []
    let mut C : List Bool := []
    for k in U do
      match HashTable.peek N h t k, HashTable.containsKey N h t k with
      | some p, some cb => P := P ++ [p]; C := C ++ [cb]
      | _, _ => stuck := true
    if stuck then break
    out := out.push (renderD j ret (HashTable.len t) (HashTable.isEmpty t) P C)
    j := j + 1
  if stuck then out := out.push "MODEL-OUT-OF-FUEL"
  -- judge: the reference map on the same ops against the I lines
  let implD := c.impl.filter (fun l => l.startsWith "D " && !l.startsWith "D cap=")
  let mut m : FinMap.M := FinMap.clear
  let mut verdict : Verdict := .ok
  -- the H lines must be the real hasher's values (a stored case goes stale if the hash function changes)
  for l in c.impl do
    match words l with
    | ["F", "h", a, b] =>
      if lookupHash hs (parseNat! a) != parseNat! b then
        verdict := .skip s!"stale case: H line of key {a} is not the real hash {b}"
    | _ => pure ()
  let mut jj := 0
  for o in ops do
    if !(verdict matches .ok) then break
    let mut ret := "-"
    match o with
    | .ins k v =>
      if !(FinMap.contains m k || FinMap.len m + 1 < N) then verdict := .skip s!"op {jj}: table would become full"
      else m := FinMap.insert m k v
    | .gm k =>
      if !(FinMap.contains m k || FinMap.len m + 1 < N) then verdict := .skip s!"op {jj}: table would become full"
      else
        let r := FinMap.getOrCreate m k 0
        m := r.1; ret := toString r.2
    | .clear => m := FinMap.clear
    | .clears _ => m := FinMap.clear
    | .setgen g =>
      if FinMap.len m != 0 then verdict := .skip s!"op {jj}: verif_set_generation on a non-empty table"
      else if g > HashTable.u32Max then verdict := .skip s!"op {jj}: generation does not fit u32"
    if !(verdict matches .ok) then break
    match implD[jj]? with
    | none =>
      let tag := (implBroken c.impl).getD "nothing"
      verdict := .fail s!"op {jj}: implementation produced no observation ({tag}) where the reference map answers [{renderD jj ret (FinMap.len m) (FinMap.isEmpty m) (U.map (FinMap.get? m)) (U.map (FinMap.contains m))}]"
    | some dl =>
      -- parse the observation and run the kernel-checked checker on it
      let exp := renderD jj ret (FinMap.len m) (FinMap.isEmpty m) (U.map (FinMap.get? m)) (U.map (FinMap.contains m))
      let obs : Option FinMap.Obs := do
        let ln ← (field dl "len").bind (·.toNat?)
        let em ← field dl "empty"
        let p ← field dl "P"
        let cc ← field dl "C"
        let ps := if p == "" then [] else (p.splitOn ",").map fun s => if s == "x" then none else parseInt? s
        let cs := cc.toList.map (· == '1')
        some { len := ln, empty := em == "1", peek := ps, contains := cs }
      match obs with
      | none => verdict := .fail s!"op {jj}: unparsable observation [{dl}]"
      | some ob =>
        if !(FinMap.checkObs m U ob) || field dl "ret" != some ret then
          verdict := .fail s!"op {jj}: differs from the reference map: expected [{exp}] got [{dl}]"
    jj := jj + 1
  if (verdict matches .ok) then
    if let some tag := implBroken c.impl then
      verdict := .fail s!"implementation ended with {tag}"
    else if !(c.impl.any (· == s!"D cap={N}")) then
      verdict := .fail s!"capacity() is not MAX_ELEMENTS = {N}"
  if stuck && (verdict matches .ok) then
    verdict := .fail "model-out-of-fuel on an in-domain history (model/spec mismatch)"
  let nontrivial := maxChain ≥ 2 && nClear ≥ 1
  return { model := out, verdict := verdict,
           stats := [("nontrivial", bit nontrivial), ("ops", toString ops.size), ("maxchain", toString maxChain),
                     ("clears", toString nClear), ("wrapgens", toString nWrap), ("create", toString nCreate),
                     ("update", toString nUpdate), ("maxlen", toString maxLen),
                     ("tab_cases", if kind == "tab" then "1" else "0"), ("fib_cases", if kind == "fib" then "1" else "0")] }

/-! ## tiny table -/

inductive YOp where
  | ins (k : Nat) (v : Int) | rem (k : Nat) | set (k : Nat) (v : Int) | clear
deriving Inhabited

def parseYOp (l : String) : Option YOp :=
  match words l with
  | ["ins", a, b] => some (.ins (parseNat! a) (parseInt! b))
  | ["rem", a] => some (.rem (parseNat! a))
  | ["set", a, b] => some (.set (parseNat! a) (parseInt! b))
  | ["clear"] => some .clear
  | _ => none

def handleTiny (c : Case) : CaseOut := Id.run do
  let mut U : List Nat := []
  let mut ops : Array YOp := #[]
  for l in c.ops do
    match words l with
    | ["K", _] => pure ()
    | "U" :: ks => U := ks.map parseNat!
    | _ => match parseYOp l with
      | some o => ops := ops.push o
      | none => return { model := #[], verdict := .skip s!"unparsable op '{l}'" }
  let mut t := TinyTable.new
  let mut out : Array String := #[]
  let mut moved := 0
  let mut nRem := 0
  let mut maxLen := 0
  let mut j := 0
  for o in ops do
    let mut ret := "-"
    match o with
    | .ins k v =>
      match TinyTable.position t k with
      | some i => if i + 1 < t.length then moved := moved + 1
      | none => pure ()
      let r := TinyTable.insert t k v
      t := r.1; ret := bit r.2
    | .rem k =>
      match TinyTable.position t k with
      | some i => if i + 1 < t.length then moved := moved + 1
      | none => pure ()
      let r := TinyTable.remove t k
      t := r.1; ret := bit r.2; nRem := nRem + 1
    | .set k v =>
      let r := TinyTable.setVal t k v
      t := r.1; ret := bit r.2
    | .clear => t := TinyTable.clear t
    maxLen := Nat.max maxLen (TinyTable.len t)
    out := out.push (renderD j ret (TinyTable.len t) (TinyTable.isEmpty t) (U.map (TinyTable.find t)) (U.map (TinyTable.contains t)))
    j := j + 1
  -- judge
  let implD := c.impl.filter (·.startsWith "D ")
  let mut m : FinMap.M := FinMap.clear
  let mut verdict : Verdict := .ok
  let mut jj := 0
  for o in ops do
    if !(verdict matches .ok) then break
    let mut ret := "-"
    match o with
    | .ins k v => ret := bit (FinMap.contains m k); m := FinMap.insert m k v
    | .rem k => let r := FinMap.remove m k; m := r.1; ret := bit r.2
    | .set k v =>
      if FinMap.contains m k then m := FinMap.insert m k v; ret := "1" else ret := "0"
    | .clear => m := FinMap.clear
    let exp := renderD jj ret (FinMap.len m) (FinMap.isEmpty m) (U.map (FinMap.get? m)) (U.map (FinMap.contains m))
    match implD[jj]? with
    | none => verdict := .fail s!"op {jj}: implementation produced no observation ({(implBroken c.impl).getD "nothing"}), expected [{exp}]"
    | some dl =>
      if dl != exp then verdict := .fail s!"op {jj}: differs from the reference map: expected [{exp}] got [{dl}]"
    jj := jj + 1
  if (verdict matches .ok) then
    if let some tag := implBroken c.impl then verdict := .fail s!"implementation ended with {tag}"
  return { model := out, verdict := verdict,
           stats := [("nontrivial", bit (moved ≥ 1)), ("ops", toString ops.size), ("tiny_moved", toString moved),
                     ("tiny_removes", toString nRem), ("tiny_maxlen", toString maxLen), ("tiny_cases", "1")] }

/-! ## Bloom filter -/

def handleBloom (c : Case) : CaseOut := Id.run do
  let mut len := 0
  let mut k := 0
  let mut pre : List Nat := []
  let mut vals : List (Nat × Nat × Nat) := []     -- idx, h1, h2
  let mut ops : Array (Bool × Nat) := #[]          -- (generic add?, idx)
  for l in c.ops do
    match words l with
    | ["K", _] => pure ()
    | ["B", _, _, a, b] => len := parseNat! a; k := parseNat! b
    | "L" :: _ :: a :: b :: is => len := parseNat! a; k := parseNat! b; pre := is.map parseNat!
    | "V" :: i :: a :: b :: _ => vals := vals ++ [(parseNat! i, parseNat! a, parseNat! b)]
    | ["add", i] => ops := ops.push (false, parseNat! i)
    | ["addg", i] => ops := ops.push (true, parseNat! i)
    | _ => return { model := #[], verdict := .skip s!"unparsable op '{l}'" }
  if len == 0 || k == 0 then return { model := #[], verdict := .skip "filter with length 0 or no hash function (constructor asserts)" }
  let hp := fun (i : Nat) => (vals.find? (·.1 == i)).map (·.2)
  if !(ops.all fun o => (hp o.2).isSome) || !(pre.all fun i => (hp i).isSome) then
    return { model := #[], verdict := .skip "op on a value without V line" }
  let mut f := Bloom.init len k
  let mut added : List Nat := []
  for i in pre do
    match hp i with
    | some (h1, h2) => f := Bloom.add f h1 h2; added := i :: added
    | none => pure ()
  let render := fun (f : Bloom.Filter) (added : List Nat) (j : Nat) =>
    let a := String.join (vals.map fun (i, h1, h2) => if added.contains i then bit (Bloom.contains f h1 h2) else "-")
    let q := String.join (vals.map fun (_, h1, h2) => bit (Bloom.contains f h1 h2))
    (s!"D {j} A={a}", s!"F {j} Q={q}")
  let mut out : Array String := #[]
  let r0 := render f added 0
  out := out.push r0.1 |>.push r0.2
  let mut j := 1
  let mut fpos := 0
  for (_, i) in ops do
    match hp i with
    | some (h1, h2) => f := Bloom.add f h1 h2; if !added.contains i then added := i :: added
    | none => pure ()
    let r := render f added j
    out := out.push r.1 |>.push r.2
    j := j + 1
  fpos := (vals.filter fun (i, h1, h2) => !added.contains i && Bloom.contains f h1 h2).length
  -- judge: every value added so far is answered "possibly present" (one-sided; false positives are free)
  let implD := c.impl.filter (·.startsWith "D ")
  let implF := c.impl.filter (·.startsWith "F ")
  let mut verdict : Verdict := .ok
  let mut addedJ : List Nat := pre
  let mut jj := 0
  for step in [0:ops.size + 1] do
    if !(verdict matches .ok) then break
    if step > 0 then addedJ := (ops[step - 1]!).2 :: addedJ
    match implD[jj]?, implF[jj]? with
    | some dl, some fl =>
      let a := ((field dl "A").getD "").toList
      let q := ((field fl "Q").getD "").toList
      if a.length != vals.length || q.length != vals.length then
        verdict := .fail s!"step {jj}: malformed observation [{dl}] [{fl}]"
      else
        let mut n := 0
        for (i, _, _) in vals do
          if addedJ.contains i then
            if a[n]! != '1' || q[n]! != '1' then
              verdict := .fail s!"step {jj}: value #{i} was added but contains() answers No (false negative): [{dl}] [{fl}]"
          else if a[n]! != '-' then
            verdict := .fail s!"step {jj}: malformed A field [{dl}]"
          n := n + 1
    | _, _ => verdict := .fail s!"step {jj}: implementation produced no observation ({(implBroken c.impl).getD "nothing"})"
    jj := jj + 1
  if (verdict matches .ok) then
    if let some tag := implBroken c.impl then verdict := .fail s!"implementation ended with {tag}"
  let nontrivial := added.length ≥ 2 && k ≥ 2 && added.length < vals.length
  return { model := out, verdict := verdict,
           stats := [("nontrivial", bit nontrivial), ("ops", toString ops.size), ("bloom_len", toString len), ("bloom_k", toString k),
                     ("bloom_added", toString added.length), ("bloom_false_pos", toString fpos), ("bloom_cases", "1")] }

/-! ## count-min sketch -/

def handleCms (c : Case) : CaseOut := Id.run do
  let mut nvals := 0
  let mut ops : Array Nat := #[]
  for l in c.ops do
    match words l with
    | ["K", _] => pure ()
    | ["C", _, _] => pure ()
    | "V" :: _ => nvals := nvals + 1
    | ["ins", i] => ops := ops.push (parseNat! i)
    | _ => return { model := #[], verdict := .skip s!"unparsable op '{l}'" }
  if !(ops.all (· < nvals)) then return { model := #[], verdict := .skip "op on a key without V line" }
  -- parameters and hash pairs are read back from the implementation (random private seed)
  let mut k := 0
  let mut m := 0
  let mut haveP := false
  let mut hp : Array (Nat × Nat) := #[]
  let mut out : Array String := #[]
  for l in c.impl do
    match words l with
    | ["F", "P", _, a, b] => k := parseNat! a; m := parseNat! b; haveP := true; out := out.push l
    | ["F", "V", _, a, b] => hp := hp.push (parseNat! a, parseNat! b); out := out.push l
    | _ => pure ()
  if !haveP || hp.size != nvals then
    return { model := out, verdict := .fail s!"implementation did not report its parameters ({(implBroken c.impl).getD "nothing"})" }
  if m == 0 then return { model := out, verdict := .skip "sketch with 0 columns (constructor parameters out of range)" }
  let mut s := CountMin.init k m
  let renderE := fun (s : CountMin.Sketch) (j : Nat) =>
    s!"F {j} E={joinWith "," (hp.toList.map fun (h1, h2) => toString (CountMin.estimate s h1 h2))}"
  out := out.push (renderE s 0)
  let mut j := 1
  for i in ops do
    let (h1, h2) := hp[i]!
    s := CountMin.insert s h1 h2
    out := out.push (renderE s j)
    j := j + 1
  -- judge: estimate ≥ min(true count, u32::MAX) for every key at every step
  let implE := c.impl.filter fun l => l.startsWith "F " && (field l "E").isSome
  let mut verdict : Verdict := .ok
  let mut counts : Array Nat := Array.replicate nvals 0
  let mut total := 0
  let mut overs := 0
  for step in [0:ops.size + 1] do
    if !(verdict matches .ok) then break
    if step > 0 then
      let i := ops[step - 1]!
      counts := counts.set! i (counts[i]! + 1)
      total := total + 1
    match implE[step]? with
    | none => verdict := .fail s!"step {step}: implementation produced no estimates ({(implBroken c.impl).getD "nothing"})"
    | some l =>
      let es := (((field l "E").getD "").splitOn ",").filter (· ≠ "")
      if es.length != nvals then verdict := .fail s!"step {step}: malformed estimates [{l}]"
      else
        let mut n := 0
        for e in es do
          let est := parseNat! e
          let cnt := counts[n]!
          if est < Nat.min cnt CountMin.u32Max then
            verdict := .fail s!"step {step}: key #{n} was inserted {cnt} times but estimate() = {est} (underestimate)"
          if est > cnt then overs := overs + 1
          n := n + 1
  if (verdict matches .ok) then
    if let some tag := implBroken c.impl then verdict := .fail s!"implementation ended with {tag}"
  let distinct := (counts.toList.filter (· > 0)).length
  let nontrivial := distinct ≥ 2 && counts.toList.any (· ≥ 2) && k ≥ 1
  return { model := out, verdict := verdict,
           stats := [("nontrivial", bit nontrivial), ("ops", toString ops.size), ("cms_k", toString k), ("cms_m", toString m),
                     ("cms_overestimates", toString overs), ("cms_cases", "1")] }

def handle (c : Case) : CaseOut :=
  match (c.ops[0]?).map words with
  | some ["K", "tab"] => handleTable c "tab"
  | some ["K", "fib"] => handleTable c "fib"
  | some ["K", "tiny"] => handleTiny c
  | some ["K", "bloom"] => handleBloom c
  | some ["K", "cms"] => handleCms c
  | _ => { model := #[], verdict := .skip "no K header" }

end Tbx.Drv.C13
