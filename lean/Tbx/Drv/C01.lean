import Tbx.Drv.FlowCommon
/-
Driver for C01 (every max-flow solver returns the true maximum s-t flow value).
Format, judge and statistics: see Tbx/Drv/FlowCommon.lean (observations `pre`, `flow`, `res`).
-/
namespace Tbx.Drv.C01
open Tbx.Drv

def handle (c : Case) : CaseOut := FlowCommon.handle true false c

end Tbx.Drv.C01
