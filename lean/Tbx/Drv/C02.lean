import Tbx.Drv.FlowCommon
/-
Driver for C02 (the returned node assignment is the canonical minimum cut).
Format, judge and statistics: see Tbx/Drv/FlowCommon.lean (observations `flow`, `assign`, `res`).
-/
namespace Tbx.Drv.C02
open Tbx.Drv

def handle (c : Case) : CaseOut := FlowCommon.handle false true c

end Tbx.Drv.C02
