import Tbx.Drv.Common
import Tbx.Model.LoserTree
import Tbx.Model.KWayMerge
import Tbx.Model.TopK
import Tbx.Model.Fenwick
import Tbx.Model.SortedInsert
import Tbx.Model.NextFit
import Tbx.Spec.Sorting
import Tbx.Spec.MergeTree
import Tbx.Spec.SlotQueue
import Tbx.Spec.PrefixSum
import Tbx.Spec.NextFit
/-
Driver for C18 (merging, selection and prefix-sum structures).  The first op line is the header
`T <family> …`; six families:

  T merge heap | T merge loser <cap>      run a b c …            (one line per run, may be empty)
      D out=<csv> n=<len>
  T lt <cap>                              push <slot> <item> | pop | clear
      D k len= empty= item=<x|none|->     F k slot=<s|->          (which of several equal minima: free)
  T topk <k> [<item type>]                in a b c …             (input, concatenated over lines; the type tag
                                                                  selects the Rust instantiation, the model is on Int)
      D out=<csv> n=<len>
  T fw   then  vals a b c … | size n      upd i x | rank i | range i j | srange i j | sel x | all
      D k upd=ok|err | D k rank=<x|none> | D k range=<x> | D k srange=<x> | D k sel=<i|none>
      D k len= empty= ranks=<csv> ranges=<csv over all (i,j)> sranges=<csv over all i<=j … >
  T sl                                    pf x | ins x | pop | clear
      D k sorted= empty= peek=<x|none> ret=<x|none|-> list=<csv>
  T nf <capacity>                         items a b c …
      D err | D bins=<n> asg=<csv>
-/
namespace Tbx.Drv.C18
open Tbx Tbx.Drv

def bit (b : Bool) : String := if b then "1" else "0"
def csvI (xs : List Int) : String := ",".intercalate (xs.map toString)
def csvN (xs : List Nat) : String := ",".intercalate (xs.map toString)
def optI : Option Int → String
  | some x => toString x
  | none => "none"
def optN : Option Nat → String
  | some x => toString x
  | none => "none"

/-- value of `key=` in a rendered observation line -/
def field (line key : String) : Option String :=
  (words line).findSome? fun w => if w.startsWith (key ++ "=") then some (w.drop (key.length + 1)).toString else none

def parseCsvI (s : String) : Option (List Int) :=
  if s == "" then some [] else (s.splitOn ",").mapM parseInt?
def parseCsvN (s : String) : Option (List Nat) :=
  if s == "" then some [] else (s.splitOn ",").mapM String.toNat?

def implBroken (impl : Array String) : Option String :=
  impl.findSome? fun l => if l == "PANIC" || l == "HANG" || l == "ABORT" then some l else none

def stat (k : String) (v : Nat) : String × String := (k, toString v)

/-! ### merge -/

def handleMerge (c : Case) (hdr : List String) : CaseOut := Id.run do
  let mut runs : Array (List Int) := #[]
  for l in c.ops.toList.drop 1 do
    match words l with
    | "run" :: xs => runs := runs.push (xs.map parseInt!)
    | _ => return { model := #[], verdict := .skip s!"unparsable op '{l}'" }
  let rl := runs.toList
  let useLoser := hdr.getD 2 "" == "loser"
  let cap := parseNat! (hdr.getD 3 "0")
  let res := if useLoser then KWay.merge KWay.loserTree rl (LoserTree.withCapacity cap)
             else KWay.merge KWay.bag rl []
  let nonEmpty := (rl.filter (fun r => !r.isEmpty)).length
  let total := rl.flatten.length
  let stats := [("nontrivial", bit (nonEmpty ≥ 2)), stat "merge" 1, stat "runs" rl.length, stat "items" total,
                stat "loser" (if useLoser then 1 else 0), stat "emptyruns" (rl.length - nonEmpty)]
  let (model, fuelOut) := match res with
    | .done out => (#[s!"D out={csvI out} n={out.length}"], false)
    | .panic _ => (#["PANIC"], false)
    | .outOfFuel _ => (#["OUT-OF-FUEL"], true)
  -- judge
  if !(rl.all Sorting.sortedB) then
    return { model := model, verdict := .skip "a run is not sorted", stats := stats }
  if useLoser && cap < rl.length then
    return { model := model, verdict := .skip "more runs than the loser tree's capacity", stats := stats }
  if fuelOut then
    return { model := model, verdict := .fail "model-out-of-fuel", stats := stats }
  let expected := Sorting.isort rl.flatten
  match implBroken c.impl with
  | some w => return { model := model, verdict := .fail s!"merge of {rl.length} sorted runs: implementation {w}", stats := stats }
  | none => pure ()
  let line := c.impl.getD 0 ""
  match (field line "out").bind parseCsvI with
  | none => return { model := model, verdict := .fail s!"no merge output: [{line}]", stats := stats }
  | some out =>
    if out != expected then
      return { model := model, stats := stats,
               verdict := .fail s!"merge output is not the sorted multiset union: expected [{csvI expected}] got [{csvI out}]" }
    if field line "n" != some (toString expected.length) then
      return { model := model, verdict := .fail s!"merge length field wrong: [{line}]", stats := stats }
    return { model := model, verdict := .ok, stats := stats }

/-! ### loser tree as a slot-indexed queue -/

inductive LtOp where
  | push (slot : Nat) (item : Int) | pop | clear
deriving Inhabited

def handleLT (c : Case) (hdr : List String) : CaseOut := Id.run do
  let cap := parseNat! (hdr.getD 2 "0")
  let mut ops : Array LtOp := #[]
  for l in c.ops.toList.drop 1 do
    match words l with
    | ["push", s, x] => ops := ops.push (.push (parseNat! s) (parseInt! x))
    | ["pop"] => ops := ops.push .pop
    | ["clear"] => ops := ops.push .clear
    | _ => return { model := #[], verdict := .skip s!"unparsable op '{l}'" }
  -- model
  let mut t : Option LoserTree.Tree := some (LoserTree.withCapacity cap)
  let mut out : Array String := #[]
  let mut k := 0
  let mut pops := 0
  let mut contested := 0
  let mut maxLive := 0
  for o in ops do
    let mut item := "-"
    let mut slot := "-"
    match t with
    | none => pure ()
    | some tr =>
      match o with
      | .push s x => t := LoserTree.push tr ⟨x, s⟩
      | .pop =>
        match LoserTree.pop tr with
        | none => t := none
        | some (none, tr') => t := some tr'; item := "none"
        | some (some e, tr') =>
          t := some tr'; item := toString e.item; slot := toString e.index
          pops := pops + 1
          if tr.size ≥ 2 then contested := contested + 1
      | .clear => t := some (LoserTree.clear tr)
    match t with
    | none => out := out.push "PANIC"; break
    | some tr =>
      maxLive := Nat.max maxLive tr.size
      out := out.push s!"D {k} len={LoserTree.len tr} empty={bit (LoserTree.isEmpty tr)} item={item}"
      out := out.push s!"F {k} slot={slot}"
    k := k + 1
  let stats := [("nontrivial", bit (contested ≥ 1)), stat "lt" 1, stat "ops" ops.size, stat "pops" pops,
                stat "contested_pops" contested, stat "maxlive" maxLive, stat "cap" cap]
  -- judge: reference slot queue, following the implementation's choice among equal minima
  let implD := c.impl.filter (·.startsWith "D ")
  let implF := c.impl.filter (·.startsWith "F ")
  let mut q : SlotQueue.Q := SlotQueue.empty cap
  let mut j := 0
  for o in ops do
    let dl := implD.getD j ""
    let fl := implF.getD j ""
    match o with
    | .push s _ =>
      if s ≥ cap then return { model := out, verdict := .skip s!"op {j}: push to slot {s} beyond the capacity", stats := stats }
      if !SlotQueue.free q s then return { model := out, verdict := .skip s!"op {j}: push to occupied slot {s}", stats := stats }
    | _ => pure ()
    if dl == "" || fl == "" then
      let w := (implBroken c.impl).getD "stopped"
      return { model := out, verdict := .fail s!"op {j}: implementation {w} (no observation)", stats := stats }
    let mut item := "-"
    match o with
    | .push s x => q := SlotQueue.push q s x
    | .clear => q := SlotQueue.clear q
    | .pop =>
      match field dl "item", field fl "slot" with
      | some "none", _ =>
        if SlotQueue.live q != 0 then
          return { model := out, verdict := .fail s!"op {j}: pop returned None although {SlotQueue.live q} entries are live", stats := stats }
        item := "none"
      | some xs, some ss =>
        match parseInt? xs, ss.toNat? with
        | some x, some s =>
          if SlotQueue.isMinSlotB q s x then q := SlotQueue.remove q s; item := xs
          else return { model := out, stats := stats,
                        verdict := .fail s!"op {j}: pop returned item {x} of slot {s}, which is not a live entry with minimal item" }
        | _, _ => return { model := out, verdict := .fail s!"op {j}: unparsable pop result [{dl}] [{fl}]", stats := stats }
      | _, _ => return { model := out, verdict := .fail s!"op {j}: unparsable pop result [{dl}] [{fl}]", stats := stats }
    let exp := s!"D {j} len={SlotQueue.live q} empty={bit (SlotQueue.live q == 0)} item={item}"
    if exp != dl then
      return { model := out, verdict := .fail s!"op {j}: expected [{exp}] got [{dl}]", stats := stats }
    j := j + 1
  return { model := out, verdict := .ok, stats := stats }

/-! ### top-k -/

def handleTopK (c : Case) (hdr : List String) : CaseOut := Id.run do
  let k := parseNat! (hdr.getD 2 "0")
  let mut xs : List Int := []
  for l in c.ops.toList.drop 1 do
    match words l with
    | "in" :: ws => xs := xs ++ ws.map parseInt!
    | _ => return { model := #[], verdict := .skip s!"unparsable op '{l}'" }
  let S : TopK.Std := ⟨fun l _ => Sorting.isort l, Sorting.isort⟩
  let m := TopK.topK S xs k
  -- the harness calls `top_k` through five `IntoIterator` shapes (slice iterator, Vec, filter, from_fn, flat_map:
  -- different `size_hint`s); the result is a function of the item sequence alone
  let shapes := ["out", "out_vec", "out_filter", "out_fromfn", "out_flatmap"]
  let model := (shapes.map fun nm => s!"D {nm}={csvI m} n={m.length}").toArray
  let stats := [("nontrivial", bit (k ≥ 1 && xs.length ≥ 2 * k)), stat "topk" 1, stat "n" xs.length, stat "k" k,
                stat "k_gt_len" (if k > xs.length then 1 else 0),
                stat "k_huge" (if k ≥ 2 ^ 31 then 1 else 0)]
  let expected := (Sorting.isort xs).take k
  match implBroken c.impl with
  | some w => return { model := model, verdict := .fail s!"top_k of {xs.length} items, k={k}: implementation {w}", stats := stats }
  | none => pure ()
  let mut i := 0
  for nm in shapes do
    let line := c.impl.getD i ""
    match (field line nm).bind parseCsvI with
    | none => return { model := model, verdict := .fail s!"no top_k output {nm}: [{line}]", stats := stats }
    | some out =>
      if out != expected then
        return { model := model, stats := stats,
                 verdict := .fail s!"top_k(k={k}) [{nm}] is not the k smallest items in order: expected [{csvI expected}] got [{csvI out}]" }
    i := i + 1
  return { model := model, verdict := .ok, stats := stats }

/-! ### Fenwick tree -/

def allPairs (n : Nat) : List (Nat × Nat) :=
  (List.range n).flatMap fun i => (List.range n).map fun j => (i, j)

def handleFW (c : Case) : CaseOut := Id.run do
  let opsL := c.ops.toList.drop 1
  let mut f : Fenwick.FW := Fenwick.withSize 0
  let mut v : List Int := []
  match opsL.head? with
  | some l =>
    match words l with
    | "vals" :: ws => v := ws.map parseInt!; f := Fenwick.fromValues v
    | ["size", n] => v := List.replicate (parseNat! n) 0; f := Fenwick.withSize (parseNat! n)
    | _ => return { model := #[], verdict := .skip "no vals/size line" }
  | none => return { model := #[], verdict := .skip "no vals/size line" }
  let n := v.length
  let mut out : Array String := #[]
  let mut verdict : Verdict := .ok
  let mut k := 0
  let mut upd := 0
  let mut queries := 0
  let mut sels := 0
  let implD := c.impl.filter (·.startsWith "D ")
  let broken := implBroken c.impl
  for l in opsL.drop 1 do
    let mut m := ""
    let mut e := ""      -- expected by the plain array
    match words l with
    | ["upd", i, x] =>
      let i := parseNat! i; let x := parseInt! x
      match Fenwick.update f i x with
      | some f' => f := f'; m := "upd=ok"
      | none => m := "upd=err"
      if i < n then v := PrefixSum.update v i x; e := "upd=ok" else e := "upd=err"
      upd := upd + 1
    | ["rank", i] =>
      let i := parseNat! i
      m := s!"rank={optI (Fenwick.rank f i)}"
      e := s!"rank={optI (PrefixSum.rank v i)}"
      queries := queries + 1
    | ["range", i, j] =>
      let i := parseNat! i; let j := parseNat! j
      m := s!"range={optI (Fenwick.range f i j)}"
      if i ≥ j then e := "range=0"
      else if j < n then e := s!"range={PrefixSum.range v i j}"
      else if verdict matches .ok then verdict := .skip s!"op {k}: range({i},{j}) beyond the array"
      queries := queries + 1
    | ["srange", i, j] =>
      let i := parseNat! i; let j := parseNat! j
      m := s!"srange={optI (Fenwick.slowRange f i j)}"
      if i > j then e := "srange=0"
      else if j < n then e := s!"srange={PrefixSum.range v i j}"
      else if verdict matches .ok then verdict := .skip s!"op {k}: slow_range({i},{j}) beyond the array"
      queries := queries + 1
    | ["sel", x] =>
      let x := parseInt! x
      let r := Fenwick.select f x
      m := s!"sel={optN r}"
      sels := sels + 1
      if v.any (· < 0) then
        if verdict matches .ok then verdict := .skip s!"op {k}: select on an array with negative entries"
      else
        -- the answer is unique: find it with the plain array
        let cands := (List.range n).filter fun i => decide (PrefixSum.pre v (i + 1) ≤ x)
        let r' : Option Nat := cands.getLast?
        e := s!"sel={optN r'}"
        if !(PrefixSum.isSelectB v x r') && (verdict matches .ok) then
          verdict := .fail s!"op {k}: judge's own select answer does not satisfy IsSelect (judge bug)"
    | ["all"] =>
      let pairs := allPairs n
      let rk := (List.range n).map fun i => optI (Fenwick.rank f i)
      let rg := pairs.map fun (i, j) => optI (Fenwick.range f i j)
      let sr := pairs.map fun (i, j) => optI (Fenwick.slowRange f i j)
      m := s!"len={Fenwick.len f} empty={bit (Fenwick.isEmpty f)} ranks={",".intercalate rk} ranges={",".intercalate rg} sranges={",".intercalate sr}"
      let erk := (List.range n).map fun i => optI (PrefixSum.rank v i)
      let erg := pairs.map fun (i, j) => if i ≥ j then "0" else toString (PrefixSum.range v i j)
      e := s!"len={n} empty={bit (n == 0)} ranks={",".intercalate erk} ranges={",".intercalate erg} sranges={",".intercalate erg}"
      queries := queries + 1
    | _ => return { model := out, verdict := .skip s!"unparsable op '{l}'" }
    out := out.push s!"D {k} {m}"
    if verdict matches .ok then
      let dl := implD.getD k ""
      if dl == "" then
        verdict := .fail s!"op {k} ({l}): implementation {broken.getD "stopped"} (no observation)"
      else if dl != s!"D {k} {e}" then
        let clip (s : String) : String := if s.length > 300 then (s.take 300).toString ++ "…" else s
        verdict := .fail s!"op {k} ({l}) differs from the plain array: expected [{clip e}] got [{clip dl}]"
    k := k + 1
  let stats := [("nontrivial", bit (upd ≥ 1 && queries + sels ≥ 1 || n ≥ 2 && queries + sels ≥ 1)), stat "fw" 1,
                stat "n" n, stat "updates" upd, stat "queries" queries, stat "selects" sels]
  return { model := out, verdict := verdict, stats := stats }

/-! ### sorted insertion into the singly linked list -/

def handleSL (c : Case) : CaseOut := Id.run do
  let mut l : SList.SL := SList.new
  let mut ref : List Int := []
  let mut out : Array String := #[]
  let mut verdict : Verdict := .ok
  let mut k := 0
  let mut inserts := 0
  let mut middle := 0
  let implD := c.impl.filter (·.startsWith "D ")
  let broken := implBroken c.impl
  for ln in c.ops.toList.drop 1 do
    let mut ret := "-"
    let mut eret := "-"
    let mut expList : Option (List Int) := none     -- none: checked by sortedness + multiset below
    match words ln with
    | ["pf", x] => let x := parseInt! x; l := SList.pushFront l x; ref := x :: ref; expList := some ref
    | ["ins", x] =>
      let x := parseInt! x
      if !Sorting.sortedB ref && (verdict matches .ok) then
        verdict := .skip s!"op {k}: insert_sorted into an unsorted list"
      let before := l
      l := SList.insertSorted l x
      inserts := inserts + 1
      if before.any (· < x) && before.any (· ≥ x) then middle := middle + 1
      ref := x :: ref
    | ["pop"] =>
      let r := SList.popFront l
      l := r.2; ret := optI r.1
      match ref with
      | [] => eret := "none"
      | y :: ys => eret := toString y; ref := ys
      expList := some ref
    | ["clear"] => l := SList.clear l; ref := []; expList := some []
    | _ => return { model := out, verdict := .skip s!"unparsable op '{ln}'" }
    out := out.push s!"D {k} sorted={bit (SList.isSorted l)} empty={bit (SList.isEmpty l)} peek={optI (SList.peekFront l)} ret={ret} list={csvI l}"
    if verdict matches .ok then
      let dl := implD.getD k ""
      match (field dl "list").bind parseCsvI with
      | none => verdict := .fail s!"op {k} ({ln}): implementation {broken.getD "stopped"} (no observation)"
      | some got =>
        match expList with
        | some ex =>
          if got != ex then verdict := .fail s!"op {k} ({ln}): list is [{csvI got}], expected [{csvI ex}]"
        | none =>
          -- insert_sorted: ascending and the same multiset as before plus the element
          if !Sorting.sortedB got then
            verdict := .fail s!"op {k} ({ln}): list [{csvI got}] is not in ascending order after insert_sorted"
          else if Sorting.isort got != Sorting.isort ref then
            verdict := .fail s!"op {k} ({ln}): list [{csvI got}] is not the old list plus the element (expected the items {csvI (Sorting.isort ref)})"
        if verdict matches .ok then
          ref := got
          let exp := s!"D {k} sorted={bit (Sorting.sortedB got)} empty={bit got.isEmpty} peek={optI got.head?} ret={eret} list={csvI got}"
          if exp != dl then verdict := .fail s!"op {k} ({ln}): expected [{exp}] got [{dl}]"
    k := k + 1
  let stats := [("nontrivial", bit (middle ≥ 1)), stat "sl" 1, stat "ops" k, stat "inserts" inserts, stat "middle_inserts" middle]
  return { model := out, verdict := verdict, stats := stats }

/-! ### next-fit bin packing -/

def handleNF (c : Case) (hdr : List String) : CaseOut := Id.run do
  let cap := parseNat! (hdr.getD 2 "0")
  let mut items : List Nat := []
  for l in c.ops.toList.drop 1 do
    match words l with
    | "items" :: ws => items := items ++ ws.map parseNat!
    | _ => return { model := #[], verdict := .skip s!"unparsable op '{l}'" }
  let m := NextFit.nextFit items cap
  let model := match m with
    | none => #["D err"]
    | some (b, a) => #[s!"D bins={b} asg={csvN a}"]
  let bins := match m with
    | some (b, _) => b
    | none => 0
  let stats := [("nontrivial", bit (bins ≥ 2)), stat "nf" 1, stat "items" items.length, stat "bins" bins,
                stat "err" (if m.isNone then 1 else 0)]
  match implBroken c.impl with
  | some w => return { model := model, verdict := .fail s!"next-fit: implementation {w}", stats := stats }
  | none => pure ()
  let line := c.impl.getD 0 ""
  let res : Option (Option (Nat × List Nat)) :=
    if line == "D err" then some none
    else match (field line "bins").bind String.toNat?, (field line "asg").bind parseCsvN with
      | some b, some a => some (some (b, a))
      | _, _ => none
  match res with
  | none => return { model := model, verdict := .fail s!"unparsable next-fit result [{line}]", stats := stats }
  | some r =>
    if NextFitSpec.check items cap r then return { model := model, verdict := .ok, stats := stats }
    else return { model := model, stats := stats,
                  verdict := .fail s!"next-fit laws violated for capacity {cap}, items [{csvN items}]: result [{line}]" }

def handle (c : Case) : CaseOut :=
  match (c.ops.toList.head?).map words with
  | some ("T" :: "merge" :: r) => handleMerge c ("T" :: "merge" :: r)
  | some ("T" :: "lt" :: r) => handleLT c ("T" :: "lt" :: r)
  | some ("T" :: "topk" :: r) => handleTopK c ("T" :: "topk" :: r)
  | some ("T" :: "fw" :: _) => handleFW c
  | some ("T" :: "sl" :: _) => handleSL c
  | some ("T" :: "nf" :: r) => handleNF c ("T" :: "nf" :: r)
  | _ => { model := #[], verdict := .skip "no T header" }

end Tbx.Drv.C18
