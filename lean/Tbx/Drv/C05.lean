import Tbx.Drv.ChipperCommon
/-
Driver for C05 (chipper emits the exact recursive inertial-flow hierarchy).

ops: see Tbx/Drv/ChipperCommon.lean.
obs (all determined by the property):
  D rc=<exit status>
  D gsha=<sha256 graph.bin> csha=<sha256 coords.bin>      the input files (harness encoder = Tbx.Bincode)
  D pfile len=<bytes> sha=<sha256>                         partition file, raw bytes
  D ids=<id> ...                                           partition file, decoded
  F afile sha=<sha256> hdr=<0|1> nl=<0|1>                  assignment CSV, raw bytes (layout not fixed by the property:
                                                           judged through the rows, compared strictly for drift only)
  D arows=<id>:<lat>:<lon>,...                             assignment CSV, re-parsed (micro-degrees)
  F cfile sha=<sha256> hdr=<0|1> nl=<0|1>                  cut CSV, raw bytes
  D crows=<lat>:<lon>><lat>:<lon>,...                      cut CSV, re-parsed
Model: `Tbx.Chipper.chipper` + the three writers.  Judge: reference hierarchy (`Tbx.Hierarchy.specAll` over
`Tbx.Drv.ChipperRef.best`), id for id; level = r for every node (not claimed for the `dense` families);
reports consistent with the implementation's own ids; partition file = canonical encoding of its ids.
-/
namespace Tbx.Drv.C05
open Tbx Tbx.Drv Tbx.Drv.Chipper

def handle (c : Case) : CaseOut :=
  let inp := parseInput c.ops
  match outsideDomain inp with
  | some why => { model := #[], verdict := .skip ("outside the domain: " ++ why) }
  | none =>
    let dense := c.family.startsWith "dense"
    -- model
    let (model, stats) : Array String × List (String × String) :=
      match runModel inp with
      | none => (#["D rc=101"], [("model", "panic")])
      | some mo =>
        let st := statsOf inp.r mo.queues
        let nontrivial := decide (st.depth ≥ 3) && decide (st.paddedNodes ≥ 1) && decide (st.lastSplit ≥ 1)
        (#["D rc=0", inputShaLine inp] ++ fileLines inp mo.pid ++ csvShaLines inp mo.pid,
         [("nontrivial", if nontrivial then "1" else "0"), ("n", toString inp.n), ("r", toString inp.r),
          ("m", toString inp.m), ("depth", toString st.depth), ("jobs", toString st.jobs),
          ("lastsplit", toString st.lastSplit), ("padded", toString st.paddedNodes)])
    -- judge
    let rc := findLine c.impl "D rc="
    let j : JudgeOut :=
      if c.impl.contains "HANG" then { verdict := .fail "chipper did not terminate" }
      else if rc != some "0" then { verdict := .fail s!"chipper failed on an in-domain input (rc={rc.getD "?"})" }
      else judgeFiles inp (!dense) c.impl (runRef inp)
    { model := model, verdict := j.verdict,
      stats := stats ++ [("refshort", toString j.refShort)] ++ (if j.note = "" then [] else [("note", j.note)]) }

end Tbx.Drv.C05
