import Tbx.Drv.Common
import Tbx.Drv.Sha256
import Tbx.Model.Bincode
import Tbx.Model.GraphFiles
import Tbx.Spec.GraphText
/-
C07, thorough-tier family `huge`: files too large to travel as op lines / hex.

op:   HUGE metis-ring <n> <ring> <deg> <ncoords>        (after the `F metis …` header)
  the METIS graph file is   "<n> <ring*deg>"  followed by `ring` adjacency lines; line i (0-based) lists, for
  k = 1..deg, the 1-based ids of (i+k) mod ring and (i-k) mod ring, and finally i+1 itself (a self-loop);
  tokens separated by one blank, plain decimal numerals.  The remaining n-ring nodes are isolated (no line).
  the coordinate file has `ncoords` lines "<lon> <lat>" with
      lon_i = (7919·i mod 36000001) − 18000000,  lat_i = (104729·i mod 18000001) − 9000000     (unit 1e-5 degree)
  harness/src/bin/gen_c07.rs expands the same parameters into the real files.

obs (digests instead of hex; the read-back lists as count + SHA-256 of their canonical text, one entry per line,
     "s/t\n", "s/t/w\n", "lat/lon\n"; plus the first and last three entries):
  D rc=0
  D gfile len=<bytes> sha256=<..>          D cfile len=<bytes> sha256=<..>
  D tedges n=<k> sha256=<..> first=<..> last=<..>     (or `D tedges ERR` when the loader panicked)
  D wedges n=<k> sha256=<..> first=<..> last=<..>
  F coords n=<k> sha256=<..> first=<..> last=<..>     (F: the float path is fixed only up to the tolerance; also F cfile)
  D coordcheck n=<k> within=<0|1> readback=<0|1>     every stored value within one unit (1e-6 degree) of the exact value
                                                     10*lat_i / 10*lon_i (harness, integer arithmetic); read-back = decoded file

Model (M lines): the text of every line is produced here, sent through the model's glue (`mkLineC`) and the
model's per-line parsers (`metisLine`, `metisCoords`) and the model's element encoders, streamed into a
ByteArray — i.e. `plier` with `metisLoop`/`encodeSeq` unrolled line by line (`metisLoop n i (l :: ls)` is
`metisLine n i l.toks ++ metisLoop n (i+1) ls` by definition; `encodeSeq_append` in
Proofs/BincodeRoundtrip.lean).  The model's read-back lines are its own lists: by `decode_encode_edges` /
`decode_encode_coords` decoding the bytes it wrote returns exactly them.

Judge: derives the expected edge list from the parameters through the Spec (`metisEdgesFrom` on the abstract
neighbour lists), streams `encodeEdge` over it and compares length + SHA-256 of that encoding with the
implementation's file (equal digests + the round-trip theorem stand in for `decode bytes = expected`), and
compares count + digest + first/last of both read-backs with the expected list; a loader that fails (`ERR`) is
a failure.  Coordinates: the judge computes every stored value with the modelled float path
(`fromLatLon (lat/100000) (lon/100000)`), checks it against the exact decimal with `withinMicroB`, and compares
the digest of the encoding / of the canonical text of these values with the file / the read-back: the float
path is modelled here too, not verified.
-/
namespace Tbx.Drv.C07Huge
open Tbx Tbx.Drv Tbx.Bincode Tbx.GraphFiles Tbx.GraphSpec

structure P where
  n : Nat
  ring : Nat
  deg : Nat
  ncoords : Nat

/-- 1-based neighbour list of line `i` -/
def nbrs (p : P) (i : Nat) : List Nat :=
  ((List.range p.deg).flatMap fun k0 =>
    let k := k0 + 1
    [(i + k) % p.ring + 1, (i + p.ring - k % p.ring) % p.ring + 1]) ++ [i + 1]

def lonOf (i : Nat) : Int := Int.ofNat (7919 * i % 36000001) - 18000000
def latOf (i : Nat) : Int := Int.ofNat (104729 * i % 18000001) - 9000000

def natC (n : Nat) : List Char := Nat.toDigits 10 n
def intC (i : Int) : List Char := if i < 0 then '-' :: natC (-i).toNat else natC i.toNat

def joinBlank : List (List Char) → List Char
  | [] => []
  | [t] => t
  | t :: t' :: ts => t ++ ' ' :: joinBlank (t' :: ts)

def pushBytes (b : ByteArray) (xs : List Nat) : ByteArray := xs.foldl (fun b x => b.push (UInt8.ofNat x)) b
def pushStr (b : ByteArray) (s : String) : ByteArray := b.append s.toUTF8

/-- a list observed through count, digest of its canonical text, first and last three entries -/
structure Digest where
  n : Nat := 0
  text : ByteArray := ByteArray.empty
  first : Array String := #[]
  last : Array String := #[]

def Digest.add (d : Digest) (entry : String) : Digest :=
  { n := d.n + 1
    text := pushStr (pushStr d.text entry) "\n"
    first := if d.first.size < 3 then d.first.push entry else d.first
    last := if d.last.size < 3 then d.last.push entry else (d.last.extract 1 3).push entry }

def Digest.render (d : Digest) (name : String) : String :=
  s!"D {name} n={d.n} sha256={Sha256.hash d.text} first={",".intercalate d.first.toList} last={",".intercalate d.last.toList}"

structure Out where
  gfile : ByteArray
  cfile : ByteArray
  tedges : Digest
  wedges : Digest
  coords : Digest

def finish (count : Nat) (body : ByteArray) : ByteArray := (pushBytes ByteArray.empty (encodeVarint count)).append body

def fileLine (name : String) (b : ByteArray) : String := s!"D {name} len={b.size} sha256={Sha256.hash b}"

/-- METIS coordinates go through floating point: the property fixes them only to within one millionth of a degree,
    so the digests of the coordinate file and of its read-back are class F (free); what IS determined - the number
    of coordinates, every stored value within one unit of the exact value, the read-back equal to the decoded file -
    is computed by the harness in exact integer arithmetic and reported on the `D coordcheck` line -/
def toF (l : String) : String := "F" ++ (l.drop 1).toString

def Out.lines (o : Out) : Array String :=
  #["D rc=0", fileLine "gfile" o.gfile, toF (fileLine "cfile" o.cfile),
    o.tedges.render "tedges", o.wedges.render "wedges", toF (o.coords.render "coords"),
    s!"D coordcheck n={o.coords.n} within=1 readback=1"]

def addEdges (st : ByteArray × Digest × Digest) (es : List InputEdge) : ByteArray × Digest × Digest :=
  es.foldl (fun (body, te, we) e =>
    (pushBytes body (encodeEdge e), te.add s!"{e.source}/{e.target}", we.add s!"{e.source}/{e.target}/{e.data}")) st

def addCoord (st : ByteArray × Digest) (c : FPCoordinate) : ByteArray × Digest :=
  (pushBytes st.1 (encodeCoord c), st.2.add s!"{c.lat}/{c.lon}")

/-- the model: text -> glue -> per-line parsers -> encoders; `none` = the model of graph_plier panics -/
def model (p : P) : Option Out := Id.run do
  -- graph file
  let some l0 := mkLineC (joinBlank [natC p.n, natC (p.ring * p.deg)]) | return none
  let some n := (l0.toks.head?.bind (·.nat?)) | return none        -- sizes[0].parse().unwrap()
  let mut g : ByteArray × Digest × Digest := (ByteArray.empty, {}, {})
  for i in [0:p.ring] do
    let some l := mkLineC (joinBlank ((nbrs p i).map natC)) | return none
    if ¬ (i < n) then return none                                   -- assert!(source < number_of_nodes)
    match metisLine n i l.toks with
    | none => return none
    | some es => g := addEdges g es
  -- coordinate file
  let mut c : ByteArray × Digest := (ByteArray.empty, {})
  for i in [0:p.ncoords] do
    let some l := mkLineC (joinBlank [intC (lonOf i), intC (latOf i)]) | return none
    match metisCoords [l] with
    | some [x] => c := addCoord c x
    | _ => return none
  return some { gfile := finish g.2.1.n g.1, cfile := finish c.2.n c.1, tedges := g.2.1, wedges := g.2.2, coords := c.2 }

/-- the judge's expectation, from the parameters through the Spec; `.error` = outside the domain / tolerance -/
def expected (p : P) : Except String Out := do
  if p.ring > p.n then throw "skip more adjacency lines than nodes"
  if p.n ≥ 18446744073709551616 then throw "skip node count does not fit usize"
  let mut g : ByteArray × Digest × Digest := (ByteArray.empty, {}, {})
  for i in [0:p.ring] do
    let nb := nbrs p i
    if nb.any (fun t => t < 1 ∨ t > p.n) then throw "skip neighbour outside 1..n"
    g := addEdges g (metisEdgesFrom i [nb])
  let mut c : ByteArray × Digest := (ByteArray.empty, {})
  for i in [0:p.ncoords] do
    let lon := lonOf i
    let lat := latOf i
    let x := fromLatLon (Float.ofInt lat / 100000.0) (Float.ofInt lon / 100000.0)
    if !(withinMicroB ⟨lat, 0⟩ x.lat && withinMicroB ⟨lon, 0⟩ x.lon) then
      throw s!"fail coordinate {i}: the float path stores (lat {x.lat}, lon {x.lon}), more than one micro-degree from lat {lat}e-5 lon {lon}e-5 degrees"
    c := addCoord c x
  return { gfile := finish g.2.1.n g.1, cfile := finish c.2.n c.1, tedges := g.2.1, wedges := g.2.2, coords := c.2 }

def bit (b : Bool) : String := if b then "1" else "0"

def handle (c : Case) (args : List String) : CaseOut :=
  match args.map String.toNat? with
  | [some n, some ring, some deg, some nc] =>
    let p : P := ⟨n, ring, deg, nc⟩
    if ring = 0 ∨ deg ≥ ring then { model := #[], verdict := .skip "HUGE metis-ring needs 0 < deg < ring" }
    else
      let m := match model p with
        | some o => o.lines
        | none => #["D rc=101"]
      let verdict : Verdict :=
        match expected p with
        | .error why =>
          if why.startsWith "skip " then .skip ("not a well-formed file of the format: " ++ (why.drop 5).toString)
          else .fail (why.drop 5).toString
        | .ok e =>
          let exp := e.lines
          let impl := c.impl
          if impl.size ≠ exp.size then
            .fail s!"graph_plier or a loader did not complete on a well-formed metis input: {";".intercalate (impl.toList.map fun s => (s.take 60).toString)}"
          else
            match (List.range exp.size).find? (fun k => impl[k]! ≠ exp[k]! && !(exp[k]!.startsWith "F ")) with
            | none => .ok
            | some k =>
              if impl[k]!.endsWith " ERR" then
                .fail s!"the loader failed (panicked) on the file graph_plier wrote for a well-formed metis input ({2 * ring * deg} edges, {nc} coordinates): observed [{impl[k]!}] expected [{(exp[k]!.take 120).toString}]"
              else .fail s!"expected [{exp[k]!}] observed [{impl[k]!}]"
      let multi := 2 * ring * deg ≥ 251 || nc ≥ 251
      { model := m, verdict := verdict,
        stats := [("nontrivial", bit (multi && ring < n)), ("glines", toString (ring + 1)), ("clines", toString nc),
                  ("edges", toString (2 * ring * deg)), ("selfloops", toString ring), ("comments", "0"),
                  ("isolated", toString (n - ring)), ("multibyte", "1"), ("allcodes", "0"), ("metis", "1"), ("huge", "1")] }
  | _ => { model := #[], verdict := .skip "unparsable HUGE op" }

end Tbx.Drv.C07Huge
