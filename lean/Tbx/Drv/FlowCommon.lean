import Tbx.Drv.Common
import Tbx.Model.Flow
import Tbx.Model.FlowDinic
import Tbx.Model.FlowLegacy
import Tbx.Model.FlowGeneric
import Tbx.Model.InertialFlow
import Tbx.Spec.Flow
/-
Shared driver code of C01 (max-flow value) and C02 (canonical minimum cut).

ops:   st <s> <t>            header
       gen <k>               optional header: the solvers are built with `from_generic_edge_list` and the
                             capacity closure number k (`Tbx.Flow.genCap`); the e lines then carry raw payloads
       ub <B>                optional header: the solvers are run with `run_with_upper_bound(Arc(AtomicI32(B)))`
                             instead of `run()` (family `bounded`)
       rr <k>                optional header: after the observed run the same object is run k more times
                             (run / run_with_upper_bound(i32::MAX) alternating) and observed again (flow2 / assign2):
                             the property determines these exactly as after the first run
       e <u> <v> <cap>       one input edge per line, in input order

Domain (else `J skip`): non-empty list, capacities (after the closure) ≥ 0, s ≠ t both nodes, and the two
conditions under which the solvers' i32 arithmetic cannot overflow: for every node pair the merged
capacities of both directions together fit i32 (what `dedup +=` and `rev += flow` can reach), and the
maximum flow value (taken from the model's Int result) fits i32 (what `max_flow += path_flow` reaches).
The sum of all capacities may be arbitrarily large.

obs, for each solver X in dinic, ek, ff (in this order):
  D X pre=<a>,<b>      C01   max_flow() / assignment(s) BEFORE run: ERR or the value     (determined: ERR,ERR)
  D X flow=<int|ERR>          max_flow() after run()
  D X assign=<bits|ERR> C02   assignment(s) after run(), one bit per node
  F X res=u:v:c,…             final residual graph (`verif_residual()`): depends on the augmenting paths
                              chosen, hence free; the judge runs the kernel-checked certificate on it

Bounded cases (`ub B`, F = the true maximum flow): Dinic honours the bound (model: `InertialFlow.runBounded`),
EdmondsKarp/FordFulkerson discard it (pinned by /repo's unit tests `run_with_upper_bound_no_effect`).
  B ≥ F: every solver must complete; flow and assignment are determined exactly as for `run()` (D lines).
  B < F: what Dinic does is C04's clause, not C01/C02's: its flow/assign lines are class F (free); the judge
         still certifies a value if one is reported.  EK/FF must complete (D lines).
  `F X bound=<value of the atomic afterwards>` is free here (C04 decides it).

Judge (on the I lines only): C01 `certFast edges s t res flow` (= `certOK`, `certFast_eq`) for every solver (⇒ flow is THE maximum,
`Tbx.FlowTheory.certOK_sound`) and pre = ERR,ERR;  C02 `minCutFast edges s t res flow bits` (= `minCutOK`) for every
solver (⇒ bits is the inclusion-minimal minimum cut, `Tbx.FlowTheory.minCutOK_sound`).
-/
namespace Tbx.Drv.FlowCommon
open Tbx Tbx.Drv Tbx.Flow

abbrev E := FlowSpec.E

structure Inp where
  s : Nat
  t : Nat
  edges : List E            -- as written on the e lines (payloads when `gen` is present)
  gen : Option Nat := none
  ub : Option Int := none
  rr : Nat := 0
deriving Inhabited

def parseInp (ops : Array String) : Option Inp := Id.run do
  let mut s := 0
  let mut t := 0
  let mut haveSt := false
  let mut gen : Option Nat := none
  let mut es : Array E := #[]
  let mut ub : Option Int := none
  let mut rr : Nat := 0
  for l in ops do
    match words l with
    | ["rr", k] =>
      match k.toNat? with
      | some k => rr := k
      | none => return none
    | ["ub", b] =>
      match parseInt? b with
      | some b => ub := some b
      | none => return none
    | ["gen", k] =>
      match k.toNat? with
      | some k => gen := some k
      | none => return none
    | ["st", a, b] =>
      match a.toNat?, b.toNat? with
      | some a, some b => s := a; t := b; haveSt := true
      | _, _ => return none
    | ["e", u, v, c] =>
      match u.toNat?, v.toNat?, parseInt? c with
      | some u, some v, some c => es := es.push (u, v, c)
      | _, _, _ => return none
    | _ => return none
  if haveSt then return some { s := s, t := t, edges := es.toList, gen := gen, ub := ub, rr := rr } else return none

def bit (b : Bool) : String := if b then "1" else "0"
def bitsS (bs : List Bool) : String := String.join (bs.map bit)
def triplesS (ts : List E) : String := ",".intercalate (ts.map fun (u, v, c) => s!"{u}:{v}:{c}")

def parseBits (s : String) : Option (List Bool) :=
  s.toList.mapM fun c => if c == '1' then some true else if c == '0' then some false else none

def parseTriples (s : String) : Option (List E) :=
  if s == "" then some []
  else (s.splitOn ",").mapM fun t =>
    match t.splitOn ":" with
    | [u, v, c] =>
      match u.toNat?, v.toNat?, parseInt? c with
      | some u, some v, some c => some (u, v, c)
      | _, _, _ => none
    | _ => none

/-- value of `key=` in the line that starts with `<cls> <solver> key=` -/
def obsField (lines : Array String) (cls solver key : String) : Option String :=
  lines.findSome? fun l =>
    match words l with
    | [c, sv, kv] =>
      if c == cls && sv == solver && kv.startsWith (key ++ "=") then some (kv.drop (key.length + 1)).toString
      else none
    | [c, sv] =>   -- empty value
      if c == cls && sv == solver && key == "" then some "" else none
    | _ => none

def toEdges (es : List E) : List Edge := es.map fun (u, v, c) => { src := u, tgt := v, cap := c }

def outIntS : Out Int → String
  | .err => "ERR"
  | .ok x => toString x
  | .stuck => "STUCK"

def outBitsS : Out (Array Bool) → String
  | .err => "ERR"
  | .ok bs => bitsS bs.toList
  | .stuck => "STUCK"

/-- what one (model) solver run produced -/
structure RunObs where
  pre    : String
  flow   : String
  assign : String
  res    : List E
  stuck  : Bool
  bound  : Option Int := none    -- value of the shared bound after a bounded run
  free   : Bool := false         -- flow/assign lines are class F (bounded Dinic run with bound < max flow)
  rerun  : Bool := false         -- the case runs the object again: flow2/assign2 repeat flow/assign
  flow2  : Option String := none -- Dinic, unbounded: what the MODEL reports after `rr` further runs (`Dinic.runAgainN`)
  assign2 : Option String := none
deriving Inhabited

/-- the capacity closure of the case (identity for `from_edge_list` cases) -/
def capFn (inp : Inp) : Int → Int :=
  match inp.gen with
  | some k => genCap k
  | none => id

def runDinic (inp : Inp) (fuel : Nat) : RunObs × Option Dinic :=
  match Dinic.fromGenericEdgeList (capFn inp) (toEdges inp.edges) inp.s inp.t with
  | none => ({ pre := "STUCK", flow := "STUCK", assign := "STUCK", res := [], stuck := true }, none)
  | some d0 =>
    let pre := outIntS d0.maxFlow? ++ "," ++ outBitsS (d0.assignment? inp.s)
    match d0.run fuel with
    | none => ({ pre := pre, flow := "STUCK", assign := "STUCK", res := [], stuck := true }, none)
    | some d =>
      let a := d.assignment? inp.s
      -- the same object run again `rr` times: computed by the model of the repaired `run` (`Dinic.runAgain`,
      -- proved to change nothing: Props.C01.dinic_rerun_same_value / Props.C02.dinic_rerun_same_cut)
      let (f2, a2, stuck2) :=
        if inp.rr > 0 && inp.rr ≤ 64 then
          match Dinic.runAgainN fuel inp.rr d with
          | some d2 => (some (outIntS d2.maxFlow?), some (outBitsS (d2.assignment? inp.s)), false)
          | none => (some "STUCK", some "STUCK", true)
        else (none, none, false)
      ({ pre := pre, flow := outIntS d.maxFlow?, assign := outBitsS a, res := d.g.triples,
         stuck := (a matches .stuck) || stuck2, flow2 := f2, assign2 := a2 }, some d)

/-- `run_with_upper_bound(B)` on the Dinic model; `trueFlow` = the unbounded model's (proved maximal) value -/
def runDinicBounded (inp : Inp) (fuel : Nat) (B : Int) (trueFlow : Option Int) : RunObs :=
  match Dinic.fromGenericEdgeList (capFn inp) (toEdges inp.edges) inp.s inp.t with
  | none => { pre := "STUCK", flow := "STUCK", assign := "STUCK", res := [], stuck := true }
  | some d0 =>
    let pre := outIntS d0.maxFlow? ++ "," ++ outBitsS (d0.assignment? inp.s)
    match InertialFlow.runBounded d0 fuel B with
    | none => { pre := pre, flow := "STUCK", assign := "STUCK", res := [], stuck := true }
    | some (d, b') =>
      let a := d.assignment? inp.s
      -- family bounded-rerun: the object is run again `rr` times (run() under the stored bound / a new bound
      -- i32::MAX alternating); modelled by `InertialFlow.rerunHistory` (the repaired loop continues from the
      -- stored flow counter)
      let (f2, a2) :=
        if inp.rr > 0 && inp.rr ≤ 64 then
          match InertialFlow.rerunHistory fuel inp.rr 0 d b' with
          | some (d2, _) => (some (outIntS d2.maxFlow?), some (outBitsS (d2.assignment? inp.s)))
          | none => (some "STUCK", some "STUCK")
        else (none, none)
      { pre := pre, flow := outIntS d.maxFlow?, assign := outBitsS a, res := d.g.triples,
        stuck := a matches .stuck, bound := some b', flow2 := f2, assign2 := a2,
        free := match trueFlow with
                | some f => decide (B < f)
                | none => true }

def runSolver (inp : Inp) (fuel : Nat) (ek : Bool) : RunObs × Option Solver :=
  let d0 := Solver.fromGenericEdgeList (capFn inp) (toEdges inp.edges) inp.s inp.t
  let pre := outIntS d0.maxFlow? ++ "," ++ outBitsS (d0.assignment? inp.s)
  match (if ek then d0.runEK fuel else d0.runFF fuel) with
  | none => ({ pre := pre, flow := "STUCK", assign := "STUCK", res := [], stuck := true }, none)
  | some d =>
    let a := d.assignment? inp.s
    -- the same object run again `rr` times (model: `Solver.runN`; proved to change nothing:
    -- Props.C01.ek_ff_rerun_same_value / Props.C02.ek_ff_rerun_same_cut)
    let (f2, a2, stuck2) :=
      if inp.rr > 0 && inp.rr ≤ 64 then
        match Solver.runN (if ek then popBack else popFront) fuel inp.rr d with
        | some d2 => (some (outIntS d2.maxFlow?), some (outBitsS (d2.assignment? inp.s)), false)
        | none => (some "STUCK", some "STUCK", true)
      else (none, none, false)
    ({ pre := pre, flow := outIntS d.maxFlow?, assign := outBitsS a, res := d.g.triples,
       stuck := (a matches .stuck) || stuck2, flow2 := f2, assign2 := a2 }, some d)

def renderObs (withPre withAssign : Bool) (solver : String) (o : RunObs) : Array String :=
  let cls := if o.free then "F" else "D"
  let a : Array String := #[]
  let a := if withPre then a.push s!"D {solver} pre={o.pre}" else a
  let a := a.push s!"{cls} {solver} flow={o.flow}"
  let a := if withAssign then a.push s!"{cls} {solver} assign={o.assign}" else a
  let a := a.push s!"F {solver} res={triplesS o.res}"
  let a := match o.bound with
    | some b => a.push s!"F {solver} bound={b}"
    | none => a
  if o.rerun then
    let a := a.push s!"D {solver} flow2={o.flow2.getD o.flow}"
    if withAssign then a.push s!"D {solver} assign2={o.assign2.getD o.assign}" else a
  else a

/-- is there a phase with two augmentations whose paths (source … target) share their first edge? -/
def sharedPrefix (trace : List (Nat × List Nat × Int)) : Bool :=
  let firstEdge (p : List Nat) : Option (Nat × Nat) :=
    match p.reverse with
    | a :: b :: _ => some (a, b)
    | _ => none
  let rec go : List (Nat × List Nat × Int) → Bool
    | [] => false
    | (ph, p, _) :: rest =>
      (rest.any fun (ph', p', _) => ph' == ph && firstEdge p == firstEdge p' && (firstEdge p).isSome) || go rest
  go trace

def maxAugsInPhase (trace : List (Nat × List Nat × Int)) : Nat :=
  trace.foldl (fun m (ph, _, _) => Nat.max m (trace.filter fun (ph', _, _) => ph' == ph).length) 0

def handle (withPre withAssign : Bool) (c : Case) : CaseOut := Id.run do
  let some inp := parseInp c.ops
    | return { model := #[], verdict := .skip "unparsable case" }
  if (inp.gen.getD 0) > 3 then return { model := #[], verdict := .skip "unknown capacity closure" }
  let f := capFn inp
  -- the capacities the solvers are supposed to work with
  let es : List E := inp.edges.map fun (u, v, p) => (u, v, f p)
  -- domain of the property's quantifier (and of the Rust constructors)
  if es.isEmpty then return { model := #[], verdict := .skip "empty edge list (from_edge_list debug_assert)" }
  if es.any (fun e => e.2.2 < 0) then return { model := #[], verdict := .skip "negative capacity" }
  let n := FlowSpec.nNodes es
  if inp.s == inp.t then return { model := #[], verdict := .skip "source = target" }
  if inp.s ≥ n || inp.t ≥ n then return { model := #[], verdict := .skip "source/target not a node of the graph" }
  let i32max : Int := 2147483647
  -- no i32 overflow, part 1: merged capacities of every node pair (both directions together) fit i32
  let C := FlowSpec.matOf n es
  let pairsFit := (List.range n).all fun u => (List.range n).all fun v =>
    if u == v then decide (FlowSpec.look n C u u ≤ i32max)
    else decide (FlowSpec.look n C u v + FlowSpec.look n C v u ≤ i32max)
  if !pairsFit then return { model := #[], verdict := .skip "merged capacities of a node pair exceed i32 (capsFit)" }
  let total : Int := es.foldl (fun a e => a + e.2.2) 0
  let fuel := total.toNat + 2
  -- model runs
  let (od, dd) := runDinic inp fuel
  let (oe, de) := runSolver inp fuel true
  let (off, df) := runSolver inp fuel false
  -- bounded cases: Dinic through `runBounded`, EK/FF discard the bound (it keeps its value)
  let trueFlow := parseInt? od.flow
  let odB := match inp.ub with
    | some B => runDinicBounded inp fuel B trueFlow
    | none => od
  let odB := { odB with rerun := inp.rr > 0 }
  let oeB := { oe with bound := inp.ub, rerun := inp.rr > 0 }
  let offB := { off with bound := inp.ub, rerun := inp.rr > 0 }
  let model := renderObs withPre withAssign "dinic" odB ++ renderObs withPre withAssign "ek" oeB ++
               renderObs withPre withAssign "ff" offB
  let modelStuck := od.stuck || oe.stuck || off.stuck || odB.stuck
  -- no i32 overflow, part 2: the maximum flow value (the model's exact Int result) fits i32
  match parseInt? od.flow with
  | some x => if x > i32max then return { model := #[], verdict := .skip "maximum flow value exceeds i32 (capsFit)" }
  | none => pure ()
  -- the model's own final states through the same checker (a failure here is a model bug)
  let modelCert := [od, oe, off].all fun o =>
    match parseInt? o.flow, parseBits o.assign with
    | some x, some bits =>
      if withAssign then FlowSpec.minCutFast es inp.s inp.t o.res x bits else FlowSpec.certFast es inp.s inp.t o.res x
    | _, _ => false
  -- judge: the Spec checkers on what the REAL solvers reported
  let mut verdict : Verdict := .ok
  let mut flows : List String := []
  let mut assigns : List String := []
  for solver in ["dinic", "ek", "ff"] do
    if !(verdict matches .ok) then break
    if withPre then
      match obsField c.impl "D" solver "pre" with
      | some "ERR,ERR" => pure ()
      | some p => verdict := .fail s!"{solver}: max_flow()/assignment() before run() returned {p} instead of Err"
      | none => verdict := .fail s!"{solver}: no observation before run ({" | ".intercalate (c.impl.toList.take 8)})"
    if !(verdict matches .ok) then break
    let some flowS := (obsField c.impl "D" solver "flow").orElse fun _ => obsField c.impl "F" solver "flow"
      | verdict := .fail s!"{solver}: no flow observation ({" | ".intercalate (c.impl.toList.take 8)})"
    -- a bounded run may end without a result only where the bound is below the true maximum flow, and only
    -- for the solver that honours the bound
    if flowS == "ERR" then
      match inp.ub, trueFlow with
      | some B, some f =>
        if solver != "dinic" then
          verdict := .fail s!"{solver}: run_with_upper_bound({B}) ended without a result although this solver discards the bound"
        else if f ≤ B then
          verdict := .fail s!"{solver}: run_with_upper_bound({B}) ended without a result although the maximum flow {f} does not exceed the bound"
        else
          -- the aborted object run again: from the second additional run on one of the runs was
          -- `run_with_upper_bound(i32::MAX)`, which cannot abort, so the object has completed a run and must
          -- report the maximum flow and the canonical cut (what the unbounded model run, proved correct, reports)
          if inp.rr ≥ 2 then
            match obsField c.impl "D" solver "flow2" with
            | some f2 =>
              if f2 != toString f then
                verdict := .fail s!"{solver}: aborted at bound {B}, then run {inp.rr} more times (the second under a new bound i32::MAX): max_flow() reports {f2}, the maximum flow is {f}"
            | none => verdict := .fail s!"{solver}: no observation after the additional runs"
            if withAssign && (verdict matches .ok) then
              match obsField c.impl "D" solver "assign2" with
              | some a2 =>
                if a2 != od.assign then
                  verdict := .fail s!"{solver}: aborted at bound {B}, then completed under a new bound: assignment() reports {a2}, the canonical cut is {od.assign}"
              | none => verdict := .fail s!"{solver}: no assignment observation after the additional runs"
          continue
      | _, _ => pure ()
    let some x := parseInt? flowS
      | verdict := .fail s!"{solver}: max_flow() after run() returned {flowS}"
    let some res := (obsField c.impl "F" solver "res").bind parseTriples
      | verdict := .fail s!"{solver}: no residual graph observation"
    flows := flowS :: flows
    if inp.rr > 0 then
      match obsField c.impl "D" solver "flow2" with
      | some f2 =>
        if f2 != flowS then
          verdict := .fail s!"{solver}: after {inp.rr} more run(s) of the same object max_flow() reports {f2}, the maximum flow is {flowS}"
      | none => verdict := .fail s!"{solver}: no observation after the additional runs"
      if withAssign && (verdict matches .ok) then
        match obsField c.impl "D" solver "assign2", obsField c.impl "D" solver "assign" with
        | some a2, some a1 =>
          if a2 != a1 then
            verdict := .fail s!"{solver}: after {inp.rr} more run(s) of the same object assignment() reports {a2}, the canonical cut is {a1}"
        | _, _ => verdict := .fail s!"{solver}: no assignment observation after the additional runs"
    if !(verdict matches .ok) then break
    if withAssign then
      let some aS := (obsField c.impl "D" solver "assign").orElse fun _ => obsField c.impl "F" solver "assign"
        | verdict := .fail s!"{solver}: no assignment observation"
      let some bits := parseBits aS
        | verdict := .fail s!"{solver}: assignment() after run() returned {aS}"
      assigns := aS :: assigns
      if !FlowSpec.minCutFast es inp.s inp.t res x bits then
        verdict := .fail s!"{solver}: flow={x} assign={aS}: {FlowSpec.minCutWhy es inp.s inp.t res x bits}"
    else
      if !FlowSpec.certFast es inp.s inp.t res x then
        verdict := .fail s!"{solver}: flow={x}: {FlowSpec.certWhy es inp.s inp.t res x}"
  if verdict matches .ok then
    match flows with
    | f :: rest => if rest.any (· != f) then verdict := .fail s!"solvers report different flow values {flows.reverse}"
    | [] => pure ()
    match assigns with
    | a :: rest => if rest.any (· != a) then verdict := .fail s!"solvers report different assignments {assigns.reverse}"
    | [] => pure ()
  if verdict matches .ok then
    if modelStuck then verdict := .fail "model-out-of-fuel (or the model reached a panic branch) on an in-domain input"
    else if !modelCert then verdict := .fail "model: the model's own final state is rejected by the certificate check (model bug)"
  -- statistics
  let trace := (dd.map (·.trace)).getD []
  let phases := (dd.map (·.bfsCount)).getD 1 - 1
  let shared := sharedPrefix trace
  let nontrivial := (shared && maxAugsInPhase trace ≥ 2) || phases ≥ 2
  -- would the pre-fix Dinic (defect D1) have answered differently?
  let d1 :=
    match Dinic.fromEdgeList (toEdges es) inp.s inp.t with
    | none => false
    | some d0 =>
      match FlowLegacy.run d0 fuel with
      | none => true
      | some dl => outIntS dl.maxFlow? != od.flow
  let resEdges := (dd.map (·.g.numEdges)).getD 0
  return { model := model, verdict := verdict,
           stats := [("nontrivial", bit nontrivial), ("n", toString n), ("m", toString es.length),
                     ("resedges", toString resEdges),
                     ("phases", toString phases), ("augs", toString trace.length),
                     ("maxaugsphase", toString (maxAugsInPhase trace)), ("sharedprefix", bit shared),
                     ("d1legacydiffers", bit d1),
                     ("ekaugs", toString ((de.map (·.augs)).getD 0)), ("ffaugs", toString ((df.map (·.augs)).getD 0)),
                     ("flowpos", bit (od.flow != "0")),
                     ("bounded", bit inp.ub.isSome), ("boundedabort", bit (inp.ub.isSome && odB.flow == "ERR"))] }

end Tbx.Drv.FlowCommon
