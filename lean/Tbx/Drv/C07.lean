import Tbx.Drv.Common
import Tbx.Model.Bincode
import Tbx.Model.GraphFiles
import Tbx.Spec.GraphText
import Tbx.Drv.C07Huge
/-
Driver for C07 (graph_plier + loaders).

ops:
  F <dimacs|metis|ddsg> eol=<lf|crlf> final=<0|1>     header: format, line terminator, newline after the last line
  G <annotation> ; <text>|                            one line of the graph file
  C <annotation> ; <text>|                            one line of the coordinate file
The text is everything between the first " ; " and the last "|" (so that leading/trailing blanks survive
the line trimming of the protocol).  The annotation is the abstract item the line was rendered from; only
the judge reads it, only the model reads the text:
  dimacs  G: c | p <n> <m> | a <u> <v> <w>            C: c | p <n> | v <id> <lon> <lat>
  metis   G: h <n> <m> | adj <t>...                   C: xy <lonMant> <lonScale> <latMant> <latScale>
  ddsg    G: d | h <n> <m> | e <u> <v> <w> <dir>      C: n <count> | xyi <idx> <lonMant> <lonScale> <latMant> <latScale>
  (decimal coordinate = mant / 10^scale, in units of 1e-5 degree)
  PRE <k>                                             the output paths already hold the result of a previous, larger
                                                      conversion (k arcs, k coordinates); ignored by the model
  HUGE metis-ring <n> <ring> <deg> <ncoords>           a parametrised file pair, see Drv/C07Huge.lean

obs (all determined):
  D rc=<exit status of graph_plier>                   0, or 101 for a panic; nothing else follows if not 0
  D gbytes=<hex>   D cbytes=<hex>                     the two .toolbox files
  D tedges=s/t,...                                    io::read_graph_into_trivial_edges
  D wedges=s/t/w,...                                  io::read_vec_from_file::<InputEdge<usize>>
  D coords=lat/lon,...                                io::read_vec_from_file::<FPCoordinate>      (ERR = the loader failed)
Model: text -> views -> token-level parser -> bincode encoder for rc/gbytes/cbytes; the three read-back
lines are the model DECODER applied to the implementation's bytes (to the model's own if there are none).
Judge: expected lists from the annotations via Tbx.GraphSpec, compared with the decoded bytes and with
the loaders' read-back (`Delivered`); METIS/DDSG coordinates within one micro-degree (`CoordsWithin`).
-/
namespace Tbx.Drv.C07
open Tbx Tbx.Drv Tbx.Bincode Tbx.GraphFiles Tbx.GraphSpec

def bit (b : Bool) : String := if b then "1" else "0"

def hexDigit (n : Nat) : Char := if n < 10 then Char.ofNat (48 + n) else Char.ofNat (87 + n)

def toHex (bs : List Nat) : String :=
  String.ofList (bs.foldr (fun b acc => hexDigit (b / 16 % 16) :: hexDigit (b % 16) :: acc) [])

def hexVal (c : Char) : Option Nat :=
  if '0' ≤ c ∧ c ≤ '9' then some (c.toNat - 48)
  else if 'a' ≤ c ∧ c ≤ 'f' then some (c.toNat - 87)
  else none

def fromHexAux : List Char → List Nat → Option (List Nat)
  | [], acc => some acc.reverse
  | [_], _ => none
  | a :: b :: r, acc =>
    match hexVal a, hexVal b with
    | some x, some y => fromHexAux r ((16 * x + y) :: acc)
    | _, _ => none

def fromHex (s : String) : Option (List Nat) := fromHexAux s.toList []

def showEdges (es : List InputEdge) : String :=
  ",".intercalate (es.map fun e => s!"{e.source}/{e.target}/{e.data}")
def showTrivial (es : List (Nat × Nat)) : String :=
  ",".intercalate (es.map fun e => s!"{e.1}/{e.2}")
def showCoords (cs : List FPCoordinate) : String :=
  ",".intercalate (cs.map fun c => s!"{c.lat}/{c.lon}")

def splitNonEmpty (s : String) (sep : String) : List String := (s.splitOn sep).filter (· ≠ "")

def parseEdges (s : String) : Option (List InputEdge) :=
  (splitNonEmpty s ",").mapM fun e =>
    match (e.splitOn "/").map String.toNat? with
    | [some a, some b, some c] => some ⟨a, b, c⟩
    | _ => none

def parseTrivial (s : String) : Option (List (Nat × Nat)) :=
  (splitNonEmpty s ",").mapM fun e =>
    match (e.splitOn "/").map String.toNat? with
    | [some a, some b] => some (a, b)
    | _ => none

def parseCoords (s : String) : Option (List FPCoordinate) :=
  (splitNonEmpty s ",").mapM fun e =>
    match (e.splitOn "/").map parseInt? with
    | [some a, some b] => some ⟨a, b⟩
    | _ => none

/-- `G ann ; text|` -> (ann, text) -/
def splitOp (body : String) : Option (String × String) :=
  match body.splitOn " ; " with
  | ann :: t :: ts =>
    let text := (" ; ".intercalate (t :: ts)).toList
    match text.getLast? with
    | some '|' => some (ann, String.ofList text.dropLast)
    | _ => none
  | _ => none

/-- value of `key=` among the implementation's observation lines -/
def obsField (impl : Array String) (key : String) : Option String :=
  impl.toList.findSome? fun l =>
    if l.startsWith ("D " ++ key ++ "=") || l.startsWith ("F " ++ key ++ "=") then some (l.drop (key.length + 3)).toString else none

structure Abs where
  g : Array (List String) := #[]      -- annotation words per graph line
  c : Array (List String) := #[]

def nat! (s : String) : Option Nat := s.toNat?

def U64 : Nat := 18446744073709551616
/-- largest announced count the judge admits (allocation is not modelled) -/
def maxCount : Nat := 20000000

/-- DIMACS graph annotations -> abstract file, with the domain check of the property -/
def absDimacs (g : List (List String)) : Except String (List DimacsItem) := do
  let mut items : List DimacsItem := []
  let mut n : Option Nat := none
  for a in g do
    match a with
    | ["c"] => items := .comment :: items
    | ["p", x, y] =>
      match nat! x, nat! y with
      | some x, some y =>
        if n.isSome then throw "two problem lines"
        if x > maxCount then throw "announced node count beyond what the judge admits"
        n := some x
        items := .problem x y :: items
      | _, _ => throw "bad annotation"
    | ["a", u, v, w] =>
      match nat! u, nat! v, nat! w, n with
      | some u, some v, some w, some nn =>
        if u < 1 ∨ v < 1 ∨ u > nn ∨ v > nn then throw "arc endpoint outside 1..n"
        if w ≥ U64 then throw "weight does not fit usize"
        items := .arc u v w :: items
      | some _, some _, some _, none => throw "arc before the problem line"
      | _, _, _, _ => throw "bad annotation"
    | _ => throw "bad annotation"
  if n.isNone then throw "no problem line"
  return items.reverse

def inI32 (i : Int) : Bool := decide (I32 i)

def absDimacsCo (c : List (List String)) : Except String (List DimacsCoItem) := do
  let mut items : List DimacsCoItem := []
  let mut seenP := false
  let mut next := 1
  for a in c do
    match a with
    | ["c"] => items := .comment :: items
    | ["p", x] =>
      match nat! x with
      | some x =>
        if seenP then throw "two problem lines in the coordinate file"
        if x > maxCount then throw "announced coordinate count beyond what the judge admits"
        seenP := true
        items := .problem x :: items
      | none => throw "bad annotation"
    | ["v", id, lon, lat] =>
      match nat! id, parseInt? lon, parseInt? lat with
      | some id, some lon, some lat =>
        if !seenP then throw "vertex before the problem line"
        if id ≠ next then throw "vertex ids not consecutive from 1"
        if !(inI32 lon && inI32 lat) then throw "coordinate does not fit i32"
        next := next + 1
        items := .vertex id lon lat :: items
      | _, _, _ => throw "bad annotation"
    | _ => throw "bad annotation"
  return items.reverse

def absMetis (g : List (List String)) : Except String (Nat × List (List Nat)) := do
  match g with
  | ["h", n, _] :: rest =>
    match nat! n with
    | none => throw "bad annotation"
    | some n =>
      let mut adj : List (List Nat) := []
      for a in rest do
        match a with
        | "adj" :: ts =>
          match ts.mapM nat! with
          | some ts =>
            if ts.any (fun t => t < 1 ∨ t > n) then throw "neighbour outside 1..n"
            adj := ts :: adj
          | none => throw "bad annotation"
        | _ => throw "bad annotation"
      if adj.length > n then throw "more adjacency lines than nodes"
      if n ≥ U64 then throw "node count does not fit usize"
      return (n, adj.reverse)
  | _ => throw "no header line"

def decOK (m : Int) (s : Nat) : Bool := s ≤ 3 && m.natAbs ≤ 18000000 * 10 ^ s

def absXY (ws : List String) : Except String (Dec × Dec) :=
  match ws with
  | [a, b, c, d] =>
    match parseInt? a, nat! b, parseInt? c, nat! d with
    | some lm, some ls, some am, some as =>
      if decOK lm ls && decOK am as then .ok (⟨lm, ls⟩, ⟨am, as⟩)
      else .error "coordinate outside +-180 degrees or more than 3 fractional digits"
    | _, _, _, _ => .error "bad annotation"
  | _ => .error "bad annotation"

def absMetisCo (c : List (List String)) : Except String (List (Dec × Dec)) :=
  c.mapM fun a =>
    match a with
    | "xy" :: ws => absXY ws
    | _ => .error "bad annotation"

def absDdsg (g : List (List String)) : Except String (List DdsgArc) := do
  match g with
  | ["d"] :: ["h", _, _] :: rest =>
    rest.mapM fun a =>
      match a with
      | ["e", u, v, w, d] =>
        match nat! u, nat! v, nat! w, nat! d with
        | some u, some v, some w, some d =>
          if u ≥ U64 ∨ v ≥ U64 ∨ w ≥ U64 then .error "number does not fit usize"
          else if d > 3 then .error "direction code outside 0..3"
          else .ok ⟨u, v, w, d⟩
        | _, _, _, _ => .error "bad annotation"
      | _ => .error "bad annotation"
  | _ => throw "no 'd' / size header"

def absDdsgCo (c : List (List String)) : Except String (List (Dec × Dec)) := do
  match c with
  | ["n", cnt] :: rest =>
    match nat! cnt with
    | none => throw "bad annotation"
    | some cnt =>
      if cnt > maxCount then throw "announced coordinate count beyond what the judge admits"
      if cnt ≠ rest.length then throw "announced coordinate count differs from the number of lines"
      let mut out : List (Dec × Dec) := []
      let mut k := 0
      for a in rest do
        match a with
        | "xyi" :: i :: ws =>
          if nat! i ≠ some k then throw "coordinate indices not consecutive from 0"
          let d ← absXY ws
          out := d :: out
          k := k + 1
        | _ => throw "bad annotation"
      return out.reverse
  | _ => throw "no count line"

def firstDiff {α : Type} [BEq α] (xs ys : List α) : Nat :=
  let rec go : List α → List α → Nat → Nat
    | x :: xs, y :: ys, k => if x == y then go xs ys (k + 1) else k
    | _, _, k => k
  go xs ys 0

def showE (e : Option InputEdge) : String :=
  match e with
  | some e => s!"({e.source},{e.target},{e.data})"
  | none => "<none>"

def showC (c : Option FPCoordinate) : String :=
  match c with
  | some c => s!"(lat {c.lat}, lon {c.lon})"
  | none => "<none>"

/-- explain a failed `Delivered` for edges -/
def explainEdges (what : String) (got exp : List InputEdge) : String :=
  let k := firstDiff got exp
  s!"{what}: {got.length} edges, expected {exp.length}; first difference at index {k}: got {showE got[k]?} expected {showE exp[k]?}"

def explainCoords (what : String) (got exp : List FPCoordinate) : String :=
  let k := firstDiff got exp
  s!"{what}: {got.length} coordinates, expected {exp.length}; first difference at index {k}: got {showC got[k]?} expected {showC exp[k]?}"

/-- first coordinate outside the tolerance -/
def firstOutside : List (Dec × Dec) → List FPCoordinate → Nat → Option String
  | [], [], _ => none
  | (lon, lat) :: ds, c :: cs, k =>
    if withinMicroB lat c.lat && withinMicroB lon c.lon then firstOutside ds cs (k + 1)
    else some s!"coordinate {k}: stored (lat {c.lat}, lon {c.lon}) is more than one micro-degree from lat {lat.mant}e-{lat.scale + 5} lon {lon.mant}e-{lon.scale + 5} degrees"
  | ds, cs, k => some s!"{k + cs.length} coordinates stored, {k + ds.length} described"

/-- number of varints in the two files that need more than one byte -/
def countMulti (gb cb : List Nat) : Nat :=
  let e := match decodeEdges gb with
    | some (es, _) => (if es.length > 250 then 1 else 0) +
        es.foldl (fun n e => n + (if e.source > 250 then 1 else 0) + (if e.target > 250 then 1 else 0) +
                             (if e.data > 250 then 1 else 0)) 0
    | none => 0
  let c := match decodeCoords cb with
    | some (cs, _) => (if cs.length > 250 then 1 else 0) +
        cs.foldl (fun n c => n + (if zigzag c.lat > 250 then 1 else 0) + (if zigzag c.lon > 250 then 1 else 0)) 0
    | none => 0
  e + c

def handle (c : Case) : CaseOut := Id.run do
  -- ---- thorough-tier family `huge`: parameters instead of text lines, digests instead of hex (Drv/C07Huge.lean)
  for l in c.ops do
    match words l with
    | "HUGE" :: "metis-ring" :: args => return C07Huge.handle c args
    | _ => pure ()
  -- ---- parse the ops
  let mut fmtO : Option Format := none
  let mut fmtName := ""
  let mut gText : Array String := #[]
  let mut cText : Array String := #[]
  let mut abs : Abs := {}
  for l in c.ops do
    if l.startsWith "F " then
      match words l with
      | _ :: f :: _ =>
        fmtName := f
        fmtO := match f with
          | "dimacs" => some .dimacs
          | "metis" => some .metis
          | "ddsg" => some .ddsg
          | _ => none
      | _ => pure ()
    else if l.startsWith "G " || l.startsWith "C " then
      match splitOp (l.drop 2).toString with
      | some (ann, text) =>
        if l.startsWith "G " then
          gText := gText.push text; abs := { abs with g := abs.g.push (words ann) }
        else
          cText := cText.push text; abs := { abs with c := abs.c.push (words ann) }
      | none => return { model := #[], verdict := .skip s!"unparsable op {(l.take 60).toString}" }
    else if l.startsWith "PRE " then
      -- `PRE k`: before this conversion the harness runs graph_plier on an unrelated k-arc DIMACS input with the
      -- same file names, so the output files already exist (and are longer).  The file content the property
      -- describes does not depend on what was at the output paths before: the model ignores the line.
      pure ()
    else return { model := #[], verdict := .skip s!"unparsable op {(l.take 60).toString}" }
  let some fmt := fmtO | return { model := #[], verdict := .skip "no format header" }
  -- ---- model
  let implG := (obsField c.impl "gbytes").bind fromHex
  let implC := (obsField c.impl "cbytes").bind fromHex
  let mut out : Array String := #[]
  let mut modelBytes : Option (List Nat × List Nat) := none
  let mut outside := false
  match mkLines gText.toList, mkLines cText.toList with
  | some gl, some cl =>
    match plier fmt gl cl with
    | none => out := out.push "D rc=101"
    | some (gb, cb) =>
      modelBytes := some (gb, cb)
      out := out.push "D rc=0"
      out := out.push ("D gbytes=" ++ toHex gb)
      -- METIS / DDSG coordinates are scaled through floating point: the property fixes the stored values only to
      -- within one millionth of a degree, so these bytes (and their read-back) are free; the judge checks tolerance
      let ccls := if fmt matches .dimacs then "D" else "F"
      out := out.push (ccls ++ " cbytes=" ++ toHex cb)
      let dg := implG.getD gb
      let dc := implC.getD cb
      out := out.push ("D tedges=" ++ match decodeTrivialEdges dg with | some es => showTrivial es | none => "ERR")
      out := out.push ("D wedges=" ++ match decodeEdges dg with | some (es, _) => showEdges es | none => "ERR")
      out := out.push (ccls ++ " coords=" ++ match decodeCoords dc with | some (cs, _) => showCoords cs | none => "ERR")
  | _, _ => outside := true
  -- ---- judge (annotations + implementation lines only)
  let gA := abs.g.toList
  let cA := abs.c.toList
  let expected : Except String (List InputEdge × (List FPCoordinate ⊕ List (Dec × Dec))) :=
    match fmt with
    | .dimacs => do
      let F ← absDimacs gA
      let G ← absDimacsCo cA
      return (dimacsEdges F, .inl (GraphSpec.dimacsCoords G))
    | .metis => do
      let (_, adj) ← absMetis gA
      let ds ← absMetisCo cA
      return (metisEdges adj, .inr ds)
    | .ddsg => do
      let arcs ← absDdsg gA
      let ds ← absDdsgCo cA
      return (ddsgEdges arcs, .inr ds)
  let mut verdict : Verdict := .ok
  match expected with
  | .error why => verdict := .skip ("not a well-formed file of the format: " ++ why)
  | .ok (expE, expC) =>
    if outside then verdict := .skip "text outside the modelled character set"
    else
    let rc := obsField c.impl "rc"
    if rc ≠ some "0" then
      verdict := .fail s!"graph_plier did not complete on a well-formed {fmtName} input: {";".intercalate (c.impl.toList.take 3)}"
    else
    match implG, implC, (obsField c.impl "tedges").bind parseTrivial, (obsField c.impl "wedges").bind parseEdges,
          (obsField c.impl "coords").bind parseCoords with
    | some gb, some cb, some te, some we, some co =>
      -- edges: file content and both read-backs
      if !(deliveredB decodeEdges gb we expE) then
        match decodeEdges gb with
        | none => verdict := .fail "graph file: bytes do not decode as Vec<InputEdge<usize>>"
        | some (es, rest) =>
          if es ≠ expE then verdict := .fail (explainEdges "graph file content" es expE)
          else if rest ≠ [] then verdict := .fail s!"graph file: {rest.length} bytes after the edge list"
          else verdict := .fail (explainEdges "read_vec_from_file::<InputEdge<usize>> read-back" we expE)
      else if te ≠ expE.map (fun e => (e.source, e.target)) then
        verdict := .fail s!"read_graph_into_trivial_edges read-back differs from the described edges at index {firstDiff te (expE.map fun e => (e.source, e.target))}"
      else
        match expC with
        | .inl cs =>
          if !(deliveredB decodeCoords cb co cs) then
            match decodeCoords cb with
            | none => verdict := .fail "coordinate file: bytes do not decode as Vec<FPCoordinate>"
            | some (ds, rest) =>
              if ds ≠ cs then verdict := .fail (explainCoords "coordinate file content" ds cs)
              else if rest ≠ [] then verdict := .fail s!"coordinate file: {rest.length} bytes after the list"
              else verdict := .fail (explainCoords "read_vec_from_file::<FPCoordinate> read-back" co cs)
        | .inr ds =>
          if decodeCoords cb ≠ some (co, []) then
            verdict := .fail "coordinate file: decoded content differs from the read_vec_from_file::<FPCoordinate> read-back"
          else if !(coordsWithinB ds co) then
            verdict := .fail ((firstOutside ds co 0).getD "coordinates outside the tolerance")
    | _, _, _, _, _ =>
      verdict := .fail s!"observation lines missing or a loader failed: {";".intercalate ((c.impl.toList.drop 3).map (fun s => (s.take 40).toString))}"
  -- ---- statistics (from the annotations and the model's bytes)
  let selfloops := gA.foldl (fun n a =>
    match a with
    | ["a", u, v, _] => if u == v then n + 1 else n
    | ["e", u, v, _, _] => if u == v then n + 1 else n
    | _ => n) 0
  let metisLoops : Nat := Id.run do
    let mut k := 0
    let mut i := 0
    for a in gA do
      match a with
      | "adj" :: ts =>
        k := k + (ts.filter (fun t => t.toNat? == some (i + 1))).length
        i := i + 1
      | _ => pure ()
    return k
  let comments := (gA ++ cA).foldl (fun n a => if a == ["c"] then n + 1 else n) 0
  let isolated := gA.foldl (fun n a => if a == ["adj"] then n + 1 else n) 0
  let codes := [0, 1, 2, 3].map fun d => gA.any fun a =>
    match a with
    | ["e", u, v, _, x] => x == toString d && u != v
    | _ => false
  let multi := match modelBytes with
    | some (gb, cb) => countMulti gb cb
    | none => 0
  let loops := selfloops + metisLoops
  let special := match fmt with
    | .dimacs => comments ≥ 1
    | .metis => isolated ≥ 1
    | .ddsg => codes.all id
  let nontrivial := loops ≥ 1 && multi ≥ 1 && special && modelBytes.isSome
  let nEdges := match modelBytes with
    | some (gb, _) => match decodeEdges gb with | some (es, _) => es.length | none => 0
    | none => 0
  return { model := out, verdict := verdict,
           stats := [("nontrivial", bit nontrivial), ("glines", toString gText.size), ("clines", toString cText.size),
                     ("edges", toString nEdges), ("selfloops", toString loops), ("comments", toString comments),
                     ("isolated", toString isolated), ("multibyte", toString multi),
                     ("allcodes", bit (codes.all id)),
                     (fmtName, "1")] }

end Tbx.Drv.C07
