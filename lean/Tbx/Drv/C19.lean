import Tbx.Drv.Common
import Tbx.Model.Hull
import Tbx.Model.ZOrder
import Tbx.Model.BBox
import Tbx.Model.FloatShadow
import Tbx.Model.Scaffold
import Tbx.Spec.Geometry
import Tbx.Spec.F64
/-
Driver for C19 (geometric primitives).  The first op line of a case is its header.

  H  / p lat lon ...                  hull of the points
       F hull  lat,lon ...            raw output of monotone_chain (start vertex / orientation are free)
       D hullc lat,lon ...            canonical form (see `canonHull`)
  Z  / p lat lon ...                  F z i <row>   row i of the comparison matrix, L/E/G per column (which strict
                                      total order it is, is free); D zeq i <row> where the answer is Equal (E/N)
  B  / p lat lon ... then in order  q lat lon | x lat lon lat lon | xi | s lat lon | c
       D box 0 minlat minlon maxlat maxlon valid=b     after from_coordinates (invalid() if no p line)
       D q k b                        contains
       D x k minlat minlon maxlat maxlon valid=b       after extend_with (x: box of two coordinates,
                                      xi: invalid box) / from_coordinate (s)
       F c k lat lon                  center (rounding is free)
  MD minlat minlon maxlat maxlon / q lat lon ...
       D mdbox minlat minlon maxlat maxlon
       F md k inside=b got=<bits> clamp=lat,lon dclamp=<bits> dc=<bits>,<bits>,<bits>,<bits>
  MR / lat <bits> | lon <bits> ...
       F lat k y= back= approx= wlat= wlon=        F lon k x= back=
  T  / t <latbits> <lonbits> zoom ...
       F tile k x= y= [lon1= lat1= lon2= lat2= tpx=a,b] plon= plat= blon= blat=
  SC / n lat lon pid ...
       D scids id ...   then per id:  F scring id wellformed=b lat,lon ... | D schull id lat,lon ... |
       F scbox id minlat minlon maxlat maxlon   (the bbox member is not part of the property)

Floating-point values travel as IEEE-754 bit patterns (decimal u64).  The judge reads them as exact
rationals (`Tbx.F64`) and applies the tolerances documented in /repo (constants below); the `M` lines
for them come from the unverified shadow `Tbx.FS` and only feed the drift statistic.
-/
namespace Tbx.Drv.C19
open Tbx Tbx.Drv Tbx.Geo

def bit (b : Bool) : String := if b then "1" else "0"
def ptS (c : Coord) : String := s!"{c.lat},{c.lon}"
def ptsS (l : List Coord) : String := " ".intercalate (l.map ptS)
def withBody (pre body : String) : String := if body.isEmpty then pre else pre ++ " " ++ body

def parsePt? (s : String) : Option Coord :=
  match s.splitOn "," with
  | [a, b] => do
    let x ← parseInt? a
    let y ← parseInt? b
    pure ⟨x, y⟩
  | _ => none

def parsePts? (ws : List String) : Option (List Coord) := ws.mapM parsePt?

def field (ws : List String) (key : String) : Option String :=
  ws.findSome? fun w => if w.startsWith (key ++ "=") then some (w.drop (key.length + 1)).toString else none

def fieldNat (ws : List String) (key : String) : Option Nat := (field ws key).bind String.toNat?

/-- first implementation line that starts with the given words -/
def implLine (c : Case) (pre : List String) : Option (List String) :=
  c.impl.toList.findSome? fun l =>
    let ws := words l
    if ws.take pre.length == pre then some (ws.drop pre.length) else none

def crashed (c : Case) : Option String :=
  c.impl.toList.find? fun l => l == "PANIC" || l == "HANG" || l == "ABORT"

def coordsOf (c : Case) (tag : String) : List Coord :=
  c.ops.toList.filterMap fun l =>
    match words l with
    | [t, a, b] => if t == tag then some ⟨parseInt! a, parseInt! b⟩ else none
    | _ => none

/-! ### hulls -/

def lexLt (a b : Coord) : Bool := decide (a.lat < b.lat) || (decide (a.lat = b.lat) && decide (a.lon < b.lon))

def argMin (l : List Coord) : Nat := Id.run do
  let arr := l.toArray
  let mut best := 0
  for i in [1:arr.size] do
    if lexLt arr[i]! arr[best]! then best := i
  return best

/-- canonical form of a hull (the same algorithm as `canon_hull` in harness/src/bin/gen_c19.rs):
up to three input points: as returned; otherwise one point if all vertices are equal, the sorted pair
for two vertices, else the cyclic sequence with positive orientation starting at its smallest vertex -/
def canonHull (nInput : Nat) (h : List Coord) : List Coord :=
  if nInput ≤ 3 then h
  else
    match h with
    | [] => []
    | h0 :: _ =>
      if h.all (· == h0) then [h0]
      else
        match h with
        | [a, b] => if lexLt b a then [b, a] else [a, b]
        | _ =>
          let area2 : Int := ((h.drop 1).zip (h.drop 2)).foldl (fun acc ab => acc + cross h0 ab.1 ab.2) 0
          let h' := if area2 < 0 then h.reverse else h
          h'.rotateLeft (argMin h')

/-- pops performed by one pass (statistics) -/
def passPops (minLen : Nat) (st : List Coord) (pts : List Coord) : Nat × List Coord :=
  pts.foldl (fun (acc : Nat × List Coord) p => (acc.1 + popCount minLen p acc.2, p :: popWhile minLen p acc.2)) (0, st)

def hullWhy (pts h : List Coord) : String :=
  if pts.length ≤ 3 then
    s!"up to three points must be returned as they are: input [{ptsS pts}] output [{ptsS h}]"
  else
    match h.find? (fun v => !pts.contains v) with
    | some v => s!"hull vertex {ptS v} is not an input point (hull [{ptsS h}])"
    | none =>
      let s : Option Int := if strictlyConvexB 1 h then some 1 else if strictlyConvexB (-1) h then some (-1) else none
      match s with
      | some s =>
        let bad := (edges h).findSome? fun e => (pts.find? fun p => decide (s * cross e.1 e.2 p < 0)).map fun p => (e, p)
        match bad with
        | some (e, p) => s!"input point {ptS p} lies outside the edge {ptS e.1} -> {ptS e.2} of the returned hull [{ptsS h}]"
        | none => s!"hull [{ptsS h}] rejected"
      | none =>
        if h.length ≥ 3 then s!"returned hull [{ptsS h}] is not strictly convex (collinear or repeated vertices, or a reflex turn)"
        else s!"returned hull [{ptsS h}] is neither the segment nor the point that carries all {pts.length} input points"

def handleHull (c : Case) : CaseOut :=
  let pts := coordsOf c "p"
  let model := monotoneChain pts
  let mlines := #[withBody "F hull" (ptsS model), withBody "D hullc" (ptsS (canonHull pts.length model))]
  let cs := sortLonLat pts
  let (p1, lowerSt) := passPops 2 [] cs
  let lower := lowerSt.tail
  let (p2, _) := passPops (2 + lower.length) lower cs.reverse
  let pops := if pts.length ≤ 3 then 0 else p1 + p2
  let stats := [("nontrivial", bit (decide (pts.length > 3 ∧ pops ≥ 1))), ("hull_cases", "1"), ("hull_points", toString pts.length),
                ("hull_vertices", toString model.length), ("hull_pops", toString pops),
                ("hull_degenerate", bit (decide (pts.length > 3 ∧ model.length ≤ 2)))]
  let verdict : Verdict :=
    if !pts.all (fun p => decide (ValidCoord p)) then .skip "a coordinate lies outside the valid latitude/longitude range"
    else match crashed c with
    | some w => .fail s!"monotone_chain: {w} on {pts.length} valid coordinates"
    | none =>
      match implLine c ["F", "hull"] with
      | none => .fail "no hull observation"
      | some ws =>
        match parsePts? ws with
        | none => .fail "unparsable hull observation"
        | some h =>
          -- model sanity (the proved clauses, re-checked on the concrete run)
          if hullSpecB pts h then
            -- the proved clauses, re-evaluated on the concrete run
            if !hullSpecB pts model then .fail "model/spec mismatch: the Lean model's hull fails the Spec on this input"
            else if monotoneChainI64 pts != some model then .fail "model: the i64 orientation test overflows on valid coordinates"
            else .ok
          else .fail (hullWhy pts h)
  { model := mlines, verdict := verdict, stats := stats }

/-! ### z-order -/

def ordChar : Ordering → Char
  | .lt => 'L'
  | .eq => 'E'
  | .gt => 'G'

def flipChar (ch : Char) : Char := if ch == 'L' then 'G' else if ch == 'G' then 'L' else ch

/-- which branch of `zorder_cmp` decides the pair (statistics) -/
def zBranch (l r : Coord) : Nat :=
  let latXor := pat32 l.lat ^^^ pat32 r.lat
  let lonXor := pat32 l.lon ^^^ pat32 r.lon
  if latXor = 0 ∧ lonXor = 0 then 0
  else if latXor = 0 then 1
  else if lonXor = 0 then 2
  else match compare (Nat.log2 latXor) (Nat.log2 lonXor) with
    | .gt => 3
    | .lt => 4
    | .eq => 5

def handleZ (c : Case) : CaseOut := Id.run do
  let pts := (coordsOf c "p").toArray
  let n := pts.size
  let mut mlines : Array String := #[]
  let mut br : Array Nat := Array.replicate 6 0
  for i in [0:n] do
    let mut row := ""
    for j in [0:n] do
      row := row.push (ordChar (zorderCmp pts[i]! pts[j]!))
      let b := zBranch pts[i]! pts[j]!
      br := br.modify b (· + 1)
    mlines := mlines.push s!"F z {i} {row}"
    mlines := mlines.push s!"D zeq {i} {String.ofList (row.toList.map fun ch => if ch == 'E' then 'E' else 'N')}"
  let stats := [("nontrivial", bit (br[3]! + br[4]! + br[5]! > 0)), ("z_cases", "1"), ("z_points", toString n),
                ("z_pairs", toString (n * n)), ("z_br_equal", toString br[0]!), ("z_br_lat_same", toString br[1]!),
                ("z_br_lon_same", toString br[2]!), ("z_br_lat_msb", toString br[3]!), ("z_br_lon_msb", toString br[4]!),
                ("z_br_same_msb", toString br[5]!)]
  if !pts.all (fun p => decide (CoordI32 p)) then
    return { model := mlines, verdict := .skip "a coordinate is not an i32", stats := stats }
  if let some w := crashed c then
    return { model := mlines, verdict := .fail s!"zorder_cmp: {w}", stats := stats }
  -- the implementation's matrix
  let rows : Array (Array Char) := (c.impl.toList.filterMap fun l =>
    match words l with
    | ["F", "z", _, r] => some r.toList.toArray
    | _ => none).toArray
  if rows.size != n || rows.any (·.size != n) then
    return { model := mlines, verdict := .fail s!"comparison matrix has the wrong shape ({rows.size} rows for {n} points)", stats := stats }
  let m (i j : Nat) : Char := (rows[i]!)[j]!
  let mut bad : Option String := none
  -- the property: the order laws, checked directly on the reported answers (which strict total order it is,
  -- e.g. whether latitude or longitude is the more significant bit of a pair, is not prescribed; agreement
  -- with the lat-major key of `zorder_key` is reported as the statistic z_key_agree and through the F lines)
  for i in [0:n] do
    if bad.isSome then break
    if m i i != 'E' then bad := some s!"not irreflexive: cmp(a,a) = {m i i} for a = {ptS pts[i]!}"
    if (rows[i]!).any (fun ch => ch != 'L' && ch != 'E' && ch != 'G') then bad := some "answer outside Less/Equal/Greater"
    for j in [0:n] do
      if bad.isSome then break
      if m i j != flipChar (m j i) then
        bad := some s!"not antisymmetric: cmp(a,b) = {m i j} but cmp(b,a) = {m j i} for a = {ptS pts[i]!}, b = {ptS pts[j]!}"
      else if (m i j == 'E') != (pts[i]! == pts[j]!) then
        bad := some s!"not consistent with equality: cmp(a,b) = {m i j} for a = {ptS pts[i]!}, b = {ptS pts[j]!}"
      else if m i j == 'L' then
        for k in [0:n] do
          if m j k == 'L' && m i k != 'L' then
            bad := some s!"not transitive: a < b, b < c but cmp(a,c) = {m i k} for a = {ptS pts[i]!}, b = {ptS pts[j]!}, c = {ptS pts[k]!}"
            break
  let keyAgree := (List.range n).all fun i => (List.range n).all fun j => m i j == ordChar (zcmpSpec pts[i]! pts[j]!)
  let verdict : Verdict := match bad with
    | some w => .fail w
    | none => .ok
  return { model := mlines, verdict := verdict, stats := stats ++ [("z_key_agree", bit keyAgree)] }

/-! ### bounding boxes -/

def boxS (b : BoxCorners) : String := s!"{b.minLat} {b.minLon} {b.maxLat} {b.maxLon} valid={bit (boxIsValid b)}"

def parseBox? (ws : List String) : Option BoxCorners :=
  match ws with
  | a :: b :: c :: d :: _ => do
    let a ← parseInt? a
    let b ← parseInt? b
    let c ← parseInt? c
    let d ← parseInt? d
    pure ⟨a, b, c, d⟩
  | _ => none

/-- spec box of a non-empty list, computed without sentinels -/
def specBox : List Coord → Option BoxCorners
  | [] => none
  | c :: cs => some (cs.foldl (fun b p => ⟨min b.minLat p.lat, min b.minLon p.lon, max b.maxLat p.lat, max b.maxLon p.lon⟩)
      ⟨c.lat, c.lon, c.lat, c.lon⟩)

def handleB (c : Case) : CaseOut := Id.run do
  let pts := coordsOf c "p"
  let ops := c.ops.toList.filter fun l => match words l with
    | t :: _ => t != "p" && t != "B"
    | _ => false
  -- model
  let mut b := boxFromCoordinates pts
  let mut mlines : Array String := #[s!"D box 0 {boxS b}"]
  let mut k := 0
  let mut modelNone := false
  let mut allI32 := pts.all fun p => decide (CoordI32 p)
  let mut nIn := 0
  let mut nOut := 0
  let mut grew := 0
  for l in ops do
    k := k + 1
    match words l with
    | ["q", x, y] =>
      let q : Coord := ⟨parseInt! x, parseInt! y⟩
      allI32 := allI32 && decide (CoordI32 q)
      let r := boxContains b q
      if r then nIn := nIn + 1 else nOut := nOut + 1
      mlines := mlines.push s!"D q {k} {bit r}"
    | ["x", x1, y1, x2, y2] =>
      let p1 : Coord := ⟨parseInt! x1, parseInt! y1⟩
      let p2 : Coord := ⟨parseInt! x2, parseInt! y2⟩
      allI32 := allI32 && decide (CoordI32 p1) && decide (CoordI32 p2)
      let b' := boxExtend b (boxFromCoordinates [p1, p2])
      if b' != b then grew := grew + 1
      b := b'
      mlines := mlines.push s!"D x {k} {boxS b}"
    | ["xi"] =>
      b := boxExtend b boxInvalid
      mlines := mlines.push s!"D x {k} {boxS b}"
    | ["s", x, y] =>
      let p : Coord := ⟨parseInt! x, parseInt! y⟩
      allI32 := allI32 && decide (CoordI32 p)
      b := boxFromCoordinate p
      mlines := mlines.push s!"D x {k} {boxS b}"
    | ["c"] =>
      match boxCenter b with
      | some ctr => mlines := mlines.push s!"F c {k} {ctr.lat} {ctr.lon}"
      | none => modelNone := true
    | _ => pure ()
  let stats := [("nontrivial", bit (decide ((nIn > 0 ∧ nOut > 0) ∨ grew > 0))), ("bbox_cases", "1"), ("bbox_points", toString pts.length),
                ("bbox_contained", toString nIn), ("bbox_not_contained", toString nOut), ("bbox_extends_that_grew", toString grew)]
  if !allI32 then return { model := mlines, verdict := .skip "a coordinate is not an i32", stats := stats }
  if modelNone then return { model := mlines, verdict := .skip "center of an invalid box or with an i32 overflow in max - min", stats := stats }
  if let some w := crashed c then return { model := mlines, verdict := .fail s!"BoundingBox: {w}", stats := stats }
  -- judge: follow the implementation's reported corners, validate every step against the Spec
  let impl := c.impl.toList.map words
  let some first := impl.findSome? (fun ws => match ws with | "D" :: "box" :: "0" :: r => some r | _ => none)
    | return { model := mlines, verdict := .fail "no box observation", stats := stats }
  let some b0 := parseBox? first
    | return { model := mlines, verdict := .fail "unparsable box observation", stats := stats }
  let validOk (ws : List String) (bx : BoxCorners) : Bool :=
    field ws "valid" == some (bit (decide (bx.minLat ≤ bx.maxLat ∧ bx.minLon ≤ bx.maxLon)))
  let mut bad : Option String := none
  if pts.isEmpty then
    if b0 != boxInvalid then bad := some "BoundingBox::invalid() is not (max, max, min, min)"
  else if !isBoxOfB b0 pts then
    bad := some s!"from_coordinates: corners {boxS b0} are not the componentwise minimum/maximum of the {pts.length} coordinates"
  if bad.isNone && !validOk first b0 then bad := some s!"is_valid wrong for {boxS b0}"
  let mut cur := b0
  let mut kk := 0
  for l in ops do
    if bad.isSome then break
    kk := kk + 1
    let obs := impl.findSome? fun ws => match ws with
      | "D" :: _ :: ks :: r => if ks == toString kk then some r else none
      | "F" :: "c" :: ks :: r => if ks == toString kk then some r else none
      | _ => none
    let some r := obs
      | bad := some s!"op {kk} ({l}): no observation"
    match words l with
    | ["q", x, y] =>
      let q : Coord := ⟨parseInt! x, parseInt! y⟩
      let want := decide (Between cur q)
      if r != [bit want] then
        bad := some s!"contains({ptS q}) = {r} for the box {boxS cur}: the point is {if want then "" else "not "}between the corners"
    | ["x", x1, y1, x2, y2] =>
      let p1 : Coord := ⟨parseInt! x1, parseInt! y1⟩
      let p2 : Coord := ⟨parseInt! x2, parseInt! y2⟩
      let other : BoxCorners := ⟨min p1.lat p2.lat, min p1.lon p2.lon, max p1.lat p2.lat, max p1.lon p2.lon⟩
      match parseBox? r with
      | some nb =>
        if nb != joinCorners cur other then
          bad := some s!"extend_with: {boxS cur} extended with {boxS other} gave {boxS nb}, not the smallest box containing both"
        else if !validOk r nb then bad := some s!"is_valid wrong for {boxS nb}"
        cur := nb
      | none => bad := some s!"op {kk}: unparsable box"
    | ["xi"] =>
      match parseBox? r with
      | some nb =>
        if nb != cur then bad := some s!"extend_with(invalid box) changed {boxS cur} to {boxS nb}"
        cur := nb
      | none => bad := some s!"op {kk}: unparsable box"
    | ["s", x, y] =>
      let p : Coord := ⟨parseInt! x, parseInt! y⟩
      match parseBox? r with
      | some nb =>
        if nb != (⟨p.lat, p.lon, p.lat, p.lon⟩ : BoxCorners) then bad := some s!"from_coordinate({ptS p}) gave {boxS nb}"
        cur := nb
      | none => bad := some s!"op {kk}: unparsable box"
    | ["c"] =>
      match r with
      | [a, b'] =>
        let ctr : Coord := ⟨parseInt! a, parseInt! b'⟩
        -- a midpoint up to rounding (either way)
        let okLat := decide (-1 ≤ (cur.maxLat - ctr.lat) - (ctr.lat - cur.minLat) ∧ (cur.maxLat - ctr.lat) - (ctr.lat - cur.minLat) ≤ 1)
        let okLon := decide (-1 ≤ (cur.maxLon - ctr.lon) - (ctr.lon - cur.minLon) ∧ (cur.maxLon - ctr.lon) - (ctr.lon - cur.minLon) ≤ 1)
        if !(okLat && okLon) then bad := some s!"center {ptS ctr} is not the midpoint of {boxS cur}"
      | _ => bad := some s!"op {kk}: unparsable center"
    | _ => pure ()
  let verdict : Verdict := match bad with
    | some w => .fail w
    | none => .ok
  return { model := mlines, verdict := verdict, stats := stats }

/-! ### floats: exact reading of the implementation's bit patterns -/

open Tbx.F64 in
def dyField (ws : List String) (key : String) : Option Dy := (fieldNat ws key).bind decode

def fbits (x : Float) : String := toString x.toBits.toNat
def fOfBits (n : Nat) : Float := Float.ofBits (UInt64.ofNat n)

/-- tolerances documented in /repo (p, q) = p/q -/
def tolAllowedError : Nat × Nat := (1, 10 ^ 13)   -- mercator.rs tests: ALLOWED_ERROR = 0.0000000000001 (lon round trip; lat in +-0.85)
def tolLatRoundTrip : Nat × Nat := (1, 10 ^ 10)   -- mercator.rs tests: test_y_lat_conversion, test_wgs84_roundtrip: 1e-10
def tolApprox : Nat × Nat := (1, 10 ^ 10)         -- mercator.rs tests: test_approximation_accuracy: 1e-10
def tolPixelLon : Nat × Nat := (1, 10 ^ 10)       -- vector_tile.rs tests: test_pixel_to_degree: 1e-10
def tolPixelLat : Nat × Nat := (1, 1)             -- vector_tile.rs tests: test_pixel_to_degree: 1.0
/-- latitude domain of the property: within +-85.05 degrees -/
def latDomain : Nat × Nat := (8505, 100)

/-! ### BoundingBox::min_distance (known finding D7) -/

def handleMD (c : Case) : CaseOut := Id.run do
  let hdr := match c.ops[0]? with
    | some l => words l
    | none => []
  let some bx := parseBox? (hdr.drop 1)
    | return { model := #[], verdict := .skip "unparsable MD header" }
  let qs := coordsOf c "q"
  let b := boxFromCoordinates [⟨bx.minLat, bx.minLon⟩, ⟨bx.maxLat, bx.maxLon⟩]
  let mut mlines : Array String := #[s!"D mdbox {b.minLat} {b.minLon} {b.maxLat} {b.maxLon}"]
  let mut nOut := 0
  let mut nEdge := 0
  let mut k := 0
  for q in qs do
    let inside := boxContains b q
    let cl := clampInto b q
    let corners : List Coord := [⟨b.maxLat, b.maxLon⟩, ⟨b.minLat, b.minLon⟩, ⟨b.maxLat, b.minLon⟩, ⟨b.minLat, b.maxLon⟩]
    if !inside then nOut := nOut + 1
    if !inside && !corners.contains cl then nEdge := nEdge + 1
    let dc := ",".intercalate (corners.map fun p => fbits (FS.distanceTo p q))
    mlines := mlines.push s!"F md {k} inside={bit inside} got={fbits (FS.minDistance b q)} clamp={ptS cl} dclamp={fbits (FS.distanceTo cl q)} dc={dc}"
    k := k + 1
  let stats := [("nontrivial", bit (nOut > 0)), ("md_cases", "1"), ("md_queries", toString qs.length), ("md_outside", toString nOut),
                ("md_beside_an_edge", toString nEdge)]
  if !(decide (ValidCoord ⟨bx.minLat, bx.minLon⟩) && decide (ValidCoord ⟨bx.maxLat, bx.maxLon⟩) && qs.all fun q => decide (ValidCoord q)) then
    return { model := mlines, verdict := .skip "a coordinate lies outside the valid latitude/longitude range", stats := stats }
  if let some w := crashed c then return { model := mlines, verdict := .fail s!"min_distance: {w}", stats := stats }
  -- the box the real code built must be the spec box of the two corners
  match implLine c ["D", "mdbox"] with
  | none => return { model := mlines, verdict := .fail "no mdbox observation", stats := stats }
  | some ws =>
    if parseBox? ws != specBox [⟨bx.minLat, bx.minLon⟩, ⟨bx.maxLat, bx.maxLon⟩] then
      return { model := mlines, verdict := .fail "from_coordinates: wrong corners", stats := stats }
  let sb : BoxCorners := (specBox [⟨bx.minLat, bx.minLon⟩, ⟨bx.maxLat, bx.maxLon⟩]).getD b
  let mut bad : Option String := none
  let mut kk := 0
  for q in qs do
    if bad.isSome then break
    let some ws := implLine c ["F", "md", toString kk]
      | bad := some s!"query {kk}: no observation"
    let inside := decide (Between sb q)
    let cl := clampInto sb q
    let corners : List Coord := [⟨sb.maxLat, sb.maxLon⟩, ⟨sb.minLat, sb.minLon⟩, ⟨sb.maxLat, sb.minLon⟩, ⟨sb.minLat, sb.maxLon⟩]
    let dcs : List (Option F64.Dy) := ((field ws "dc").getD "").splitOn "," |>.map fun s => s.toNat?.bind F64.decode
    match dyField ws "got", dyField ws "dclamp", (field ws "clamp").bind parsePt? with
    | some got, some dclamp, some rcl =>
      if field ws "inside" != some (bit inside) then
        bad := some s!"contains({ptS q}) wrong for the box {sb.minLat} {sb.minLon} {sb.maxLat} {sb.maxLon}"
      else if inside then
        if !F64.isZero got then bad := some s!"min_distance({ptS q}) is not zero although the box contains the coordinate"
      else if rcl != cl then
        bad := some s!"harness clamp {ptS rcl} differs from the Spec's closest point {ptS cl}"
      else if F64.eq got dclamp then pure ()
      else
        -- attribute by mechanism: the minimum over the four corners was reported, and the closest point is not a corner
        let cornerMin : Option F64.Dy := dcs.foldl (fun acc d => match acc, d with
          | some a, some x => some (F64.dmin a x)
          | _, _ => none) (dcs.headD none)
        let isCornerMin := match cornerMin with
          | some m => dcs.length == 4 && F64.eq got m
          | none => false
        let detail := s!"box lat[{sb.minLat},{sb.maxLat}] lon[{sb.minLon},{sb.maxLon}] query {ptS q}: reported bits {(field ws "got").getD "?"}, distance to the closest point {ptS cl} has bits {(field ws "dclamp").getD "?"}"
        if isCornerMin && !corners.contains cl then
          bad := some s!"[D7-bbox-min-distance] min_distance is the minimum over the four corners, not the distance to the closest point of the box: {detail}"
        else
          bad := some s!"min_distance is neither zero-inside nor the distance to the closest point of the box (and not explained by the corner minimum): {detail}"
    | _, _, _ => bad := some s!"query {kk}: unparsable or non-finite observation {ws}"
    kk := kk + 1
  let verdict : Verdict := match bad with
    | some w => .fail w
    | none => .ok
  return { model := mlines, verdict := verdict, stats := stats }

/-! ### Mercator round trips -/

def handleMR (c : Case) : CaseOut := Id.run do
  let ops := (c.ops.toList.map words).filter fun ws => ws.head? != some "MR"
  let mut mlines : Array String := #[]
  let mut k := 0
  for ws in ops do
    match ws with
    | ["lat", bs] =>
      let v := fOfBits (parseNat! bs)
      let y := FS.latToY v
      let approx := FS.latToYApprox v
      mlines := mlines.push s!"F lat {k} y={fbits y} back={fbits (FS.yToLat y)} approx={fbits approx} wlat={fbits (FS.yToLat approx)} wlon={fbits 12.5}"
    | ["lon", bs] =>
      let v := fOfBits (parseNat! bs)
      let x := FS.lonToX v
      mlines := mlines.push s!"F lon {k} x={fbits x} back={fbits (FS.xToLon x)}"
    | _ => pure ()
    k := k + 1
  let stats := [("nontrivial", bit (ops.length > 0)), ("merc_cases", "1"), ("merc_values", toString ops.length)]
  -- domain
  let inDomain := ops.all fun ws => match ws with
    | ["lat", bs] => match bs.toNat?.bind F64.decode with
      | some v => F64.absLe v latDomain.1 latDomain.2
      | none => false
    | ["lon", bs] => match bs.toNat?.bind F64.decode with
      | some v => F64.absLe v 180 1
      | none => false
    | _ => false
  if !inDomain then return { model := mlines, verdict := .skip "latitude beyond +-85.05 degrees, longitude beyond +-180 degrees or not finite", stats := stats }
  if let some w := crashed c then return { model := mlines, verdict := .fail s!"mercator: {w}", stats := stats }
  let mut bad : Option String := none
  let mut kk := 0
  for ws in ops do
    if bad.isSome then break
    match ws with
    | ["lat", bs] =>
      let some o := implLine c ["F", "lat", toString kk]
        | bad := some s!"value {kk}: no observation"
      match bs.toNat?.bind F64.decode, dyField o "y", dyField o "back", dyField o "approx", dyField o "wlat", fieldNat o "wlon" with
      | some v, some y, some back, some approx, some wlat, some wlon =>
        let tol := if F64.absLt v 85 100 then tolAllowedError else tolLatRoundTrip
        if !F64.within back v tol.1 tol.2 then
          bad := some s!"y_to_lat(lat_to_y(lat)) differs from lat by {tol.1}/{tol.2} or more: lat bits {bs}, result bits {(field o "back").getD "?"}"
        else if !F64.within approx y tolApprox.1 tolApprox.2 then
          bad := some s!"lat_to_y_approx differs from lat_to_y by 1e-10 or more at lat bits {bs}"
        else if !F64.within wlat v tolLatRoundTrip.1 tolLatRoundTrip.2 then
          bad := some s!"to_wgs84(from_wgs84(lat)) differs from lat by 1e-10 or more at lat bits {bs}"
        else if wlon != (12.5 : Float).toBits.toNat then
          bad := some s!"to_wgs84(from_wgs84) changed the longitude"
      | _, _, _, _, _, _ => bad := some s!"value {kk}: unparsable or non-finite observation"
    | ["lon", bs] =>
      let some o := implLine c ["F", "lon", toString kk]
        | bad := some s!"value {kk}: no observation"
      match bs.toNat?.bind F64.decode, dyField o "x", dyField o "back" with
      | some v, some _, some back =>
        if !F64.within back v tolAllowedError.1 tolAllowedError.2 then
          bad := some s!"x_to_lon(lon_to_x(lon)) differs from lon by 1e-13 or more: lon bits {bs}, result bits {(field o "back").getD "?"}"
      | _, _, _ => bad := some s!"value {kk}: unparsable or non-finite observation"
    | _ => pure ()
    kk := kk + 1
  let verdict : Verdict := match bad with
    | some w => .fail w
    | none => .ok
  return { model := mlines, verdict := verdict, stats := stats }

/-! ### tiles -/

def handleT (c : Case) : CaseOut := Id.run do
  let ops := (c.ops.toList.map words).filter fun ws => ws.head? == some "t"
  let mut mlines : Array String := #[]
  let mut k := 0
  for ws in ops do
    match ws with
    | ["t", lb, nb, zs] =>
      let lat := fOfBits (parseNat! lb)
      let lon := fOfBits (parseNat! nb)
      let zoom := parseNat! zs
      let (tx, ty) := FS.coordinateToTileNumber lat lon zoom
      let mut line := s!"F tile {k} x={tx} y={ty}"
      if tx < 2 ^ zoom && ty < 2 ^ zoom then
        let (lon1, lat1, lon2, lat2) := FS.getTileBounds zoom tx ty
        let (px, py) := FS.pointToTileCoords lat lon zoom tx ty
        line := line ++ s!" lon1={fbits lon1} lat1={fbits lat1} lon2={fbits lon2} lat2={fbits lat2} tpx={px},{py}"
      let plon := FS.degreeToPixelLon lon zoom
      let plat := FS.degreeToPixelLat lat zoom
      let (blon, blat) := FS.pixelToDegree ((1 <<< zoom) * FS.tileSize) plon plat
      line := line ++ s!" plon={fbits plon} plat={fbits plat} blon={fbits blon} blat={fbits blat}"
      mlines := mlines.push line
    | _ => pure ()
    k := k + 1
  -- how many of the implementation's answers contain the coordinate only up to the tolerance (boundary ulps)
  let inexact : Nat := Id.run do
    let mut cnt := 0
    let mut i := 0
    for ws in ops do
      match ws, implLine c ["F", "tile", toString i] with
      | ["t", lb, nb, _], some o =>
        match lb.toNat?.bind F64.decode, nb.toNat?.bind F64.decode, dyField o "lon1", dyField o "lat1", dyField o "lon2", dyField o "lat2" with
        | some lat, some lon, some lon1, some lat1, some lon2, some lat2 =>
          let latLo := F64.dmin lat1 lat2
          let latHi := if F64.le lat1 lat2 then lat2 else lat1
          if !(F64.le lon1 lon && F64.le lon lon2 && F64.le latLo lat && F64.le lat latHi) then cnt := cnt + 1
        | _, _, _, _, _, _ => pure ()
      | _, _ => pure ()
      i := i + 1
    return cnt
  let stats := [("nontrivial", bit (ops.length > 0)), ("tile_cases", "1"), ("tile_values", toString ops.length),
                ("tile_inexact_containment", toString inexact)]
  let inDomain := ops.all fun ws => match ws with
    | ["t", lb, nb, zs] =>
      match lb.toNat?.bind F64.decode, nb.toNat?.bind F64.decode, zs.toNat? with
      | some lat, some lon, some z =>
        F64.absLe lat latDomain.1 latDomain.2 && F64.le (F64.ofInt (-180)) lon && F64.lt lon (F64.ofInt 180) && decide (z ≤ 20)
      | _, _, _ => false
    | _ => false
  if !inDomain then return { model := mlines, verdict := .skip "latitude beyond +-85.05, longitude outside [-180,180), zoom above 20 or not finite", stats := stats }
  if let some w := crashed c then return { model := mlines, verdict := .fail s!"vector_tile: {w}", stats := stats }
  let mut bad : Option String := none
  let mut kk := 0
  for ws in ops do
    if bad.isSome then break
    match ws with
    | ["t", lb, nb, zs] =>
      let zoom := parseNat! zs
      let some o := implLine c ["F", "tile", toString kk]
        | bad := some s!"value {kk}: no observation"
      let at_ := s!"lat bits {lb} lon bits {nb} zoom {zoom}"
      match lb.toNat?.bind F64.decode, nb.toNat?.bind F64.decode, fieldNat o "x", fieldNat o "y" with
      | some lat, some lon, some tx, some ty =>
        if !(tx < 2 ^ zoom && ty < 2 ^ zoom) then
          bad := some s!"tile number ({tx},{ty}) outside 0..2^zoom-1 at {at_}"
        else
          match dyField o "lon1", dyField o "lat1", dyField o "lon2", dyField o "lat2",
                dyField o "plon", dyField o "plat", dyField o "blon", dyField o "blat" with
          | some lon1, some lat1, some lon2, some lat2, some plon, some plat, some blon, some blat =>
            let shift := F64.ofInt (Int.ofNat (2 ^ zoom * 4096))
            let latLo := F64.dmin lat1 lat2
            let latHi := if F64.le lat1 lat2 then lat2 else lat1
            -- containment up to the module's documented IEEE-754 error (ALLOWED_ERROR); exact containment can
            -- fail by one ulp for a coordinate next to a tile boundary (counted in `tile_inexact_containment`)
            let leTol (a b : F64.Dy) : Bool := F64.le a b || F64.within a b tolAllowedError.1 tolAllowedError.2
            if !(leTol lon1 lon && leTol lon lon2) then
              bad := some s!"the coordinate's longitude is outside the bounds of its tile ({tx},{ty}) by 1e-13 degrees or more at {at_}"
            else if !(leTol latLo lat && leTol lat latHi) then
              bad := some s!"the coordinate's latitude is outside the bounds of its tile ({tx},{ty}) by 1e-13 degrees or more at {at_}"
            else if !(F64.le (F64.ofInt 0) plon && F64.le plon shift && F64.le (F64.ofInt 0) plat && F64.le plat shift) then
              bad := some s!"pixel coordinate outside 0..2^zoom*TILE_SIZE at {at_}"
            else if !F64.within blon lon tolPixelLon.1 tolPixelLon.2 then
              bad := some s!"pixel_to_degree(degree_to_pixel_lon) differs from the longitude by 1e-10 or more at {at_}"
            else if !F64.within blat lat tolPixelLat.1 tolPixelLat.2 then
              bad := some s!"pixel_to_degree(degree_to_pixel_lat) differs from the latitude by 1.0 or more at {at_}"
            else
              match ((field o "tpx").getD "").splitOn "," |>.map String.toNat? with
              | [some a, some b] => if !(a < 4096 && b < 4096) then bad := some s!"tile-local pixel ({a},{b}) outside 0..4095 at {at_}"
              | _ => bad := some s!"value {kk}: no tile-local pixel"
          | _, _, _, _, _, _, _, _ => bad := some s!"value {kk}: unparsable or non-finite observation at {at_}"
      | _, _, _, _ => bad := some s!"value {kk}: unparsable observation"
    | _ => pure ()
    kk := kk + 1
  let verdict : Verdict := match bad with
    | some w => .fail w
    | none => .ok
  return { model := mlines, verdict := verdict, stats := stats }

/-! ### scaffold -/

def handleSC (c : Case) : CaseOut := Id.run do
  let ns : List SNode := c.ops.toList.filterMap fun l => match words l with
    | ["n", a, b, p] => some ⟨⟨parseInt! a, parseInt! b⟩, parseNat! p⟩
    | _ => none
  let ids := cellIds ns
  let mut mlines : Array String := #[withBody "D scids" (" ".intercalate (ids.map toString))]
  let mut big := 0
  for f in scaffoldFeatures ns do
    let cell := cellOf ns f.id
    if cell.length > 3 then big := big + 1
    mlines := mlines.push (withBody s!"F scring {f.id} wellformed=1" (ptsS f.ring))
    mlines := mlines.push (withBody s!"D schull {f.id}" (ptsS (canonHull cell.length f.ring.dropLast)))
    mlines := mlines.push s!"F scbox {f.id} {f.box.minLat} {f.box.minLon} {f.box.maxLat} {f.box.maxLon}"
  let stats := [("nontrivial", bit (decide (ids.length ≥ 2 ∧ big ≥ 1))), ("scaffold_cases", "1"), ("scaffold_nodes", toString ns.length),
                ("scaffold_cells", toString ids.length), ("scaffold_cells_over_3", toString big)]
  if c.impl.any (· == "D NOBIN") then return { model := mlines, verdict := .skip "scaffold binary not available (TBX_REPO_BIN_DIR)", stats := stats }
  if !(ns.all fun n => decide (ValidCoord n.p)) then return { model := mlines, verdict := .skip "a coordinate lies outside the valid range", stats := stats }
  if ns.isEmpty then return { model := mlines, verdict := .skip "no nodes", stats := stats }
  if let some w := crashed c then return { model := mlines, verdict := .fail s!"scaffold harness: {w}", stats := stats }
  if let some l := c.impl.toList.find? (fun l => l.startsWith "D scaffold-") then
    return { model := mlines, verdict := .fail s!"scaffold did not produce a GeoJSON file: {l}", stats := stats }
  let some idws := implLine c ["D", "scids"]
    | return { model := mlines, verdict := .fail "no scids observation", stats := stats }
  if idws != ids.map toString then
    return { model := mlines, verdict := .fail s!"features {idws} instead of exactly one per distinct cell id {ids}", stats := stats }
  let mut bad : Option String := none
  for id in ids do
    if bad.isSome then break
    let cell := cellOf ns id
    let some ws := implLine c ["F", "scring", toString id]
      | bad := some s!"cell {id}: no polygon"
    match ws with
    | wf :: rest =>
      match parsePts? rest with
      | some ring =>
        if wf != "wellformed=1" then bad := some s!"cell {id}: the feature is not a single-ring Polygon of [lon, lat] pairs"
        else if ring.isEmpty || ring.head? != ring.getLast? then bad := some s!"cell {id}: the ring [{ptsS ring}] is not closed"
        else
          let h := ring.dropLast
          if !hullSpecB cell h then bad := some s!"cell {id} ({cell.length} nodes): {hullWhy cell h}"
      | none => bad := some s!"cell {id}: unparsable ring"
    | [] => bad := some s!"cell {id}: empty observation"
  let verdict : Verdict := match bad with
    | some w => .fail w
    | none => .ok
  return { model := mlines, verdict := verdict, stats := stats }

def handle (c : Case) : CaseOut :=
  match (c.ops[0]?.map words).bind List.head? with
  | some "H" => handleHull c
  | some "Z" => handleZ c
  | some "B" => handleB c
  | some "MD" => handleMD c
  | some "MR" => handleMR c
  | some "T" => handleT c
  | some "SC" => handleSC c
  | _ => { model := #[], verdict := .skip "unknown case header" }

end Tbx.Drv.C19
