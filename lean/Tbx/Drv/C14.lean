import Tbx.Drv.Common
import Tbx.Model.StaticGraph
import Tbx.Model.DynGraph
import Tbx.Spec.Adj
/-
Driver for C14 (static and dynamic graph).

case:  header   static | static sorted | dyn <n> | dyn default
       e s t d                       edges of the constructor's input list, in the given order
       ins s t d | rem s t d | node | setd s t d d2        (static graphs: setd only)
   `rem s t d` / `setd s t d d2` act on the FIRST edge id of edge_range(s) whose (target,data) is
   (t,d): which of several identical entries is irrelevant for the multiset.

obs (k = 0 after construction, k = i+1 after op i):
  D k n=<nodes> m=<edges> deg=<d0,d1,..> adj=<sorted t:d,.. per node, '|' between nodes, '-' empty>
      fe=<rows s=0..n+2, cols t=0..n: 1 found edge in range with target t, 0 none, X wrong answer>
      feu=<same for find_edge_unchecked> [rb=<data read back through the edge id just written>]
  D k invalid              the op names an edge that is not there (out of domain, judge: skip)
  F k sl=<first:count,..>  raw slice positions (free: depend on relocation history / growth factor)
-/
namespace Tbx.Drv.C14
open Tbx Tbx.Drv

inductive Op where
  | ins (s t : Nat) (d : Int) | rem (s t : Nat) (d : Int) | node | setd (s t : Nat) (d d2 : Int)
deriving Repr, Inhabited

inductive Kind where
  | static | staticSorted | dyn (n : Nat) | dynDefault
deriving Repr, Inhabited, BEq

def parseOp (l : String) : Option Op :=
  match words l with
  | ["ins", a, b, c] => some (.ins (parseNat! a) (parseNat! b) (parseInt! c))
  | ["rem", a, b, c] => some (.rem (parseNat! a) (parseNat! b) (parseInt! c))
  | ["node"] => some .node
  | ["setd", a, b, c, d] => some (.setd (parseNat! a) (parseNat! b) (parseInt! c) (parseInt! d))
  | _ => none

def joinWith (sep : String) (xs : List String) : String := sep.intercalate xs

def renderAdj (l : List (Nat × Int)) : String :=
  if l.isEmpty then "-" else joinWith "," ((Adj.canon l).map fun p => s!"{p.1}:{p.2}")

/-- the determined observation line, rendered from observer functions -/
def renderD (k n m : Nat) (deg : Nat → Nat) (adj : Nat → List (Nat × Int))
    (fe feu : Nat → Nat → Char) (rb : Option Int) : String :=
  let vs := List.range n
  let rows := List.range (n + 3)
  let cols := List.range (n + 1)
  let mat (f : Nat → Nat → Char) := joinWith "|" (rows.map fun s => String.ofList (cols.map fun t => f s t))
  s!"D {k} n={n} m={m} deg={joinWith "," (vs.map fun v => toString (deg v))} " ++
  s!"adj={joinWith "|" (vs.map fun v => renderAdj (adj v))} fe={mat fe} feu={mat feu}" ++
  (match rb with | some x => s!" rb={x}" | none => "")

def renderF (k : Nat) (sl : List (Nat × Nat)) : String :=
  s!"F {k} sl={joinWith "," (sl.map fun p => s!"{p.1}:{p.2}")}"

/-- value of `key=` in a rendered observation line -/
def field (line key : String) : Option String :=
  (words line).findSome? fun w => if w.startsWith (key ++ "=") then some (w.drop (key.length + 1)).toString else none

/-! model side -/

def sgFe (g : SG.Graph) (s t : Nat) : Char :=
  match SG.findEdge g s t with
  | none => '0'
  | some e => if SG.beginEdges g s ≤ e ∧ e < SG.endEdges g s ∧ SG.target g e = t then '1' else 'X'

def sgFeu (g : SG.Graph) (s t : Nat) : Char :=
  let e := SG.findEdgeUnchecked g s t
  if e = SG.maxId then '0'
  else if SG.beginEdges g s ≤ e ∧ e < SG.endEdges g s ∧ SG.target g e = t then '1' else 'X'

def sgD (k : Nat) (g : SG.Graph) (rb : Option Int) : String :=
  renderD k (SG.numberOfNodes g) (SG.numberOfEdges g) (SG.outDegree g) (SG.adjList g) (sgFe g) (sgFeu g) rb

def sgF (k : Nat) (g : SG.Graph) : String :=
  renderF k ((List.range (SG.numberOfNodes g)).map fun v => (SG.beginEdges g v, SG.outDegree g v))

def dgFe (g : DG.Graph) (s t : Nat) : Char :=
  match DG.findEdge g s t with
  | none => 'P'
  | some none => '0'
  | some (some e) => if DG.beginEdges g s ≤ e ∧ e < DG.endEdges g s ∧ DG.target g e = t then '1' else 'X'

def dgFeu (g : DG.Graph) (s t : Nat) : Char :=
  match DG.findEdgeUnchecked g s t with
  | none => 'P'
  | some e =>
    if e = SG.maxId then '0'
    else if DG.beginEdges g s ≤ e ∧ e < DG.endEdges g s ∧ DG.target g e = t then '1' else 'X'

def dgD (k : Nat) (g : DG.Graph) (rb : Option Int) : String :=
  renderD k (DG.numberOfNodes g) (DG.numberOfEdges g) (DG.outDegree g) (DG.adjList g) (dgFe g) (dgFeu g) rb

def dgF (k : Nat) (g : DG.Graph) : String :=
  renderF k ((List.range (DG.numberOfNodes g)).map fun v => (DG.beginEdges g v, DG.outDegree g v))

/-- first edge id in `range` whose (target,data) is (t,d) -/
def pickEdge (range : List Nat) (tgt : Nat → Nat) (dat : Nat → Int) (t : Nat) (d : Int) : Option Nat :=
  range.find? fun e => tgt e == t && dat e == d

/-! spec side -/

def specD (k : Nat) (σ : Adj.S) (rb : Option Int) : String :=
  let fe (s t : Nat) : Char := if Adj.hasEdgeB σ s t then '1' else '0'
  renderD k (Adj.numNodes σ) (Adj.numEdges σ) (Adj.degree σ) (Adj.adjOf σ.es) fe fe rb

def parseSlices (s : String) : Option (List (Nat × Nat)) :=
  if s.isEmpty then some []
  else (s.splitOn ",").mapM fun p =>
    match p.splitOn ":" with
    | [a, b] => match a.toNat?, b.toNat? with
      | some x, some y => some (x, y)
      | _, _ => none
    | _ => none

/-- the raw slices reported by the implementation are consistent with the determined part:
    counts are the degrees and slices of nodes with count > 0 are pairwise disjoint -/
def slicesOk (σ : Adj.S) (sl : List (Nat × Nat)) : Bool :=
  sl.length == σ.n &&
  (List.range sl.length).all (fun v => (sl.getD v (0, 0)).2 == Adj.degree σ v) &&
  (List.range sl.length).all fun u => (List.range sl.length).all fun v =>
    let a := sl.getD u (0, 0)
    let b := sl.getD v (0, 0)
    u == v || a.2 == 0 || b.2 == 0 || a.1 + a.2 ≤ b.1 || b.1 + b.2 ≤ a.1

structure Stats where
  ins : Nat := 0
  rem : Nat := 0
  node : Nat := 0
  setd : Nat := 0
  right : Nat := 0
  left : Nat := 0
  reloc : Nat := 0
  relocmv : Nat := 0    -- relocations that moved at least one edge
  fmis : Nat := 0       -- relocations where the integer growth expression differs from the f64 one
  reuse : Nat := 0      -- inserts that wrote into a slot vacated earlier by a removal or a relocation
  created : Nat := 0    -- nodes created implicitly by insert_edge
  zshare : Nat := 0     -- inserts into a zero-degree node sharing its offset with another node
  maxN : Nat := 0
  maxM : Nat := 0

def bit (b : Bool) : String := if b then "1" else "0"

def isSorted (es : List SG.InEdge) : Bool :=
  match es with
  | [] => true
  | [_] => true
  | a :: b :: r => decide (a.src ≤ b.src) && isSorted (b :: r)

def toSpecEdges (es : List SG.InEdge) : List Adj.Edge := es.map fun e => ⟨e.src, e.tgt, e.data⟩

def idBound : Nat := 1000000

def handle (c : Case) : CaseOut := Id.run do
  let mut kind : Option Kind := none
  let mut es : Array SG.InEdge := #[]
  let mut ops : Array Op := #[]
  for l in c.ops do
    match words l with
    | ["static"] => kind := some .static
    | ["static", "sorted"] => kind := some .staticSorted
    | ["dyn", "default"] => kind := some .dynDefault
    | ["dyn", n] => kind := some (.dyn (parseNat! n))
    | ["e", a, b, d] => es := es.push ⟨parseNat! a, parseNat! b, parseInt! d⟩
    | _ => match parseOp l with
      | some o => ops := ops.push o
      | none => return { model := #[], verdict := .skip s!"unparsable op '{l}'" }
  let some kd := kind | return { model := #[], verdict := .skip "no header line" }
  let inp := es.toList
  let isStatic := kd == .static || kd == .staticSorted
  let mut out : Array String := #[]
  let mut stt : Stats := {}
  let mut modelStuck := false
  -- ------------------------------------------------------------------ model run
  if isStatic then
    let mut g := if kd == .static then SG.new inp else SG.newFromSortedList inp
    out := out.push (sgD 0 g none)
    out := out.push (sgF 0 g)
    let mut k := 1
    for o in ops do
      match o with
      | .setd s t d d2 =>
        match pickEdge (SG.edgeRange g s) (SG.target g) (SG.data g) t d with
        | some e =>
          g := SG.setData g e d2
          stt := { stt with setd := stt.setd + 1 }
          out := out.push (sgD k g (some (SG.data g e)))
          out := out.push (sgF k g)
        | none => out := out.push s!"D {k} invalid"; break
      | _ => out := out.push s!"D {k} invalid"; break
      k := k + 1
    stt := { stt with maxN := SG.numberOfNodes g, maxM := SG.numberOfEdges g }
  else
    let mut g := match kd with
      | .dyn n => DG.new n inp
      | _ => DG.dflt
    let mut vac : List Nat := []
    out := out.push (dgD 0 g none)
    out := out.push (dgF 0 g)
    stt := { stt with maxN := g.numNodes, maxM := g.numEdges }
    let mut k := 1
    for o in ops do
      let mut rb : Option Int := none
      let mut stop := false
      match o with
      | .ins s t d =>
        let n0 := g.numNodes
        -- statistics: the branch is determined by the state after the node-creation loops
        let gpre := (DG.ensureNode (s + 1 - g.numNodes) g s).bind fun g1 => DG.ensureNode (t + 1 - g1.numNodes) g1 t
        match DG.insertEdge g s t d with
        | some g' =>
          match gpre with
          | some gp =>
            let b := DG.placeBranch gp s
            let zs := (gt gp.nodes s).count == 0 &&
              (List.range gp.numNodes).any fun v => v != s && (gt gp.nodes v).first == (gt gp.nodes s).first
            stt := { stt with right := stt.right + (if b == 0 then 1 else 0), left := stt.left + (if b == 1 then 1 else 0),
                              reloc := stt.reloc + (if b == 2 then 1 else 0),
                              relocmv := stt.relocmv + (if b == 2 && (gt gp.nodes s).count > 0 then 1 else 0),
                              fmis := stt.fmis + (if b == 2 && DG.growLen (gt gp.nodes s).count != DG.growLenFloat (gt gp.nodes s).count then 1 else 0),
                              zshare := stt.zshare + (if zs then 1 else 0) }
            if b == 2 then
              vac := vac ++ List.range' (gt gp.nodes s).first (gt gp.nodes s).count
          | none => pure ()
          let filled := vac.filter fun e => !(DG.isSpare g'.edges e)
          stt := { stt with ins := stt.ins + 1, created := stt.created + (g'.numNodes - n0),
                            reuse := stt.reuse + (if filled.isEmpty then 0 else 1) }
          vac := vac.filter fun e => DG.isSpare g'.edges e
          g := g'
        | none => modelStuck := true; stop := true
      | .rem s t d =>
        match pickEdge (DG.edgeRange g s) (DG.target g) (DG.data g) t d with
        | some e =>
          match DG.removeEdge g s e with
          | some g' =>
            vac := ((gt g'.nodes s).first + (gt g'.nodes s).count) :: vac
            g := g'
            stt := { stt with rem := stt.rem + 1 }
          | none => modelStuck := true; stop := true
        | none => out := out.push s!"D {k} invalid"; break
      | .node =>
        match DG.insertNode g with
        | some g' => g := g'; stt := { stt with node := stt.node + 1 }
        | none => modelStuck := true; stop := true
      | .setd s t d d2 =>
        match pickEdge (DG.edgeRange g s) (DG.target g) (DG.data g) t d with
        | some e =>
          g := DG.setData g e d2
          rb := some (DG.data g e)
          stt := { stt with setd := stt.setd + 1 }
        | none => out := out.push s!"D {k} invalid"; break
      if stop then
        out := out.push "PANIC"
        break
      stt := { stt with maxN := Nat.max stt.maxN g.numNodes, maxM := Nat.max stt.maxM g.numEdges }
      out := out.push (dgD k g rb)
      out := out.push (dgF k g)
      k := k + 1
  -- ------------------------------------------------------------------ judge (Spec on the I lines)
  let implD := c.impl.filter (·.startsWith "D ")
  let implF := c.impl.filter (·.startsWith "F ")
  let specEdges := toSpecEdges inp
  let mut verdict : Verdict := .ok
  -- domain of the constructors
  match kd with
  | .staticSorted => if !isSorted inp then verdict := .skip "new_from_sorted_list on a list that is not sorted by source"
  | .dyn n => if !Adj.idsBelow n specEdges then verdict := .skip "DynamicGraph::new with an id >= node_count"
  | _ => pure ()
  if isStatic && inp.isEmpty then verdict := .skip "static graph of an empty edge list: max id + 1 is unspecified (the code yields one node)"
  if inp.any fun e => e.src ≥ idBound || e.tgt ≥ idBound then verdict := .skip "ids beyond the harness bound"
  let mut σ : Adj.S := match kd with
    | .static | .staticSorted => Adj.ofList specEdges
    | .dyn n => Adj.init n specEdges
    | .dynDefault => Adj.init 0 []
  if verdict matches .ok then
    -- observation 0
    let dl := implD.getD 0 ""
    let exp := specD 0 σ none
    if dl == "" then
      verdict := .fail s!"construction: implementation produced no observation ({joinWith " | " (c.impl.toList.take 4)})"
    else if dl != exp then
      verdict := .fail s!"construction: observers differ from the edge multiset given: expected [{exp}] got [{dl}]"
    else match (field (implF.getD 0 "") "sl").bind parseSlices with
      | some sl => if !slicesOk σ sl then verdict := .fail s!"construction: raw slices inconsistent with degrees / overlapping [{implF.getD 0 ""}]"
      | none => verdict := .fail "construction: no raw slice line"
  let mut j := 1
  for o in ops do
    if !(verdict matches .ok) then break
    let mut rb : Option Int := none
    -- domain of the op
    match o with
    | .ins s t _ =>
      if isStatic then verdict := .skip s!"op {j}: insert on a static graph"
      else if s ≥ idBound || t ≥ idBound then verdict := .skip s!"op {j}: id beyond the harness bound"
    | .rem s t d =>
      if isStatic then verdict := .skip s!"op {j}: remove on a static graph"
      else if !(σ.es.contains ⟨s, t, d⟩) then verdict := .skip s!"op {j}: remove of an edge that is not present"
    | .node => if isStatic then verdict := .skip s!"op {j}: insert_node on a static graph"
    | .setd s t d _ =>
      if !(σ.es.contains ⟨s, t, d⟩) then verdict := .skip s!"op {j}: data_mut of an edge that is not present"
    if !(verdict matches .ok) then break
    match o with
    | .ins s t d => σ := Adj.insertEdge σ s t d
    | .rem s t d => σ := Adj.removeEdge σ s t d
    | .node => σ := Adj.insertNode σ
    | .setd s t d d2 => σ := Adj.setData σ s t d d2; rb := some d2
    let dl := implD.getD j ""
    let exp := specD j σ rb
    if dl == "" then
      verdict := .fail s!"op {j}: implementation produced no observation ({joinWith " | " (c.impl.toList.drop (c.impl.size - 2))})"
    else if dl != exp then
      verdict := .fail s!"op {j}: observers differ from the net effect of the history: expected [{exp}] got [{dl}]"
    else match (field (implF.getD j "") "sl").bind parseSlices with
      | some sl => if !slicesOk σ sl then verdict := .fail s!"op {j}: raw slices inconsistent with degrees / overlapping [{implF.getD j ""}]"
      | none => verdict := .fail s!"op {j}: no raw slice line"
    j := j + 1
  if modelStuck && (verdict matches .ok) then
    verdict := .fail "model reached a panic branch on an in-domain history (model/spec mismatch)"
  -- ------------------------------------------------------------------ statistics
  let unsorted := !isSorted inp
  let gaps := (List.range σ.n).any fun v => !(inp.any fun e => e.src == v)
  let par := (List.range inp.length).any fun i => (List.range i).any fun j' =>
    (inp.getD i default).src == (inp.getD j' default).src && (inp.getD i default).tgt == (inp.getD j' default).tgt
  let nontrivial := if isStatic then (unsorted || gaps || par) && inp.length ≥ 2
                    else stt.relocmv + stt.left + stt.reuse ≥ 1
  return { model := out, verdict := verdict,
           stats := [("nontrivial", bit nontrivial), ("static", bit isStatic), ("ops", toString ops.size),
                     ("init_edges", toString inp.length),
                     ("ins", toString stt.ins), ("rem", toString stt.rem), ("node", toString stt.node),
                     ("setd", toString stt.setd), ("right", toString stt.right), ("left", toString stt.left),
                     ("reloc", toString stt.reloc), ("relocmv", toString stt.relocmv), ("fmis", toString stt.fmis),
                     ("reuse", toString stt.reuse), ("created", toString stt.created),
                     ("zshare", toString stt.zshare), ("unsorted", bit (isStatic && unsorted)),
                     ("gaps", bit (isStatic && gaps)), ("parallel", bit (isStatic && par)),
                     ("maxn", toString stt.maxN), ("maxm", toString stt.maxM)] }

end Tbx.Drv.C14
