import Std.Data.HashMap
import Tbx.Drv.Common
import Tbx.Model.InertialFlow
import Tbx.Spec.Bisection
/-
Driver for C03 (one inertial-flow bisection step).

ops:   P <axis> <b as u64 bits> <bound> <coordinates.len()>      header
       n <id> <lat> <lon>                                        node_id_list, in list order
       e <u> <v>                                                 input edges, in order
obs:   D k <size_of_contraction>
       X res ok|err   X flow f   X left <sorted ids>   X right <sorted ids>   X balance <f64 bits>
       X bound_after v             X = D when the projection keys are pairwise distinct, F when keys tie
       F leftseq … / F rightseq …  ids in the order returned (sorted-by-key order)

Judge (on the I lines only, independent of the Dinic model and of the renumbering-table model):
  * k = max(1, trunc(fl(n·b))) recomputed in exact integer arithmetic (`Bisection.sizeOfContraction`);
  * distinct keys: `Bisection.structOK` (disjoint, cover, ends, flow = #edges left→right) and the
    min-cut certificate `Bisection.cutCertFast` on the contracted cell graph with a maximum flow computed
    here by the EdmondsKarp model and a reachability tree computed here (both only *checked*);
    `res err` is accepted iff the certified maximum flow exceeds the bound; bound_after = min(bound, flow);
    balance bits = correctly rounded min(|L|,|R|)/(|L|+|R|) (`Bisection.balanceBits`);
  * tied keys: the structural clauses for SOME admissible order (disjoint, subset of the cell, touched ⊆
    left ∪ right, ids strictly before/after the k-th key on their side, enough ids of the boundary key
    on each side), flow = #edges left→right, balance, bound_after.
-/
namespace Tbx.Drv.C03
open Tbx Tbx.Drv Tbx.InertialFlow

structure Inp where
  axis    : Nat
  bBits   : Nat
  bound   : Int
  ncoords : Nat
  nodes   : List (Nat × Int × Int)
  edges   : List (Nat × Nat)
deriving Inhabited

def parseInp (ops : Array String) : Option Inp := Id.run do
  let mut hdr : Option (Nat × Nat × Int × Nat) := none
  let mut nodes : Array (Nat × Int × Int) := #[]
  let mut edges : Array (Nat × Nat) := #[]
  for l in ops do
    match words l with
    | ["P", a, b, c, d] =>
      match a.toNat?, b.toNat?, parseInt? c, d.toNat? with
      | some a, some b, some c, some d => hdr := some (a, b, c, d)
      | _, _, _, _ => return none
    | ["n", i, la, lo] =>
      match i.toNat?, parseInt? la, parseInt? lo with
      | some i, some la, some lo => nodes := nodes.push (i, la, lo)
      | _, _, _ => return none
    | ["e", u, v] =>
      match u.toNat?, v.toNat? with
      | some u, some v => edges := edges.push (u, v)
      | _, _ => return none
    | _ => return none
  match hdr with
  | some (a, b, c, d) =>
    return some { axis := a, bBits := b, bound := c, ncoords := d, nodes := nodes.toList, edges := edges.toList }
  | none => return none

def natsS (xs : List Nat) : String := " ".intercalate (xs.map toString)

def sortNat (xs : List Nat) : List Nat := (xs.toArray.qsort (· < ·)).toList

/-- value of the observation line `<cls> <name> …` (the rest of the line) -/
def obs? (lines : Array String) (name : String) : Option (String × List String) :=
  lines.findSome? fun l =>
    match words l with
    | cls :: nm :: rest => if nm == name && (cls == "D" || cls == "F") then some (cls, rest) else none
    | _ => none

def hasPanic (lines : Array String) : Bool := lines.any fun l => l == "PANIC" || l == "ABORT" || l == "HANG"

/-- the judge's own spec-level key (the four ROTATED_COMPARATORS) -/
def specKey (axis : Nat) (lat lon : Int) : Int :=
  match axis with
  | 0 => lat
  | 1 => lon
  | 2 => lon + lat
  | _ => -lon + lat

/-- reachability from node 0 through positive residual entries: (seen, tree in discovery order) -/
def bfsTree (n : Nat) (res : Array FlowSpec.E) : Array Bool × List (Nat × Nat) := Id.run do
  let mut seen := (Array.replicate n false).setIfInBounds 0 true
  let mut tree : Array (Nat × Nat) := #[]
  for _ in [0:n] do
    let mut changed := false
    for e in res do
      if e.2.2 > 0 && seen.getD e.1 false && !(seen.getD e.2.1 true) then
        seen := seen.setIfInBounds e.2.1 true
        tree := tree.push (e.1, e.2.1)
        changed := true
    if !changed then break
  return (seen, tree.toList)

def toEdges (es : List FlowSpec.E) : List Flow.Edge := es.map fun (u, v, c) => { src := u, tgt := v, cap := c }

/-- a maximum flow of the contracted graph by the EdmondsKarp model: (value, residual triples) -/
def judgeMaxFlow (ces : List FlowSpec.E) : Option (Int × List FlowSpec.E) :=
  match (Flow.Solver.fromEdgeList (toEdges ces) 0 1).runEK (ces.length + 2) with
  | none => none
  | some sv => some (sv.maxFlow, sv.g.triples)

/-- node id -> coordinates as a function (driver glue: a hash map instead of a list scan, the first binding of an id wins as with `List.find?`) -/
def coordMap (nodes : List (Nat × Int × Int)) : Std.HashMap Nat (Int × Int) :=
  nodes.foldl (fun m (i, la, lo) => if m.contains i then m else m.insert i (la, lo)) {}

def coordOfMap (m : Std.HashMap Nat (Int × Int)) (i : Nat) : Coord :=
  match m[i]? with
  | some (la, lo) => { lat := la, lon := lo }
  | none => { lat := 0, lon := 0 }

def keyOfMap (m : Std.HashMap Nat (Int × Int)) (axis : Nat) (i : Nat) : Int :=
  match m[i]? with
  | some (la, lo) => specKey axis la lo
  | none => 0

def ltB (a b : Int) : Bool := decide (a < b)

/-- tied keys: the structural clauses for SOME admissible order; `none` = all hold -/
def tiedWhy (edges : List (Nat × Nat)) (ids : List Nat) (keyOf : Nat → Int) (kLo kHi : Int) (k : Nat)
    (flow : Int) (left right : List Nat) : Option String :=
  let tch := fun (x : Nat) => Bisection.touched edges x
  if left.any (fun x => right.contains x) then some "left and right are not disjoint"
  else if !(left ++ right).all (fun x => ids.contains x) then some "left/right contain an id that is not a cell node"
  else if !ids.all (fun x => !tch x || left.contains x || right.contains x) then
    some "an edge-touched cell node is in neither set"
  else if !(left ++ right).all (fun x => tch x || !ltB kLo (keyOf x) || !ltB (keyOf x) kHi) then
    some "left/right contain a node that is neither touched nor can have been contracted"
  else if !ids.all (fun x => !ltB (keyOf x) kLo || left.contains x) then
    some "a node strictly before the k-th key is not on the left"
  else if !ids.all (fun x => !ltB kHi (keyOf x) || right.contains x) then
    some "a node strictly after the k-th last key is not on the right"
  else if (left.filter fun x => !ltB kLo (keyOf x)).length < k then
    some "fewer than k nodes of the first keys are on the left"
  else if (right.filter fun x => !ltB (keyOf x) kHi).length < k then
    some "fewer than k nodes of the last keys are on the right"
  else if flow != (Bisection.crossLR edges left right : Int) then
    some s!"reported flow {flow} but {Bisection.crossLR edges left right} edges lead from left to right"
  else none

def bit (b : Bool) : String := if b then "1" else "0"

/-- does some (source, target) pair occur at least twice in the renumbered loop-free edge list? -/
def hasMerged (es : List Flow.Edge) : Bool :=
  let keys := (es.map fun e => (e.src, e.tgt)).toArray.qsort (fun a b => a.1 < b.1 || (a.1 == b.1 && a.2 < b.2))
  (List.range (keys.size - 1)).any fun i => keys[i]! == keys[i+1]!

def handle (c : Case) : CaseOut := Id.run do
  let some inp := parseInp c.ops
    | return { model := #[], verdict := .skip "unparsable case" }
  let ids := inp.nodes.map (·.1)
  let n := ids.length
  -- the domain of the property's quantifier and of sub_step's preconditions
  if inp.axis ≥ 4 then return { model := #[], verdict := .skip "axis out of range" }
  if n < 2 then return { model := #[], verdict := .skip "cell with fewer than 2 nodes" }
  if !decide (ids.Nodup) then return { model := #[], verdict := .skip "duplicate ids in the node list" }
  if inp.ncoords ≤ 2 then return { model := #[], verdict := .skip "coordinates.len() <= 2 (debug_assert)" }
  if inp.ncoords < n then return { model := #[], verdict := .skip "more cell nodes than coordinates" }
  if ids.any (· ≥ inp.ncoords) then return { model := #[], verdict := .skip "cell id without coordinate" }
  if inp.edges.any (fun e => e.1 ≥ inp.ncoords || e.2 ≥ inp.ncoords) then
    return { model := #[], verdict := .skip "edge end point outside the coordinate universe" }
  if inp.edges.any (fun e => !ids.contains e.1) then
    return { model := #[], verdict := .skip "edge whose source is not in the cell" }
  let bF := Float.ofBits inp.bBits.toUInt64
  if !(bF > 0.0 && bF < 0.5) then return { model := #[], verdict := .skip "balance factor not in (0, 0.5)" }
  if inp.bound < 0 then return { model := #[], verdict := .skip "negative upper bound" }
  if inp.nodes.any (fun (_, la, lo) => la.natAbs ≥ 2 ^ 29 || lo.natAbs ≥ 2 ^ 29) then
    return { model := #[], verdict := .skip "coordinates whose key could overflow i32" }
  let cmap := coordMap inp.nodes
  let coordOf : Nat → Coord := coordOfMap cmap
  let keyOf : Nat → Int := keyOfMap cmap inp.axis
  let keysSorted := (ids.map keyOf).toArray.qsort (· < ·)
  let distinct := (List.range (keysSorted.size - 1)).all fun i => keysSorted[i]! != keysSorted[i+1]!
  let tag := if distinct then "D" else "F"
  -- ---------------------------------------------------------------- model
  let kModel := max 1 (Float.ofNat n * bF).toUSize.toNat
  let sorted := sortIds ids coordOf inp.axis
  let (mo, mBound) := subStepSortedB inp.edges sorted kModel inp.bound
  let mut model : Array String := #[s!"D k {kModel}"]
  match mo with
  | .panic => model := model.push "PANIC"
  | .aborted => model := (model.push s!"{tag} res err").push s!"{tag} bound_after {mBound}"
  | .ok r =>
    let bal := (Float.ofNat (balanceNum r) / Float.ofNat (balanceDen r)).toBits.toNat
    model := model ++ #[s!"{tag} res ok", s!"{tag} flow {r.flow}", s!"{tag} left {natsS (sortNat r.left)}",
      s!"{tag} right {natsS (sortNat r.right)}", s!"{tag} balance {bal}",
      s!"F leftseq {natsS r.left}", s!"F rightseq {natsS r.right}", s!"{tag} bound_after {mBound}"]
  -- ---------------------------------------------------------------- judge
  let kSpec := Bisection.sizeOfContraction n inp.bBits
  -- the judge sorts by its own key with a library sort; only used when keys are distinct
  let jsorted := ((ids.toArray.qsort fun a b => decide (keyOf a < keyOf b))).toList
  let S := Bisection.firstK jsorted kSpec
  let T := Bisection.lastK jsorted kSpec
  let ces := Bisection.contract S T inp.edges
  let selfLoop := inp.edges.any fun e => e.1 == e.2
  let mut verdict : Verdict := .ok
  let mut jflow : Int := -1
  let implK := (obs? c.impl "k").bind fun (_, r) => r.head?.bind (·.toNat?)
  if implK != some kSpec then
    verdict := .fail s!"size_of_contraction: code computed {implK}, max(1, trunc(fl(n*b))) = {kSpec}"
  else if kModel != kSpec then
    verdict := .fail s!"model: Lean Float gives k = {kModel}, exact arithmetic gives {kSpec} (driver bug)"
  else if 2 * kSpec > n then
    verdict := .fail s!"k = {kSpec} but n = {n}: the contracted ends overlap"
  else if hasPanic c.impl then
    if ces.isEmpty then
      verdict := .fail "sub_step panicked on a cell whose contracted graph has no edge left after self-loop removal (defect D22, fixed in /repo, is back); the property demands flow 0, left = first k, right = last k"
    else if selfLoop then
      verdict := .fail "sub_step panicked on a cell with an input self-loop (defect D22, fixed in /repo, is back: the looped node's solver id lies outside the flow graph)"
    else verdict := .fail "sub_step panicked on an in-domain cell"
  else
    let resS := (obs? c.impl "res").bind fun (_, r) => r.head?
    let implBoundAfter := (obs? c.impl "bound_after").bind fun (_, r) => r.head?.bind parseInt?
    match resS with
    | none => verdict := .fail s!"no result observation ({" | ".intercalate c.impl.toList})"
    | some "err" =>
      if !distinct then
        -- tied keys: an abort is plausible iff the bound is small; only check that the bound is untouched
        if implBoundAfter != some inp.bound then verdict := .fail "Err but the shared bound was modified"
      else
        match (if ces.isEmpty then some ((0 : Int), []) else judgeMaxFlow ces) with
        | none => verdict := .fail "judge: EdmondsKarp model out of fuel"
        | some (mf, res) =>
          jflow := mf
          let nn := FlowSpec.nNodes ces
          let (seen, tree) := bfsTree nn res.toArray
          if !ces.isEmpty && !Bisection.cutCertFast ces 0 1 res mf (fun v => seen.getD v false) tree then
            verdict := .fail ("judge: own max flow not certified: " ++
              Bisection.cutCertWhy ces 0 1 res mf (fun v => seen.getD v false) tree)
          else if mf ≤ inp.bound then
            verdict := .fail s!"sub_step returned Err (aborted) although the minimum cut {mf} does not exceed the bound {inp.bound}"
          else if implBoundAfter != some inp.bound then
            verdict := .fail "Err but the shared bound was modified"
    | some "ok" =>
      let flow? := (obs? c.impl "flow").bind fun (_, r) => r.head?.bind parseInt?
      let left? := (obs? c.impl "left").map fun (_, r) => r.map parseNat!
      let right? := (obs? c.impl "right").map fun (_, r) => r.map parseNat!
      let bal? := (obs? c.impl "balance").bind fun (_, r) => r.head?.bind (·.toNat?)
      match flow?, left?, right?, bal? with
      | some flow, some left, some right, some bal =>
        if bal != Bisection.balanceBits left.length right.length then
          verdict := .fail s!"balance bits {bal} are not the correctly rounded {min left.length right.length}/{left.length + right.length}"
        else if implBoundAfter != some (min inp.bound flow) then
          verdict := .fail s!"bound after the step is {implBoundAfter}, expected min({inp.bound}, {flow})"
        else if flow > inp.bound then
          verdict := .fail s!"Ok with flow {flow} above the bound {inp.bound} (should have been aborted)"
        else if left.isEmpty || right.isEmpty then
          verdict := .fail "an empty side"
        else if distinct then
          -- the certificate: a maximum flow of the contracted graph and a reachability tree, computed here,
          -- only CHECKED by `Bisection.checkerFast` (= `checkerOK`, sound by `Tbx.Props.C03.checker_sound`)
          match (if ces.isEmpty then some ((0 : Int), []) else judgeMaxFlow ces) with
          | none => verdict := .fail "judge: EdmondsKarp model out of fuel"
          | some (mf, res) =>
            jflow := mf
            let (_, tree) := bfsTree (FlowSpec.nNodes ces) res.toArray
            if !Bisection.checkerFast inp.edges jsorted kSpec flow left right res tree then
              -- diagnosis only
              let side := Bisection.sideOf inp.edges jsorted kSpec left
              if !Bisection.preOK inp.edges jsorted kSpec then
                verdict := .fail "judge: domain check failed (driver bug: should have been skipped)"
              else if !Bisection.structOK inp.edges jsorted kSpec flow left right then
                verdict := .fail (Bisection.structWhy inp.edges jsorted kSpec flow left right)
              else if !left.all (fun x => Bisection.rho S T x < FlowSpec.nNodes ces) then
                verdict := .fail "the left set contains a node that is not part of the contracted flow graph (its only edges are self-loops): left is not inclusion-minimal"
              else if ces.isEmpty then
                verdict := .fail s!"contracted graph has no edges: expected flow 0, reported {flow}"
              else
                verdict := .fail (Bisection.cutCertWhy ces 0 1 res flow side tree)
        else
          -- tied keys: structural clauses for some admissible order
          match tiedWhy inp.edges ids keyOf keysSorted[kSpec - 1]! keysSorted[n - kSpec]! kSpec flow left right with
          | some w => verdict := .fail w
          | none => pure ()
      | _, _, _, _ => verdict := .fail s!"incomplete observation ({" | ".intercalate c.impl.toList})"
    | some other => verdict := .fail s!"unknown result '{other}'"
  -- the model must not get stuck on a case the real code handled
  if verdict matches .ok then
    if (mo matches .panic) && !hasPanic c.impl then
      verdict := .fail "model-out-of-fuel (or the model reached a panic branch) on an in-domain input"
  -- ---------------------------------------------------------------- statistics
  let p := prep inp.edges sorted kModel
  let merged := hasMerged p.edges
  let outside := inp.edges.filter fun e => !ids.contains e.2
  let (interior, flowPos, lsz, rsz) :=
    match mo with
    | .ok r =>
      let Sm := sorted.take kModel
      let Tm := sorted.drop (n - kModel)
      ((inp.edges.any fun e => r.left.contains e.1 && r.right.contains e.2 && !Sm.contains e.1 && !Tm.contains e.2),
       decide (r.flow > 0), r.left.length, r.right.length)
    | _ => (false, false, 0, 0)
  let nontrivial := merged && interior && flowPos
  let phases :=
    match Flow.Dinic.fromEdgeList p.edges 0 1 with
    | some d => match runBounded d (phaseFuel p) inp.bound with
      | some (d', _) => d'.bfsCount
      | none => 0
    | none => 0
  return { model := model, verdict := verdict,
           stats := [("nontrivial", bit nontrivial), ("n", toString n), ("m", toString inp.edges.length),
                     ("k", toString kModel), ("axis", toString inp.axis), ("distinct", bit distinct),
                     ("merged", bit merged), ("interiorcut", bit interior), ("flowpos", bit flowPos),
                     ("outside", toString outside.length), ("flowedges", toString p.edges.length),
                     ("solvernodes", toString p.curId),
                     ("mapvariant", bit (inp.ncoords / n > 8)),
                     ("aborted", bit (mo matches .aborted)), ("phases", toString phases),
                     ("left", toString lsz), ("right", toString rsz), ("jflow", toString jflow),
                     ("emptygraph", bit p.edges.isEmpty)] }

end Tbx.Drv.C03
