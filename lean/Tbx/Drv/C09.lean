import Tbx.Drv.C08
/-
Driver for C09 (retrieved Dijkstra paths).  Case format, adjacency, trace and oracle: Tbx/Drv/C08.lean.

obs (k = index of the Q line; all from the case's reused search objects):
  F adj u:v:w …
  D k uni dist=<d> path=<some|none>      result of run(s,t); whether retrieve_node_path(t) returned a path
  D k o2m ok=<0|1> T=<d,…>               success flag, distance(t) for every target
  F k labels <distance(v) for v < n>     (o2m only)
  F k paths <p_0> … <p_{n-1}>            retrieve_node_path(v) for EVERY node: a>b>c or - for None
The concrete paths are a free choice among equally short ones: validated with `SP.validPathB`
(theorem `SP.validPathB_iff`), compared strictly only for the drift statistic.
-/
namespace Tbx.Drv.C09
open Tbx Tbx.Drv Tbx.Dijkstra Tbx.Drv.C08

def renderPath (p : Option (Array Int)) : String :=
  match p with
  | none => "-"
  | some a => joinWith ">" (a.toList.map toString)

def parsePath (s : String) : Option (List Nat) :=
  if s == "-" then none else some ((s.splitOn ">").map parseNat!)

structure Out where
  model : Array String := #[]
  modelBad : Option String := none
  tr : Trace := {}
  lowOnPath : Nat := 0       -- queries whose target path runs through a node whose label was lowered
  maxPath : Nat := 0

def pathsLine (k : Nat) (watch : List Nat) (f : Nat → Res (Option (Array Int))) : String × Bool × Bool :=
  let rs := watch.map f
  let strs := rs.map fun r => match r with
    | .ok p => renderPath p
    | .panic => "MODEL-PANIC"
    | .fuel => "MODEL-FUEL"
  (s!"F {k} paths {joinWith " " strs}", rs.any (· matches .fuel), rs.any (· matches .panic))

def runModel (c : GCase) (adj : Adj) : Out := Id.run do
  let n := c.n
  let large := c.sample.isSome
  let watch := c.watch
  let mut o : Out := { model := if large then #[] else #[renderAdj n adj] }
  let (u0, o0, pbad) := preStates c
  let mut uni := u0
  let mut o2m := o0
  if pbad.isSome then o := { o with modelBad := pbad }
  let mut k := 0
  for q in c.queries do
    match q with
    | .uni s t =>
      -- large graphs: no statistics trace, and the query runs on a fresh model object (the reused
      -- one yields the same result and state: theorem Props.C08.reuse_eq_fresh)
      let t1 : Trace := if large then {} else traceRun adj n s (some t) []
      o := { o with tr := o.tr.add t1 }
      match uniRun adj n (if large then Uni.new else uni) s t with
      | .ok (st, d) =>
        uni := st
        let pt := st.retrieveNodePath t
        let ps := match pt with | .ok (some _) => "some" | .ok none => "none" | _ => "MODEL-STUCK"
        o := { o with model := o.model.push s!"D {k} uni dist={d} path={ps}" }
        let (line, f, p) := pathsLine k watch st.retrieveNodePath
        o := { o with model := o.model.push line }
        if f then o := { o with modelBad := some s!"model-out-of-fuel (path retrieval, query {k})" }
        if p then o := { o with modelBad := some s!"model reached a panic branch (path retrieval, query {k})" }
        match pt with
        | .ok (some path) =>
          o := { o with maxPath := Nat.max o.maxPath path.size,
                        lowOnPath := o.lowOnPath + (if path.toList.any (fun x => t1.lowered.contains x.toNat) then 1 else 0) }
        | _ => pure ()
      | .fuel => o := { o with modelBad := some s!"model-out-of-fuel (query {k})", model := o.model.push s!"D {k} MODEL-FUEL" }
      | .panic => o := { o with modelBad := some s!"model reached a panic branch (query {k})", model := o.model.push s!"D {k} MODEL-PANIC" }
    | .o2m s ts =>
      let t1 : Trace := if large then {} else traceRun adj n s none ts
      o := { o with tr := o.tr.add t1 }
      match o2mRun adj n (if large then O2M.new else o2m) s ts with
      | .ok (st, ok) =>
        o2m := st
        o := { o with model := o.model.push s!"D {k} o2m ok={bit ok} T={o2mDistStr st ts}" }
        o := { o with model := o.model.push s!"F {k} labels {joinWith "," (watch.map fun v => toString (st.distance v))}" }
        let (line, f, p) := pathsLine k watch st.retrieveNodePath
        o := { o with model := o.model.push line }
        if f then o := { o with modelBad := some s!"model-out-of-fuel (path retrieval, query {k})" }
        if p then o := { o with modelBad := some s!"model reached a panic branch (path retrieval, query {k})" }
        let hit := ts.any fun t => match st.retrieveNodePath t with
          | .ok (some path) => path.toList.any (fun x => t1.lowered.contains x.toNat)
          | _ => false
        let mp := ts.foldl (fun m t => match st.retrieveNodePath t with | .ok (some path) => Nat.max m path.size | _ => m) 0
        o := { o with lowOnPath := o.lowOnPath + (if hit then 1 else 0), maxPath := Nat.max o.maxPath mp }
      | .fuel => o := { o with modelBad := some s!"model-out-of-fuel (query {k})", model := o.model.push s!"D {k} MODEL-FUEL" }
      | .panic => o := { o with modelBad := some s!"model reached a panic branch (query {k})", model := o.model.push s!"D {k} MODEL-PANIC" }
    k := k + 1
  if !o.tr.good && o.modelBad.isNone then o := { o with modelBad := some "statistics trace stuck" }
  return o

def showPath (p : List Nat) : String := joinWith ">" (p.map toString)

def judge (c : GCase) (impl : Array String) : Verdict := Id.run do
  if c.isCell then return .skip "cell case in a C09 batch"
  match outOfDomain c with
  | some why => return .skip why
  | none => pure ()
  let n := c.n
  let adj := adjFn (adjArrOf n c.edges)
  if impl.contains "PANIC" then return .fail "implementation panicked on an in-domain case"
  if impl.contains "HANG" || impl.contains "ABORT" then return .fail "implementation hung or aborted"
  let umax := UMAX.toNat
  let watch := c.watch
  if watch.any (· ≥ n) then return .skip "sampled node outside the graph"
  let mut k := 0
  for q in c.queries do
    let some dl := implLine impl s!"D {k} " | return .fail s!"query {k}: no observation"
    let some pl := implLine impl s!"F {k} paths" | return .fail s!"query {k}: no paths observation"
    let pstrs := (words pl).drop 3
    if pstrs.length != watch.length then return .fail s!"query {k}: paths line has {pstrs.length} entries for {watch.length} observed nodes"
    let paths := pstrs.map parsePath
    let pathOfNode (v : Nat) : Option (Option (List Nat)) := (List.zip watch paths).lookup v
    match q with
    | .uni s t =>
      let some D := oracle adj n s | return .fail s!"query {k}: spec oracle did not converge (checker bug)"
      let some dist := (field dl "dist").bind String.toNat? | return .fail s!"query {k}: no dist field"
      -- the target's path: from the paths line when the target is observed (always, unless sampled)
      let ptKnown := pathOfNode t
      let pt : Option (List Nat) := ptKnown.getD none
      if ptKnown.isSome && (field dl "path") != some (if pt.isSome then "some" else "none") then
        return .fail s!"query {k}: path= field inconsistent with the paths line"
      if ptKnown.isNone then
        -- sampled case whose target is not in the sample: only the some/none flag can be judged
        if (dist != umax) != ((field dl "path") == some "some") then
          return .fail s!"query {k}: distance {dist} and path={(field dl "path").getD "?"} do not fit"
      else if dist != umax then
        match pt with
        | none => return .fail s!"query {k}: distance {dist} reported for {s}->{t} but no path returned"
        | some p =>
          if !(SP.validPathB adj s t p dist) then
            return .fail s!"query {k}: path {showPath p} is not a simple path {s}->{t} over existing edges of cheapest-edge weight {dist}"
          if gt D t != some dist then
            return .fail s!"query {k}: path {showPath p} has weight {dist} but the true distance {s}->{t} is {showD (gt D t)}"
      else if pt.isSome then return .fail s!"query {k}: unreachable marker reported for {t} but a path was returned"
      -- every other node: a returned path must be a real simple path from s; unreachable nodes get none
      for (v, pv) in List.zip watch paths do
        match pv with
        | none => pure ()
        | some p =>
          if (gt D v).isNone then return .fail s!"query {k}: node {v} is unreachable from {s} but path {showPath p} was returned"
          match SP.pathWeightB adj p with
          | none => return .fail s!"query {k}: path {showPath p} for node {v} uses a non-existing edge"
          | some w => if !(SP.validPathB adj s v p w) then
              return .fail s!"query {k}: path {showPath p} is not a simple path {s}->{v}"
    | .o2m s ts =>
      let some D := oracle adj n s | return .fail s!"query {k}: spec oracle did not converge (checker bug)"
      let some ll := implLine impl s!"F {k} labels" | return .fail s!"query {k}: no labels observation"
      let labels := parseNatList (((words ll).drop 3).headD "")
      if labels.length != watch.length then return .fail s!"query {k}: labels line has {labels.length} entries"
      let tds := parseNatList ((field dl "T").getD "")
      let labOf (v : Nat) : Option Nat := (List.zip watch labels).lookup v
      if tds.length != ts.length then return .fail s!"query {k}: T= field has {tds.length} entries"
      for (t, td) in List.zip ts tds do
        match labOf t with
        | some l => if l != td then return .fail s!"query {k}: T= field inconsistent with the labels line"
        | none =>
          -- sampled case, target not observed: judge its reported distance directly
          if td != (gt D t).getD umax then
            return .fail s!"query {k}: target {t}: reported distance {td}, true distance {showD (gt D t)}"
      for (v, lab, pv) in List.zip watch (List.zip labels paths) do
        if (gt D v).isNone && (lab != umax || pv.isSome) then
          return .fail s!"query {k}: node {v} is unreachable from {s} but has label {lab} / a path"
        if lab != umax then
          match pv with
          | none => return .fail s!"query {k}: distance {lab} reported for node {v} but no path returned"
          | some p =>
            if !(SP.validPathB adj s v p lab) then
              return .fail s!"query {k}: path {showPath p} is not a simple path {s}->{v} over existing edges of cheapest-edge weight {lab}"
            if ts.contains v && gt D v != some lab then
              return .fail s!"query {k}: target {v}: path {showPath p} has weight {lab} but the true distance is {showD (gt D v)}"
        else if pv.isSome then return .fail s!"query {k}: node {v} has no label but a path was returned"
    k := k + 1
  return .ok

def handle (cs : Case) : CaseOut :=
  let c := parseCase cs.ops
  match c.bad with
  | some why => { model := #[], verdict := .skip why }
  | none =>
    let adj := adjFn (adjArrOf c.n (modelOrder c cs.impl))
    let r := runModel c adj
    let v := judge c cs.impl
    let v := match v, r.modelBad with
      | .ok, some why => .fail why
      | v, _ => v
    { model := r.model, verdict := v,
      stats := [("nontrivial", bit (r.lowOnPath ≥ 1)), ("queries_with_lowered_node_on_path", toString r.lowOnPath),
                ("maxpath", toString r.maxPath), ("pops", toString r.tr.pops), ("inserts", toString r.tr.ins),
                ("decreases", toString r.tr.dec), ("order_changing_decreases", toString r.tr.decOrd),
                ("queries", toString c.queries.length), ("nodes", toString c.n), ("edges", toString c.edges.length),
                ("large", bit c.sample.isSome)] }

end Tbx.Drv.C09
