import Tbx.Drv.Common
import Tbx.Model.Polyline
import Tbx.Model.Zigzag
import Tbx.Model.Choose
import Tbx.Model.Enumerative
import Tbx.Model.BitIter
import Tbx.Model.PartitionID
import Tbx.Model.Huffman
import Tbx.Spec.Codes
import Tbx.Spec.IdTree
import Tbx.Spec.HuffmanCode
/-
Driver for C20 (codes and identifiers).  A case is a list of independent op lines of one family
(only `pl` is followed by its `p` point lines).  f64 values travel as hex bit patterns.

op                               observation lines (I = real code, M = model, same format)
pl <prec> / p <lat> <lon> …      D enc <string> | D ints la,lo;la,lo;… | F dec la:lo la:lo … (hex bits)
zz v…                            D zz u…
ch n                             D ch n c(n,0),…,c(n,n+2)
ur w ord…                        D ur w word…
bw w cnt                         D bw w <items> word,…           (first cnt items of the iterator)
ss bits set                      D ss <count> subset,…            (unsigned T of `bits` bits)
ssi bits pattern                 D ssi <count> subset,…           (signed T; pattern = two's-complement bits of the mask,
                                                                   items are the signed values the iterator yields)
on v                             D on v idx,…
id x k                           D id x parent= left= right= level= isl= isr= pl= pr= ll= lr= lisl= risr= mlc= mrc=
                                 D desc x k lm= rm= lk= rk= | D bits x <32 chars> | D pal x v0,…,v_level
lca x y                          D lca x y lca(x,y) lca(y,x)
sw lo hi                         D sw lo hi <checksum>           (all ids in [lo,hi))
ld ids levels pairs              D ld u v l1,l2,…                (one per pair)
hu s:f … / hs s:f …              D hu|hs cost= n= syms= | F hu|hs s:code …   (code words are a free choice)

The judge looks at the I lines only and uses Tbx.Spec.* only.
-/
namespace Tbx.Drv.C20
open Tbx Tbx.Drv

def pascal : Array (Array Nat) := Spec.pascalTable 64

def hexVal (c : Char) : Option Nat :=
  if '0' ≤ c ∧ c ≤ '9' then some (c.toNat - '0'.toNat)
  else if 'a' ≤ c ∧ c ≤ 'f' then some (c.toNat - 'a'.toNat + 10)
  else none

def parseHex? (s : String) : Option Nat :=
  if s.isEmpty then none else s.toList.foldlM (fun acc c => (hexVal c).map (acc * 16 + ·)) 0

def hex (n : Nat) : String := String.ofList (Nat.toDigits 16 n)
def bit (b : Bool) : String := if b then "1" else "0"
def joinWith (sep : String) (xs : List String) : String := sep.intercalate xs
def commaNat (xs : List Nat) : String := if xs.isEmpty then "-" else joinWith "," (xs.map toString)
def parseCommaNat (s : String) : Option (List Nat) :=
  if s == "-" then some [] else (s.splitOn ",").mapM String.toNat?
def optN : Option Nat → String
  | some x => toString x
  | none => "x"
def optB : Option Bool → String
  | some x => bit x
  | none => "x"

def field (ws : List String) (key : String) : Option String :=
  ws.findSome? fun w => if w.startsWith (key ++ "=") then some (w.drop (key.length + 1)).toString else none
def fieldNat (ws : List String) (key : String) : Option Nat := (field ws key).bind String.toNat?

structure St where
  model : Array String := #[]
  verdict : Verdict := .ok
  ip : Nat := 0
  nt : Bool := false
  ops : Nat := 0
  items : Nat := 0          -- coordinates / values / words / ids judged
  loose : Nat := 0          -- polyline coordinates that needed the float slack (rounding boundary)
  multi : Nat := 0          -- polyline numbers with more than one chunk
  wrapTop : Nat := 0        -- ids with bit 31 set
  ties : Nat := 0           -- huffman tables with a tie
  modelNone : Nat := 0      -- model hit a panic branch

def St.fail (s : St) (why : String) : St :=
  match s.verdict with
  | .ok => { s with verdict := .fail why }
  | .skip _ => { s with verdict := .fail why }
  | .fail _ => s
def St.skip (s : St) (why : String) : St :=
  match s.verdict with
  | .ok => { s with verdict := .skip why }
  | _ => s
def St.emit (s : St) (l : String) : St := { s with model := s.model.push l }

/-- next implementation line if it starts with `tag` (then it is consumed) -/
def St.take (s : St) (impl : Array String) (tag : String) : Option (List String) × St :=
  let l := impl.getD s.ip ""
  if l.startsWith tag then (some ((words l).drop (words tag).length), { s with ip := s.ip + 1 })
  else (none, s)

def missing (impl : Array String) (s : St) (what : String) : St :=
  s.fail s!"{what}: implementation produced no such observation (next line: '{impl.getD s.ip "<none>"}')"

/-! ### polyline -/

def toI32 (f : Float) : Int := f.toInt32.toInt

def absI (x : Int) : Int := if x < 0 then -x else x

def bytesToString (bs : List Nat) : String := String.ofList (bs.map Char.ofNat)

def intsToString (xs : List (Int × Int)) : String :=
  if xs.isEmpty then "-" else joinWith ";" (xs.map fun (a, b) => s!"{a},{b}")

def parseInts (s : String) : Option (List (Int × Int)) :=
  if s == "-" then some []
  else (s.splitOn ";").mapM fun t =>
    match t.splitOn "," with
    | [a, b] => do some ((← parseInt? a), (← parseInt? b))
    | _ => none

/-- is `n` an admissible rounding of `x·10^p` (x given by its f64 parts), and did it need the slack? -/
def roundOK (xp : Int × Int) (p10 : Int) (n : Int) : Bool × Bool :=
  let (a, b) := Spec.scaledDiff xp p10 n
  let xn : Int := absI xp.1 * p10 * (if xp.2 ≥ 0 then 2 ^ xp.2.toNat else 1)
  let strict := decide (absI a * 2 ≤ b)
  (decide (absI a * 2 ^ 53 ≤ b * 2 ^ 52 + 2 * xn), strict)

/-- is the f64 `d` (parts) equal to `n / 10^p` up to one rounding? -/
def quotOK (dp : Int × Int) (p10 : Int) (n : Int) : Bool :=
  let (a, b) := Spec.scaledDiff dp p10 n
  decide (absI a * 2 ^ 52 ≤ absI n * b)

def doPolyline (impl : Array String) (prec : Nat) (pts : List (Nat × Nat)) (s0 : St) : St := Id.run do
  let mut s := { s0 with ops := s0.ops + 1 }
  let p10n : Nat := 10 ^ prec
  let factor : Float := Float.ofNat p10n
  -- model: float glue executed with the same IEEE operations, integer layer = Tbx.Polyline
  let ints : List (Int × Int) := pts.map fun (a, b) =>
    (toI32 (Float.round (Float.ofBits a.toUInt64 * factor)), toI32 (Float.round (Float.ofBits b.toUInt64 * factor)))
  match Polyline.encodeInts ints with
  | none => s := { s.emit "D enc PANIC" with modelNone := s.modelNone + 1 }
  | some bytes =>
    s := s.emit (trimLine s!"D enc {bytesToString bytes}")
    s := { s with multi := s.multi + (bytes.filter (· ≥ 95)).length }
    match Polyline.decodeInts bytes with
    | none => s := { s.emit "D ints PANIC" with modelNone := s.modelNone + 1 }
    | some dec =>
      s := s.emit s!"D ints {intsToString dec}"
      let bits := dec.map fun (a, b) =>
        s!"{hex (Float.ofInt a / factor).toBits.toNat}:{hex (Float.ofInt b / factor).toBits.toNat}"
      s := s.emit (trimLine s!"F dec {joinWith " " bits}")
  -- judge
  if prec > 6 then return s.skip "precision above 6"
  let mut parts : Array ((Int × Int) × (Int × Int)) := #[]
  for (a, b) in pts do
    match Spec.f64Parts a, Spec.f64Parts b with
    | some pa, some pb => parts := parts.push (pa, pb)
    | _, _ => return s.skip "non-finite coordinate"
  let p10 : Int := p10n
  -- |lat| ≤ 90, |lon| ≤ 180 exactly
  for (pa, pb) in parts do
    let inR (q : Int × Int) (lim : Int) : Bool :=
      let (a, b) := Spec.scaledDiff q 1 0
      decide (absI a ≤ lim * b)
    if !(inR pa 90 && inR pb 180) then return s.skip "coordinate outside the lat/lon range"
  let (encL, s1) := s.take impl "D enc"
  s := s1
  let some encW := encL | return missing impl s "D enc"
  let encStr := encW.headD ""
  if encStr == "PANIC" && pts.length > 0 then return s.fail "encode panicked on an in-range path"
  let (intsL, s2) := s.take impl "D ints"
  s := s2
  let some intsW := intsL | return missing impl s "D ints"
  let some obsInts := parseInts (intsW.headD "-") | return s.fail "unparsable D ints"
  let (decL, s3) := s.take impl "F dec"
  s := s3
  let some decW := decL | return missing impl s "F dec"
  -- (1) the emitted string means exactly the decoded integer sequence (integer-layer round trip on the real output)
  let bytes := encStr.toList.map Char.toNat
  match Spec.polylineMeaning bytes with
  | none => return s.fail s!"encoded string '{encStr}' is not a well-formed polyline"
  | some m =>
    if m != obsInts then
      return s.fail s!"decode(encode(path)) differs from the meaning of the encoded string: string means {intsToString m}, decoded {intsToString obsInts}"
  if obsInts.length != pts.length then
    return s.fail s!"decoded {obsInts.length} points from a path of {pts.length}"
  if decW.length != pts.length then return s.fail "F dec has the wrong number of points"
  -- (2) every decoded integer is the input rounded to the precision, (3) the decoded f64 is that integer / 10^prec
  let mut k := 0
  for ((pa, pb), (na, nb)) in parts.toList.zip obsInts do
    let dbits := (decW.getD k "").splitOn ":"
    for (xp, n, db, nm) in [(pa, na, dbits.getD 0 "", "lat"), (pb, nb, dbits.getD 1 "", "lon")] do
      let (ok, strict) := roundOK xp p10 n
      if !ok then
        return s.fail s!"point {k} {nm}: decoded {n}·10^-{prec} is not the input rounded to precision {prec} (|decoded − original| > ½·10^-{prec})"
      if !strict then s := { s with loose := s.loose + 1 }
      match (parseHex? db).bind Spec.f64Parts with
      | none => return s.fail s!"point {k} {nm}: decoded value is not a finite f64"
      | some dp =>
        if !quotOK dp p10 n then
          return s.fail s!"point {k} {nm}: decoded f64 {db} is not {n}/10^{prec}"
      s := { s with items := s.items + 1 }
    k := k + 1
  -- non-trivial: at least two points, a negative delta and a multi-chunk number
  let neg := (obsInts.zip ((0, 0) :: obsInts)).any fun ((a, b), (c, d)) => a < c || b < d
  if pts.length ≥ 2 && neg && bytes.any (· ≥ 95) then s := { s with nt := true }
  return s

/-! ### zigzag, choose, unrank, iterators -/

def doZigzag (impl : Array String) (vs : List Int) (s0 : St) : St := Id.run do
  let mut s := { s0 with ops := s0.ops + 1 }
  s := s.emit s!"D zz {joinWith " " (vs.map fun v => toString (Zigzag.zigzagEncodeInt v))}"
  if vs.any fun v => v < -2147483648 || v > 2147483647 then return s.skip "value outside i32"
  let (l, s1) := s.take impl "D zz"
  s := s1
  let some us := l | return missing impl s "D zz"
  if us.length != vs.length then return s.fail "D zz has the wrong number of values"
  for (v, uS) in vs.zip us do
    let some u := uS.toNat? | return s.fail "unparsable zigzag value"
    if u != Spec.zigzagNat v then return s.fail s!"zigzag_encode({v}) = {u}, expected {Spec.zigzagNat v}"
    if u ≥ 2 ^ 32 || (Spec.zigzagDecode (BitVec.ofNat 32 u)).toInt != v then
      return s.fail s!"zigzag_decode(zigzag_encode({v})) ≠ {v}"
    s := { s with items := s.items + 1 }
  if (vs.any (· < 0)) && (vs.any (· > 0)) then s := { s with nt := true }
  return s

def doChoose (impl : Array String) (n : Nat) (s0 : St) : St := Id.run do
  let mut s := { s0 with ops := s0.ops + 1 }
  let ks := List.range (n + 3)
  let mvals := ks.map fun k => Choose.choose n k
  s := s.emit s!"D ch {n} {joinWith "," (mvals.map optN)}"
  if mvals.any (·.isNone) then s := { s with modelNone := s.modelNone + 1 }
  if n > 64 then return s.skip "n above 64"
  let (l, s1) := s.take impl "D ch"
  s := s1
  let some ws := l | return missing impl s "D ch"
  let vals := (ws.getD 1 "").splitOn ","
  if vals.length != n + 3 then return s.fail "D ch has the wrong number of values"
  for (k, vS) in ks.zip vals do
    let exp := Spec.binomT pascal n k
    if vS.toNat? != some exp then return s.fail s!"choose({n},{k}) = {vS}, expected {exp}"
    s := { s with items := s.items + 1 }
  if n ≥ 4 then s := { s with nt := true }
  return s

/-- a single binomial `choose(n, k)` (family choose-history: single calls in an order of the generator's choosing) -/
def doChooseOne (impl : Array String) (n k : Nat) (s0 : St) : St := Id.run do
  let mut s := { s0 with ops := s0.ops + 1 }
  let mv := Choose.choose n k
  s := s.emit s!"D chk {n} {k} {optN mv}"
  if mv.isNone then s := { s with modelNone := s.modelNone + 1 }
  if n > 64 then return s.skip "n above 64"
  let (l, s1) := s.take impl "D chk"
  s := s1
  let some ws := l | return missing impl s "D chk"
  let exp := Spec.binomT pascal n k
  let vS := ws.getD 2 ""
  if vS.toNat? != some exp then return s.fail s!"choose({n},{k}) = {vS}, expected {exp}"
  s := { s with items := s.items + 1 }
  if n ≥ 4 then s := { s with nt := true }
  return s

def lowOnes (w : Nat) : Nat := 2 ^ w - 1

def judgeWord (w ord : Nat) (v : Nat) : Option String :=
  if v ≥ 2 ^ 64 then some s!"word {v} does not fit 64 bits"
  else if Spec.popcount 64 v != w then some s!"word {v} has weight {Spec.popcount 64 v}, expected {w}"
  else if Spec.rankT pascal 64 v != ord then
    some s!"word {v} is number {Spec.rankT pascal 64 v} of weight {w} in increasing order, expected number {ord}"
  else none

def doUnrank (impl : Array String) (w : Nat) (ords : List Nat) (s0 : St) : St := Id.run do
  let mut s := { s0 with ops := s0.ops + 1 }
  let mvals := ords.map fun o => Enumerative.decodeU64 w o
  s := s.emit (trimLine s!"D ur {w} {joinWith " " (mvals.map optN)}")
  if w > 64 then return s.skip "weight above 64"
  let total := Spec.binomT pascal 64 w
  if ords.any (· ≥ total) then return s.skip "ordinal not below choose(64, w)"
  if mvals.any (·.isNone) then s := { s with modelNone := s.modelNone + 1 }
  let (l, s1) := s.take impl "D ur"
  s := s1
  let some ws := l | return missing impl s "D ur"
  let vals := ws.drop 1
  if vals.length != ords.length then return s.fail "D ur has the wrong number of values"
  let mut prev : Option (Nat × Nat) := none
  for (o, vS) in ords.zip vals do
    let some v := vS.toNat? | return s.fail s!"decode_u64({w},{o}) produced '{vS}'"
    if let some why := judgeWord w o v then return s.fail s!"decode_u64({w},{o}): {why}"
    if o == 0 && v != lowOnes w then return s.fail s!"decode_u64({w},0) = {v} is not the smallest word of weight {w}"
    if o + 1 == total && v != lowOnes w * 2 ^ (64 - w) then
      return s.fail s!"decode_u64({w},{o}) = {v} is not the largest word of weight {w}"
    if let some (po, pv) := prev then
      if (decide (po < o) != decide (pv < v)) || (decide (po = o) != decide (pv = v)) then
        return s.fail s!"decode_u64({w},·) is not strictly increasing: ordinals {po},{o} give {pv},{v}"
    prev := some (o, v)
    s := { s with items := s.items + 1 }
  if 2 ≤ w && w ≤ 62 && ords.length ≥ 2 then s := { s with nt := true }
  return s

def doBW (impl : Array String) (w cnt : Nat) (s0 : St) : St := Id.run do
  let mut s := { s0 with ops := s0.ops + 1 }
  match (Enumerative.withWeight w).bind (Enumerative.take cnt) with
  | none => s := { s.emit s!"D bw {w} PANIC" with modelNone := s.modelNone + 1 }
  | some items => s := s.emit s!"D bw {w} {items.length} {commaNat items}"
  if w > 64 then return s.skip "weight above 64"
  let (l, s1) := s.take impl "D bw"
  s := s1
  let some ws := l | return missing impl s "D bw"
  let some len := (ws.getD 1 "").toNat? | return s.fail "bit-weight iterator panicked"
  let some items := parseCommaNat (ws.getD 2 "-") | return s.fail "unparsable D bw"
  let total := Spec.binomT pascal 64 w
  if items.length != len || len != min cnt total then
    return s.fail s!"bit-weight iterator of weight {w} yielded {len} of the first {cnt} items, expected {min cnt total}"
  let mut i := 0
  for v in items do
    if let some why := judgeWord w i v then return s.fail s!"bit-weight iterator of weight {w}, item {i}: {why}"
    i := i + 1
    s := { s with items := s.items + 1 }
  if len ≥ 3 then s := { s with nt := true }
  return s

def strictlyIncreasing : List Nat → Bool
  | a :: b :: rest => decide (a < b) && strictlyIncreasing (b :: rest)
  | _ => true

def commaInt (xs : List Int) : String := if xs.isEmpty then "-" else joinWith "," (xs.map toString)
def parseCommaInt (s : String) : Option (List Int) :=
  if s == "-" then some [] else (s.splitOn ",").mapM parseInt?

/-- subsets of a mask; `signed`: `T` is a signed integer, the mask is given by its two's-complement pattern and the
    observed items are signed values.  Expected (Spec): ALL sub-masks of the pattern, each once, in increasing
    order of the pattern. -/
def doSubsets (impl : Array String) (signed : Bool) (bits set : Nat) (s0 : St) : St := Id.run do
  let mut s := { s0 with ops := s0.ops + 1 }
  let tag := if signed then "ssi" else "ss"
  let pc := Spec.popcount 64 set
  let (items, ok) := BitIter.subsetCollect bits (2 ^ pc + 1) (BitIter.fromBitset set)
  let shown : List Int := if signed then items.map (BitIter.signedVal bits) else items.map Int.ofNat
  s := s.emit s!"D {tag} {if ok then toString items.length else "FUEL"} {commaInt shown}"
  if !(bits == 8 || bits == 16 || bits == 32 || bits == 64) || set ≥ 2 ^ bits || pc > 16 then
    return s.skip "unsupported width / set"
  let (l, s1) := s.take impl s!"D {tag}"
  s := s1
  let some ws := l | return missing impl s s!"D {tag}"
  let some obsV := parseCommaInt (ws.getD 1 "-") | return s.fail s!"unparsable D {tag}"
  if ws.getD 0 "" != toString obsV.length then return s.fail s!"D {tag} count does not match its items"
  if !ok then return s.fail "model-out-of-fuel (subset iterator)"
  -- values -> two's-complement patterns
  let lo : Int := if signed then -(2 ^ (bits - 1) : Nat) else 0
  let hi : Int := if signed then (2 ^ (bits - 1) : Nat) else (2 ^ bits : Nat)
  if obsV.any fun v => v < lo || v ≥ hi then return s.fail s!"subset iterator of pattern {set} yielded a value outside the type"
  let obs : List Nat := obsV.map fun (v : Int) => Int.toNat (if v < 0 then v + ((2 ^ bits : Nat) : Int) else v)
  if !strictlyIncreasing obs then
    return s.fail s!"subsets of pattern {set} ({bits} bits, signed={signed}) are not enumerated in increasing pattern order"
  if obs.any fun v => v &&& set != v then return s.fail s!"subset iterator of pattern {set} yielded a non-subset"
  if obs.length != 2 ^ pc then
    return s.fail s!"subset iterator of pattern {set} ({bits} bits, signed={signed}) yielded {obs.length} subsets, expected {2 ^ pc}"
  s := { s with items := s.items + obs.length }
  if pc ≥ 2 then s := { s with nt := true }
  return s

def strictlyDecreasing : List Nat → Bool
  | a :: b :: rest => decide (a > b) && strictlyDecreasing (b :: rest)
  | _ => true

def doOnes (impl : Array String) (v : Nat) (s0 : St) : St := Id.run do
  let mut s := { s0 with ops := s0.ops + 1 }
  let (items, ok) := BitIter.oneCollect 33 v
  s := s.emit s!"D on {v} {if ok then commaNat items else "FUEL"}"
  if v ≥ 2 ^ 32 then return s.skip "value outside u32"
  let (l, s1) := s.take impl "D on"
  s := s1
  let some ws := l | return missing impl s "D on"
  let some obs := parseCommaNat (ws.getD 1 "-") | return s.fail "unparsable D on"
  if !ok then return s.fail "model-out-of-fuel (one iterator)"
  if !strictlyDecreasing obs then return s.fail s!"one-iterator of {v}: indices are not strictly decreasing"
  if (obs.map (2 ^ ·)).sum != v then return s.fail s!"one-iterator of {v}: indices {obs} are not the set bits"
  s := { s with items := s.items + 1 }
  if obs.length ≥ 2 then s := { s with nt := true }
  return s

/-! ### partition ids -/

open Tbx.PartitionID in
def modelIdLines (x k : Nat) : List String :=
  let l := leftChild x
  let r := rightChild x
  let lvl := level x
  let kfold (f : Nat → Nat) : Nat := (List.range k).foldl (fun a _ => f a) x
  let bits := String.ofList ((List.range 32).reverse.map fun i =>
    match extractBit x i with | some true => '1' | some false => '0' | none => 'x')
  let pal := match lvl with
    | some v => joinWith "," ((List.range (v + 1)).map fun i => optN (parentAtLevel x i))
    | none => "x"
  [ s!"D id {x} parent={parent x} left={l} right={r} level={optN lvl} isl={bit (isLeftChild x)} isr={bit (isRightChild x)} " ++
    s!"pl={parent l} pr={parent r} ll={optN (level l)} lr={optN (level r)} lisl={bit (isLeftChild l)} risr={bit (isRightChild r)} " ++
    s!"mlc={optN (makeLeftChild x)} mrc={optN (makeRightChild x)}",
    s!"D desc {x} {k} lm={optN (makeLeftmostDescendant x k)} rm={optN (makeRightmostDescendant x k)} lk={kfold leftChild} rk={kfold rightChild}",
    s!"D bits {x} {bits}",
    s!"D pal {x} {pal}" ]

def U32 : Nat := 4294967296

def doId (impl : Array String) (x k : Nat) (s0 : St) : St := Id.run do
  let mut s := { s0 with ops := s0.ops + 1 }
  for l in modelIdLines x k do s := s.emit l
  if x == 0 || x ≥ U32 || k ≥ 32 then return s.skip "id 0 / outside u32 / k ≥ 32"
  let (l1, s1) := s.take impl "D id"
  s := s1
  let some w1 := l1 | return missing impl s "D id"
  let (l2, s2) := s.take impl "D desc"
  s := s2
  let some w2 := l2 | return missing impl s "D desc"
  let (l3, s3) := s.take impl "D bits"
  s := s3
  let some w3 := l3 | return missing impl s "D bits"
  let (l4, s4) := s.take impl "D pal"
  s := s4
  let some w4 := l4 | return missing impl s "D pal"
  let g (key : String) : Nat := (fieldNat w1 key).getD (U32 * 2)     -- an absent / 'x' field never equals a law's value
  let d := Spec.IdTree.depth 64 x
  let top := x ≥ 2 ^ 31
  if top then s := { s with wrapTop := s.wrapTop + 1 }
  -- single-step functions against the tree on the naturals
  if g "parent" != max 1 (x / 2) then return s.fail s!"parent({x}) = {g "parent"}, expected {max 1 (x / 2)}"
  if g "left" != 2 * x % U32 then return s.fail s!"left_child({x}) = {g "left"}, expected {2 * x % U32}"
  if g "right" != 2 * x % U32 + 1 then return s.fail s!"right_child({x}) = {g "right"}, expected {2 * x % U32 + 1}"
  if g "level" != d then return s.fail s!"level({x}) = {g "level"}, expected {d}"
  if g "isl" != (if x % 2 == 0 then 1 else 0) || g "isr" != (if x % 2 == 1 then 1 else 0) then
    return s.fail s!"is_left_child/is_right_child({x}) wrong"
  if g "mlc" != g "left" || g "mrc" != g "right" then return s.fail s!"make_left_child/make_right_child({x}) differ from left_child/right_child"
  if g "lisl" != 1 || g "risr" != 1 then return s.fail s!"left_child({x}) is not a left child or right_child({x}) not a right child"
  -- tree laws (below bit 31 the children exist)
  if !top then
    if g "pl" != x || g "pr" != x then return s.fail s!"parent(child({x})) ≠ {x}: parent(left)={g "pl"} parent(right)={g "pr"}"
    if g "ll" != d + 1 || g "lr" != d + 1 then return s.fail s!"level(child({x})) ≠ level({x}) + 1"
  else
    let lft := 2 * x % U32
    if g "pl" != max 1 (lft / 2) || g "pr" != max 1 ((lft + 1) / 2) then return s.fail s!"parent(child({x})) wrong on a wrapped id"
  -- k-fold descendants
  let gd (key : String) : Nat := (fieldNat w2 key).getD (U32 * 2)
  let lk := Spec.IdTree.leftK k x % U32
  let rk := Spec.IdTree.rightK k x % U32
  if gd "lm" != lk || gd "lk" != lk then
    return s.fail s!"make_leftmost_descendant({x},{k}) = {gd "lm"}, {k}-fold left_child = {gd "lk"}, expected {lk}"
  if gd "rm" != rk || gd "rk" != rk then
    return s.fail s!"make_rightmost_descendant({x},{k}) = {gd "rm"}, {k}-fold right_child = {gd "rk"}, expected {rk}"
  -- extract_bit
  let expBits := String.ofList ((List.range 32).reverse.map fun i => if x / 2 ^ i % 2 == 1 then '1' else '0')
  if w3.getD 1 "" != expBits then return s.fail s!"extract_bit({x},·) = {w3.getD 1 ""}, expected {expBits}"
  -- parent_at_level for the levels up to the id's own
  let expPal := joinWith "," ((List.range (d + 1)).map fun i => toString (x / 2 ^ i * 2 ^ i))
  if w4.getD 1 "" != expPal then return s.fail s!"parent_at_level({x},0..{d}) = {w4.getD 1 ""}, expected {expPal}"
  s := { s with items := s.items + 1 }
  if d ≥ 1 && k ≥ 1 then s := { s with nt := true }
  return s

def doLca (impl : Array String) (x y : Nat) (s0 : St) : St := Id.run do
  let mut s := { s0 with ops := s0.ops + 1 }
  let a := PartitionID.lowestCommonAncestor x y
  let b := PartitionID.lowestCommonAncestor y x
  s := s.emit s!"D lca {x} {y} {optN a} {optN b}"
  if x == 0 || y == 0 || x ≥ U32 || y ≥ U32 then return s.skip "id 0 / outside u32"
  if a.isNone || b.isNone then s := { s with modelNone := s.modelNone + 1 }
  let (l, s1) := s.take impl "D lca"
  s := s1
  let some ws := l | return missing impl s "D lca"
  let some oa := (ws.getD 2 "").toNat? | return s.fail s!"lowest_common_ancestor({x},{y}) panicked"
  let some ob := (ws.getD 3 "").toNat? | return s.fail s!"lowest_common_ancestor({y},{x}) panicked"
  if !Spec.IdTree.isLCAB oa x y then
    return s.fail s!"lowest_common_ancestor({x},{y}) = {oa} is not the deepest common ancestor"
  if ob != oa then return s.fail s!"lowest_common_ancestor is not symmetric on ({x},{y}): {oa} vs {ob}"
  s := { s with items := s.items + 1 }
  if oa != x && oa != y then s := { s with nt := true }
  return s

/-- one id's contribution to the sweep checksum, from eleven functions of the id -/
def sweepTerm (p l r v il ir pl pr lm rm : Nat) : UInt64 :=
  p.toUInt64 + 3 * l.toUInt64 + 5 * r.toUInt64 + 7 * v.toUInt64 + 11 * il.toUInt64 + 13 * ir.toUInt64 +
  17 * pl.toUInt64 + 19 * pr.toUInt64 + 23 * lm.toUInt64 + 29 * rm.toUInt64

open Tbx.PartitionID in
def sweepModel (lo hi : Nat) : UInt64 := Id.run do
  let mut acc : UInt64 := 0
  for x in [lo:hi] do
    let l := leftChild x
    let r := rightChild x
    acc := acc * 0x100000001B3 + sweepTerm (parent x) l r ((level x).getD 99) (if isLeftChild x then 1 else 0)
      (if isRightChild x then 1 else 0) (parent l) (parent r) ((makeLeftmostDescendant x 3).getD 0)
      ((makeRightmostDescendant x 3).getD 0)
  return acc

def sweepSpec (lo hi : Nat) : UInt64 := Id.run do
  let mut acc : UInt64 := 0
  for x in [lo:hi] do
    let l := 2 * x % U32
    acc := acc * 0x100000001B3 + sweepTerm (max 1 (x / 2)) l (l + 1) (Spec.IdTree.depth 64 x) (if x % 2 == 0 then 1 else 0)
      (if x % 2 == 1 then 1 else 0) (max 1 (l / 2)) (max 1 ((l + 1) / 2)) (8 * x % U32) ((8 * x + 7) % U32)
  return acc

def doSweep (impl : Array String) (lo hi : Nat) (s0 : St) : St := Id.run do
  let mut s := { s0 with ops := s0.ops + 1 }
  s := s.emit s!"D sw {lo} {hi} {hex (sweepModel lo hi).toNat}"
  if lo == 0 || hi > U32 || lo > hi then return s.skip "sweep range outside 1..2^32"
  let (l, s1) := s.take impl "D sw"
  s := s1
  let some ws := l | return missing impl s "D sw"
  let exp := hex (sweepSpec lo hi).toNat
  if ws.getD 2 "" != exp then
    return s.fail s!"checksum of (parent,left,right,level,is_left,is_right,parent∘left,parent∘right,leftmost 3,rightmost 3) over ids [{lo},{hi}) is {ws.getD 2 ""}, the tree on the naturals gives {exp}"
  s := { s with items := s.items + (hi - lo) }
  if hi - lo ≥ 2 then s := { s with nt := true }
  return s

def doLevelDir (impl : Array String) (ids levels : List Nat) (pairs : List (Nat × Nat)) (s0 : St) : St := Id.run do
  let mut s := { s0 with ops := s0.ops + 1 }
  let arr := ids.toArray
  for (u, v) in pairs do
    s := s.emit s!"D ld {u} {v} {match PartitionID.getCrossingLevels arr levels u v with | some l => commaNat l | none => "x"}"
  let maxL := levels.foldl max 0
  if maxL ≥ 32 || ids.any (fun i => i < 2 ^ maxL || i ≥ U32) || pairs.any (fun (u, v) => u ≥ ids.length || v ≥ ids.length) then
    return s.skip "level ≥ 32, id with fewer bits than the highest level, or index out of range"
  for (u, v) in pairs do
    let (l, s1) := s.take impl "D ld"
    s := s1
    let some ws := l | return missing impl s "D ld"
    let some obs := parseCommaNat (ws.getD 2 "-") | return s.fail s!"get_crossing_levels({u},{v}) panicked"
    let a := ids.getD u 0
    let b := ids.getD v 0
    let cross (lv : Nat) : Bool := a / 2 ^ lv != b / 2 ^ lv
    if obs != levels.take obs.length then return s.fail s!"get_crossing_levels({u},{v}) = {obs} is not a prefix of the level list"
    if !obs.all cross then return s.fail s!"get_crossing_levels({u},{v}) = {obs} contains a level at which the two cells coincide"
    if let some nxt := levels[obs.length]? then
      if cross nxt then return s.fail s!"get_crossing_levels({u},{v}) = {obs} stops although the cells differ at level {nxt}"
    s := { s with items := s.items + 1 }
    if obs.length ≥ 1 && obs.length < levels.length then s := { s with nt := true }
  return s

/-! ### Huffman -/

def codeToString (c : List Bool) : String :=
  if c.isEmpty then "-" else String.ofList (c.map fun b => if b then '1' else '0')
def parseCode (s : String) : Option (List Bool) :=
  if s == "-" then some []
  else s.toList.mapM fun c => if c == '1' then some true else if c == '0' then some false else none
def parseSF (w : String) : Option (Nat × Int) :=
  match w.splitOn ":" with
  | [a, b] => do some ((← a.toNat?), (← parseInt? b))
  | _ => none
def parseSC (w : String) : Option (Nat × List Bool) :=
  match w.splitOn ":" with
  | [a, b] => do some ((← a.toNat?), (← parseCode b))
  | _ => none

def sortedByFreq : List (Nat × Int) → Bool
  | a :: b :: rest => decide (a.2 ≤ b.2) && sortedByFreq (b :: rest)
  | _ => true

def doHuffman (impl : Array String) (tag : String) (table : List (Nat × Int)) (s0 : St) : St := Id.run do
  let mut s := { s0 with ops := s0.ops + 1 }
  let sorted := tag == "hs"
  let mbook := if sorted then Huffman.fromSorted table else Huffman.fromUnsorted table
  match mbook with
  | none => s := { s.emit s!"D {tag} PANIC" with modelNone := s.modelNone + 1 }
  | some book =>
    let syms := (book.map (·.1)).mergeSort (· ≤ ·)
    s := s.emit s!"D {tag} cost={Spec.Huff.cost table book} n={book.length} syms={commaNat syms}"
    s := s.emit (trimLine s!"F {tag} {joinWith " " (book.map fun (a, c) => s!"{a}:{codeToString c}")}")
  -- domain of the property
  let fs := table.map (·.2)
  if table.length < (if sorted then 2 else 1) then return s.skip "table too small (the sorted construction needs two symbols)"
  if fs.any (· < 1) || fs.sum > 2147483647 then return s.skip "frequency below 1 or total above i32::MAX"
  if !(table.map (·.1)).Nodup then return s.skip "duplicate symbol"
  if sorted && !sortedByFreq table then return s.skip "table given to the sorted construction is not sorted"
  let (l1, s1) := s.take impl s!"D {tag}"
  s := s1
  let some w1 := l1 | return missing impl s s!"D {tag}"
  if w1.headD "" == "PANIC" then return s.fail s!"construction panicked on a table of {table.length} symbols"
  let (l2, s2) := s.take impl s!"F {tag}"
  s := s2
  let some w2 := l2 | return missing impl s s!"F {tag}"
  let some book := w2.mapM parseSC | return s.fail "unparsable code book"
  let codes := book.map (·.2)
  if !Spec.Huff.allCodedB table book then
    return s.fail s!"code book does not contain every symbol exactly once: {book.map (·.1)}"
  if !Spec.Huff.prefixFreeB codes then return s.fail s!"code is not prefix-free: {w2}"
  if table.length ≥ 2 && !Spec.Huff.kraftEqB codes then return s.fail s!"Kraft sum of the code lengths is not 1: {w2}"
  let c := Spec.Huff.cost table book
  let opt := Spec.Huff.optCost fs
  if c != opt then return s.fail s!"weighted code length {c} is not minimal ({opt}) for frequencies {fs}"
  if field w1 "cost" != some (toString c) then return s.fail s!"reported cost {field w1 "cost"} differs from the cost of the code book {c}"
  s := { s with items := s.items + 1 }
  if !fs.Nodup then s := { s with ties := s.ties + 1 }
  if table.length ≥ 3 then s := { s with nt := true }
  return s

/-! ### dispatch -/

def natList (ws : List String) : Option (List Nat) := ws.mapM String.toNat?

def handle (c : Case) : CaseOut := Id.run do
  let mut s : St := {}
  let ops := c.ops
  let mut i := 0
  while i < ops.size do
    let l := ops[i]!
    i := i + 1
    match words l with
    | ["pl", p] =>
      let mut pts : List (Nat × Nat) := []
      let mut bad := false
      while i < ops.size && (ops[i]!).startsWith "p " do
        match words ops[i]! with
        | [_, a, b] =>
          match parseHex? a, parseHex? b with
          | some x, some y => pts := pts ++ [(x, y)]
          | _, _ => bad := true
        | _ => bad := true
        i := i + 1
      if bad then s := s.skip "unparsable point" else s := doPolyline c.impl (parseNat! p) pts s
    | "zz" :: vs =>
      match vs.mapM parseInt? with
      | some xs => s := doZigzag c.impl xs s
      | none => s := s.skip "unparsable zz"
    | ["ch", n] => s := doChoose c.impl (parseNat! n) s
    | ["chk", n, k] => s := doChooseOne c.impl (parseNat! n) (parseNat! k) s
    | "ur" :: w :: ords =>
      match natList ords with
      | some os => s := doUnrank c.impl (parseNat! w) os s
      | none => s := s.skip "unparsable ur"
    | ["bw", w, cnt] => s := doBW c.impl (parseNat! w) (parseNat! cnt) s
    | ["ss", b, st] => s := doSubsets c.impl false (parseNat! b) (parseNat! st) s
    | ["ssi", b, st] => s := doSubsets c.impl true (parseNat! b) (parseNat! st) s
    | ["on", v] => s := doOnes c.impl (parseNat! v) s
    | ["id", x, k] => s := doId c.impl (parseNat! x) (parseNat! k) s
    | ["lca", x, y] => s := doLca c.impl (parseNat! x) (parseNat! y) s
    | ["sw", lo, hi] => s := doSweep c.impl (parseNat! lo) (parseNat! hi) s
    | ["ld", ids, lvls, prs] =>
      let pairs := (prs.splitOn ",").mapM fun t =>
        match t.splitOn ":" with
        | [a, b] => do some ((← a.toNat?), (← b.toNat?))
        | _ => none
      match parseCommaNat ids, parseCommaNat lvls, pairs with
      | some a, some b, some p => s := doLevelDir c.impl a b p s
      | _, _, _ => s := s.skip "unparsable ld"
    | tag :: entries =>
      if tag == "hu" || tag == "hs" then
        match entries.mapM parseSF with
        | some t => s := doHuffman c.impl tag t s
        | none => s := s.skip "unparsable table"
      else s := s.skip s!"unknown op '{l}'"
    | [] => pure ()
  -- leftover implementation lines (e.g. PANIC) on an in-domain case are a failure
  if s.ip < c.impl.size then
    if let .ok := s.verdict then
      s := s.fail s!"unexpected implementation output: '{c.impl.getD s.ip ""}'"
  if s.modelNone > 0 then
    if let .ok := s.verdict then
      s := s.fail "model reached a panic / out-of-fuel branch on an in-domain input (model-out-of-fuel or model/spec mismatch)"
  return { model := s.model, verdict := s.verdict,
           stats := [("nontrivial", bit s.nt), ("ops", toString s.ops), ("items", toString s.items),
                     ("loose", toString s.loose), ("multichunk", toString s.multi), ("topbit", toString s.wrapTop),
                     ("ties", toString s.ties)] }

end Tbx.Drv.C20
