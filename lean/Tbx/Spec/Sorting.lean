/-
Naive definitions used by C18's judge and theorems: sortedness, the sorted rearrangement of a
list (insertion sort, the "naive definition" of sorting), and the contracts by which the std
functions `sort_unstable` and `select_nth_unstable` are modelled.  Core Lean only.
-/
namespace Tbx.Sorting

/-- ascending (not necessarily strictly) -/
def Sorted (l : List Int) : Prop := l.Pairwise (· ≤ ·)

/-- insert into a sorted list, after all elements ≤ x -/
def ins (x : Int) : List Int → List Int
  | [] => [x]
  | y :: ys => if x < y then x :: y :: ys else y :: ins x ys

/-- the sorted rearrangement of a list -/
def isort : List Int → List Int
  | [] => []
  | x :: xs => ins x (isort xs)

/-- executable sortedness test -/
def sortedB : List Int → Bool
  | [] => true
  | [_] => true
  | x :: y :: r => decide (x ≤ y) && sortedB (y :: r)

/-- contract of `sort_unstable` -/
def SortContract (srt : List Int → List Int) : Prop :=
  ∀ l, Sorted (srt l) ∧ (srt l).Perm l

/-- contract of `select_nth_unstable(i)` (std docs): a rearrangement such that the element at
    position i is in its final sorted position, everything before it is ≤ it and everything after
    it is ≥ it.  Only required for in-bounds i (the std function panics otherwise). -/
def SelectContract (sel : List Int → Nat → List Int) : Prop :=
  ∀ l i, i < l.length →
    (sel l i).Perm l ∧
    ∀ m, (sel l i)[i]? = some m →
      (∀ j x, j < i → (sel l i)[j]? = some x → x ≤ m) ∧
      (∀ j x, i < j → (sel l i)[j]? = some x → m ≤ x)

end Tbx.Sorting
