/-
Spec for the partition-id tree of C20: ids are the positive naturals, the root is 1, the children
of `x` are `2x` and `2x+1`.  `Anc c x`: `c` is an ancestor of `x` (reflexive).  Independent of the
shift arithmetic in /repo.  Core Lean only.
-/
namespace Tbx.Spec.IdTree

/-- `c` is an ancestor of `x` (or `x` itself): dropping some number of trailing binary digits of `x` gives `c` -/
def Anc (c x : Nat) : Prop := 1 ≤ c ∧ ∃ k, x / 2 ^ k = c

/-- lowest common ancestor: a common ancestor below every other common ancestor -/
def IsLCA (a x y : Nat) : Prop := Anc a x ∧ Anc a y ∧ ∀ c, Anc c x → Anc c y → Anc c a

/-- checker for ids below 2^64 -/
def ancB (c x : Nat) : Bool := decide (1 ≤ c) && (List.range 64).any fun k => x / 2 ^ k == c

def isLCAB (a x y : Nat) : Bool :=
  ancB a x && ancB a y &&
  (List.range 64).all fun k => !(ancB (x / 2 ^ k) y) || ancB (x / 2 ^ k) a

/-- depth of an id: number of binary digits minus one -/
def depth : Nat → Nat → Nat
  | 0, _ => 0
  | fuel + 1, x => if x ≥ 2 then depth fuel (x / 2) + 1 else 0

/-- k-fold left / right child -/
def leftK : Nat → Nat → Nat
  | 0, x => x
  | k + 1, x => leftK k (2 * x)
def rightK : Nat → Nat → Nat
  | 0, x => x
  | k + 1, x => rightK k (2 * x + 1)

theorem ancB_sound (c x : Nat) (h : ancB c x = true) : Anc c x := by
  simp only [ancB, Bool.and_eq_true, decide_eq_true_eq, List.any_eq_true, beq_iff_eq] at h
  obtain ⟨h1, k, _, hk⟩ := h
  exact ⟨h1, k, hk⟩

theorem ancB_complete (c x : Nat) (hx : x < 2 ^ 64) (h : Anc c x) : ancB c x = true := by
  obtain ⟨h1, k, hk⟩ := h
  simp only [ancB, Bool.and_eq_true, decide_eq_true_eq, List.any_eq_true, beq_iff_eq]
  refine ⟨h1, k, ?_, hk⟩
  rw [List.mem_range]
  apply Decidable.byContradiction
  intro hge
  have hle : (2:Nat) ^ 64 ≤ 2 ^ k := Nat.pow_le_pow_right (by decide) (by omega)
  have : x / 2 ^ k = 0 := Nat.div_eq_of_lt (by omega)
  omega

/-- soundness of the LCA checker (what the judge relies on) -/
theorem isLCAB_sound (a x y : Nat) (hx : x < 2 ^ 64) (hy : y < 2 ^ 64)
    (h : isLCAB a x y = true) : IsLCA a x y := by
  simp only [isLCAB, Bool.and_eq_true, List.all_eq_true, Bool.or_eq_true, Bool.not_eq_eq_eq_not,
    Bool.not_true] at h
  obtain ⟨⟨hax, hay⟩, hall⟩ := h
  refine ⟨ancB_sound _ _ hax, ancB_sound _ _ hay, ?_⟩
  intro c hcx hcy
  have hcxb := ancB_complete c x hx hcx
  simp only [ancB, Bool.and_eq_true, decide_eq_true_eq, List.any_eq_true, beq_iff_eq] at hcxb
  obtain ⟨_, k, hk, hkc⟩ := hcxb
  have := hall k hk
  rw [hkc] at this
  rcases this with h | h
  · rw [ancB_complete c y hy hcy] at h; cases h
  · exact ancB_sound _ _ h

end Tbx.Spec.IdTree
