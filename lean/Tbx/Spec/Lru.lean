import Tbx.Model.LruL0
/-
What "least recently used" means, stated over the HISTORY of operations and independent of how
the cache keeps its order.

* An operation *uses* key `k` iff it is `push k _` or `get k` (`contains`, `front`, `len`, `clear`
  and a mutation through `get_front_mut` are not uses).
* `lastUse ops k` is the position (0-based, chronological) of the last operation in `ops` that
  uses `k`; `lastUse_eq_some_iff` characterises it without reference to the recursive definition.
* `writes op k` / `Undisturbed` say which operations may change the value stored for `k`
  (used to state "get returns the value of the latest push").
-/
namespace Tbx.LruSpec
open Tbx.LruL0

variable {K V : Type} [DecidableEq K]

/-- `op` counts as a use of key `k` -/
def isUse (op : Op K V) (k : K) : Bool :=
  match op with
  | .push k' _ => k' == k
  | .get k' => k' == k
  | _ => false

/-- newest-first helper: position of the most recent use, positions counted from the oldest op -/
def lastUseR : List (Op K V) → K → Option Nat
  | [], _ => none
  | op :: older, k => if isUse op k then some older.length else lastUseR older k

/-- position of the last use of `k` in the chronological history `ops` -/
def lastUse (ops : List (Op K V)) (k : K) : Option Nat := lastUseR ops.reverse k

theorem lastUse_nil (k : K) : lastUse ([] : List (Op K V)) k = none := rfl

theorem lastUse_snoc (ops : List (Op K V)) (op : Op K V) (k : K) :
    lastUse (ops ++ [op]) k = if isUse op k then some ops.length else lastUse ops k := by
  simp [lastUse, lastUseR]

/-- snoc induction on histories (core only) -/
theorem snoc_induction {α : Type} {motive : List α → Prop} (l : List α) (nil : motive [])
    (snoc : ∀ l a, motive l → motive (l ++ [a])) : motive l := by
  have h : ∀ r : List α, motive r.reverse := by
    intro r
    induction r with
    | nil => exact nil
    | cons a r ih => rw [List.reverse_cons]; exact snoc _ _ ih
  have := h l.reverse
  rwa [List.reverse_reverse] at this

theorem lastUse_lt (ops : List (Op K V)) (k : K) (t : Nat) (h : lastUse ops k = some t) : t < ops.length := by
  induction ops using snoc_induction generalizing t with
  | nil => simp [lastUse_nil] at h
  | snoc ops op ih =>
    rw [lastUse_snoc] at h
    split at h
    · simp at h; simp; omega
    · have := ih t h; simp; omega

/-- `lastUse` is what its name says: the op at position `t` uses `k` and no later op does -/
theorem lastUse_eq_some_iff (ops : List (Op K V)) (k : K) (t : Nat) :
    lastUse ops k = some t ↔
      ∃ h : t < ops.length, isUse ops[t] k = true ∧
        ∀ j (hj : j < ops.length), t < j → isUse ops[j] k = false := by
  induction ops using snoc_induction generalizing t with
  | nil => simp [lastUse_nil]
  | snoc ops op ih =>
    rw [lastUse_snoc]
    by_cases hu : isUse op k = true
    · simp only [hu, if_true, Option.some.injEq]
      constructor
      · intro h; subst h
        refine ⟨by simp, by simp [hu], ?_⟩
        intro j hj hlt; simp at hj; omega
      · rintro ⟨h, _, h3⟩
        simp at h
        by_cases ht : t = ops.length
        · exact ht.symm
        · have := h3 ops.length (by simp) (by omega)
          simp [hu] at this
    · have hu' : isUse op k = false := by simpa using hu
      simp only [hu', Bool.false_eq_true, if_false]
      rw [ih]
      constructor
      · rintro ⟨h, h2, h3⟩
        refine ⟨by simp; omega, by rw [List.getElem_append_left h]; exact h2, ?_⟩
        intro j hj hlt
        simp at hj
        by_cases hje : j = ops.length
        · subst hje; simp [hu']
        · rw [List.getElem_append_left (by omega)]; exact h3 j (by omega) hlt
      · rintro ⟨h, h2, h3⟩
        simp at h
        have htl : t < ops.length := by
          by_cases ht : t = ops.length
          · subst ht; simp [hu'] at h2
          · omega
        refine ⟨htl, by rw [List.getElem_append_left htl] at h2; exact h2, ?_⟩
        intro j hj hlt
        have := h3 j (by simp; omega) hlt
        rw [List.getElem_append_left hj] at this; exact this

/-- `a`'s last use is strictly older than `b`'s (both have been used) -/
def UsedBefore (ops : List (Op K V)) (a b : K) : Prop :=
  ∃ ta tb, lastUse ops a = some ta ∧ lastUse ops b = some tb ∧ ta < tb

/-- the operation may change the value stored under `k` in state `s`
    (a push of `k`, a clear, a front mutation while `k` is the front entry) -/
def writes (s : Cache K V) (op : Op K V) (k : K) : Bool :=
  match op with
  | .push k' _ => k' == k
  | .clear => true
  | .setFront _ => (s.items.head?.map (·.1)) == some k
  | _ => false

/-- no operation of `ops`, run from `s`, writes `k` -/
def Undisturbed (s : Cache K V) (ops : List (Op K V)) (k : K) : Prop :=
  match ops with
  | [] => True
  | op :: rest => writes s op k = false ∧ Undisturbed (step s op).1 rest k

/-- the values an operation hands over to the cache (a front mutation of an empty cache stores nothing) -/
def newValues (s : Cache K V) : Op K V → List V
  | .push _ v => [v]
  | .setFront v => if s.items.isEmpty then [] else [v]
  | _ => []

/-- all values handed over to the cache during a history that starts in `s` -/
def introduced (s : Cache K V) : List (Op K V) → List V
  | [] => []
  | op :: ops => newValues s op ++ introduced (step s op).1 ops

instance decUndisturbed (s : Cache K V) (ops : List (Op K V)) (k : K) : Decidable (Undisturbed s ops k) :=
  match ops with
  | [] => isTrue trivial
  | op :: rest =>
    match decUndisturbed (step s op).1 rest k with
    | isTrue h => if hw : writes s op k = false then isTrue ⟨hw, h⟩ else isFalse (fun hh => hw hh.1)
    | isFalse h => isFalse (fun hh => h hh.2)

end Tbx.LruSpec
