/-
Plain-array meaning of the Fenwick tree's queries (zero-based external indices):
  rank i      = v[0] + … + v[i]
  range i j   = v[i+1] + … + v[j]          (what both `range` and `slow_range` compute: rank j − rank i)
  update i x  : v[i] += x
  select x    = the largest index whose prefix sum is ≤ x (entries non-negative), None if there is none
-/
namespace Tbx.PrefixSum

/-- sum of the first p entries -/
def pre (v : List Int) (p : Nat) : Int := (v.take p).sum

def rank (v : List Int) (i : Nat) : Option Int := if i < v.length then some (pre v (i + 1)) else none

/-- v[i+1] + … + v[j] -/
def range (v : List Int) (i j : Nat) : Int := ((v.drop (i + 1)).take (j - i)).sum

def update (v : List Int) (i : Nat) (x : Int) : List Int := v.set i (v.getD i 0 + x)

/-- `r` is the answer of `select x` on an array of non-negative entries -/
def IsSelect (v : List Int) (x : Int) (r : Option Nat) : Prop :=
  match r with
  | none => ∀ i, i < v.length → x < pre v (i + 1)
  | some i => i < v.length ∧ pre v (i + 1) ≤ x ∧ ∀ i', i' < v.length → pre v (i' + 1) ≤ x → i' ≤ i

def isSelectB (v : List Int) (x : Int) (r : Option Nat) : Bool :=
  match r with
  | none => (List.range v.length).all fun i => decide (x < pre v (i + 1))
  | some i => decide (i < v.length) && decide (pre v (i + 1) ≤ x) &&
      (List.range v.length).all fun i' => !decide (pre v (i' + 1) ≤ x) || decide (i' ≤ i)

theorem isSelectB_iff (v : List Int) (x : Int) (r : Option Nat) : isSelectB v x r = true ↔ IsSelect v x r := by
  cases r with
  | none => simp [isSelectB, IsSelect]
  | some i =>
    simp only [isSelectB, IsSelect, Bool.and_eq_true, decide_eq_true_eq, List.all_eq_true, List.mem_range,
      Bool.or_eq_true, Bool.not_eq_eq_eq_not, Bool.not_true, decide_eq_false_iff_not]
    constructor
    · rintro ⟨⟨h1, h2⟩, h3⟩
      refine ⟨h1, h2, ?_⟩
      intro i' hi' hp
      rcases h3 i' hi' with h | h
      · exact absurd hp h
      · exact h
    · rintro ⟨h1, h2, h3⟩
      refine ⟨⟨h1, h2⟩, ?_⟩
      intro i' hi'
      by_cases hp : pre v (i' + 1) ≤ x
      · right; exact h3 i' hi' hp
      · left; exact hp

end Tbx.PrefixSum
