/-
Specs for the number codes of C20: zigzag, binomial coefficients, fixed-weight words (rank / unrank),
and the polyline format.  Nothing here mentions the algorithms of /repo; each definition is the
textbook meaning, short enough to read in a minute.  Core Lean only (the judge links these).
-/
namespace Tbx.Spec

/-! ### zigzag -/

/-- the zigzag interleaving 0, -1, 1, -2, 2, … ↦ 0, 1, 2, 3, 4, … -/
def zigzagNat (x : Int) : Nat := if 0 ≤ x then (2 * x).toNat else (-2 * x - 1).toNat

/-- its inverse on the naturals -/
def unzigzagNat (n : Nat) : Int := if n % 2 = 0 then (n / 2 : Nat) else -((n / 2 : Nat) : Int) - 1

/-- the usual bit-level inverse `(n >> 1) ^ -(n & 1)` on 32-bit words -/
def zigzagDecode (n : BitVec 32) : BitVec 32 := (n >>> 1) ^^^ (-(n &&& 1#32))

/-! ### binomial coefficients (Pascal's rule) -/

def binom : Nat → Nat → Nat
  | _, 0 => 1
  | 0, _ + 1 => 0
  | n + 1, k + 1 => binom n k + binom n (k + 1)

/-- next row of Pascal's triangle -/
def nextRow (row : List Nat) : List Nat := List.zipWith (· + ·) (0 :: row) (row ++ [0])

/-- row `n` of Pascal's triangle computed iteratively (what the judge uses) -/
def pascalRow : Nat → List Nat
  | 0 => [1]
  | n + 1 => nextRow (pascalRow n)

/-- rows 0..n -/
def pascalTable (n : Nat) : Array (Array Nat) := ((List.range (n + 1)).map fun i => (pascalRow i).toArray).toArray

def binomT (t : Array (Array Nat)) (n k : Nat) : Nat := (t.getD n #[]).getD k 0

/-! ### words of fixed weight -/

/-- number of ones among the bits `0..n-1` of `x` -/
def popcount : Nat → Nat → Nat
  | 0, _ => 0
  | n + 1, x => (if x.testBit n then 1 else 0) + popcount n x

/-- rank of `x` among the `n`-bit words of the same weight, in increasing order
    (combinatorial number system: a set bit at position `b` that is the `j`-th one from below
    contributes `binom b j`) -/
def rank : Nat → Nat → Nat
  | 0, _ => 0
  | n + 1, x => if x.testBit n then binom n (popcount (n + 1) x) + rank n x else rank n x

/-- `rank` with a precomputed table -/
def rankT (t : Array (Array Nat)) : Nat → Nat → Nat
  | 0, _ => 0
  | n + 1, x => if x.testBit n then binomT t n (popcount (n + 1) x) + rankT t n x else rankT t n x

/-- the pure unranking function: the `ord`-th `n`-bit word of weight `w` -/
def unrank : Nat → Nat → Nat → Nat
  | 0, _, _ => 0
  | n + 1, w, ord => if ord ≥ binom n w then 2 ^ n + unrank n (w - 1) (ord - binom n w) else unrank n w ord

/-! ### polyline format (Google's description), integer layer -/

/-- value of a little-endian sequence of 5-bit chunks -/
def chunksValue : List Nat → Nat
  | [] => 0
  | c :: cs => c % 32 + 32 * chunksValue cs

/-- split off one number: bytes are `chunk + 63`, a chunk `≥ 32` says "more follow" -/
def takeNumber : List Nat → Option (List Nat × List Nat)
  | [] => none
  | b :: rest =>
    if b < 63 then none
    else if b - 63 ≥ 32 then (takeNumber rest).map fun (cs, r) => ((b - 63) :: cs, r)
    else some ([b - 63], rest)

/-- all numbers of a byte string, zigzag-decoded -/
def numbers : Nat → List Nat → Option (List Int)
  | _, [] => some []
  | 0, _ :: _ => none
  | fuel + 1, bs =>
    match takeNumber bs with
    | none => none
    | some (cs, rest) => (numbers fuel rest).map fun l => unzigzagNat (chunksValue cs) :: l

/-- running sums of (lat, lon) deltas -/
def accumulate : List Int → Int → Int → Option (List (Int × Int))
  | [], _, _ => some []
  | [_], _, _ => none
  | a :: b :: rest, lat, lon => (accumulate rest (lat + a) (lon + b)).map fun l => (lat + a, lon + b) :: l

/-- what a polyline string means -/
def polylineMeaning (bs : List Nat) : Option (List (Int × Int)) :=
  (numbers bs.length bs).bind fun ds => accumulate ds 0 0

/-! ### exact comparison of f64 values given as bit patterns -/

/-- a finite f64 as `m * 2^e` (`none` for NaN / infinities) -/
def f64Parts (bits : Nat) : Option (Int × Int) :=
  let sign : Int := if bits / 2 ^ 63 % 2 = 1 then -1 else 1
  let ex : Nat := bits / 2 ^ 52 % 2048
  let fr : Nat := bits % 2 ^ 52
  if ex = 2047 then none
  else if ex = 0 then some (sign * (fr : Int), -1074)
  else some (sign * ((fr + 2 ^ 52 : Nat) : Int), (ex : Int) - 1075)

/-- `|a·2^ea · num − n · den| · 2 ≤ den + slackNum/slackDen`-style comparisons are done on integers:
    `scaledDiff (m, e) num n` returns `(A, B)` with `m·2^e·num − n = A / B`, `B > 0` a power of two -/
def scaledDiff (p : Int × Int) (num : Int) (n : Int) : Int × Int :=
  if p.2 ≥ 0 then (p.1 * 2 ^ p.2.toNat * num - n, 1)
  else (p.1 * num - n * 2 ^ (-p.2).toNat, 2 ^ (-p.2).toNat)

end Tbx.Spec
