import Tbx.Model.KWayMerge
/-
What the k-way merge iterator needs from a `MergeTree`, independent of any implementation:
seen through `slot : state → run index → Option item` (at most one live entry per run index),

  * `push` of an entry for a free slot below the capacity succeeds and fills exactly that slot,
  * `pop` returns `None` only if every slot is free, and otherwise an entry that is live and whose
    item is minimal among all live entries, and frees exactly that slot.

`BinaryHeap<MergeEntry<T>>` satisfies this by the std contract of a max-heap under the reversed
order of `MergeEntry`; the loser tree is PROVED to satisfy it (`Tbx.Props.C18.loserTreeSpec`).
-/
namespace Tbx.KWay

structure TreeSpec {σ : Type} (T : MTree σ) (cap : Nat) where
  ok : σ → Prop
  slot : σ → Nat → Option Int
  push_ok : ∀ s (e : Entry), ok s → e.index < cap → slot s e.index = none →
    ∃ s', T.push s e = some s' ∧ ok s' ∧ ∀ j, slot s' j = if j = e.index then some e.item else slot s j
  pop_ok : ∀ s, ok s → ∃ r s', T.pop s = some (r, s') ∧ ok s' ∧
    match r with
    | none => (∀ j, slot s j = none) ∧ (∀ j, slot s' j = none)
    | some e => slot s e.index = some e.item ∧ (∀ j y, slot s j = some y → e.item ≤ y) ∧
                ∀ j, slot s' j = if j = e.index then none else slot s j

end Tbx.KWay
