/-
Meaning of property C19's exact (integer) clauses, independent of any algorithm.

* `Coord`        fixed-point coordinate (micro-degrees), `ValidCoord` = the latitude/longitude range
* `cross`        integer orientation test  (a - o) x (b - o)  with x = lon, y = lat
                 (`> 0` is what /repo calls a "clockwise turn")
* `IsHullOf`     what a correct hull of more than three points is: input points only, and either a
                 strictly convex polygon enclosing every input point, or the two end points of the
                 segment carrying all points, or copies of the single point
* `zkey`         interleaved 64-bit key of the z-order (sign bit flipped, latitude bit above the
                 longitude bit of every pair)
* box clauses    componentwise minimum / maximum

Every predicate has a decidable checker with a soundness theorem; the judge in
`Tbx/Drv/C19.lean` uses the checkers on the implementation's output.  Core Lean only.
-/
namespace Tbx.Geo

structure Coord where
  lat : Int
  lon : Int
deriving DecidableEq, Repr, Inhabited

/-- the valid latitude / longitude range in micro-degrees -/
def ValidCoord (c : Coord) : Prop :=
  -90000000 ≤ c.lat ∧ c.lat ≤ 90000000 ∧ -180000000 ≤ c.lon ∧ c.lon ≤ 180000000

instance (c : Coord) : Decidable (ValidCoord c) := by unfold ValidCoord; infer_instance

/-- orientation of the triple (o, a, b): twice the signed area, x = lon, y = lat -/
def cross (o a b : Coord) : Int :=
  (a.lon - o.lon) * (b.lat - o.lat) - (a.lat - o.lat) * (b.lon - o.lon)

/-! ### hulls -/

/-- directed edges of the closed polygon through the vertex list: (h_i, h_{i+1 mod k}) -/
def edges : List Coord → List (Coord × Coord)
  | [] => []
  | x :: xs => (x :: xs).zip (xs ++ [x])

/-- every point of `pts` is on the inner side of (or on) every edge; `s = 1`: inner side is where
`cross > 0`, `s = -1`: the polygon is traversed the other way round -/
def Encloses (s : Int) (h pts : List Coord) : Prop :=
  ∀ e ∈ edges h, ∀ p ∈ pts, 0 ≤ s * cross e.1 e.2 p

/-- global strict convexity: at least three pairwise different vertices, and every vertex other than
an edge's own end points lies strictly on the inner side of that edge (so no three vertices are
collinear, the polygon is simple and winds around once) -/
def StrictlyConvex (s : Int) (h : List Coord) : Prop :=
  3 ≤ h.length ∧ h.Nodup ∧ ∀ e ∈ edges h, ∀ p ∈ h, p ≠ e.1 → p ≠ e.2 → 0 < s * cross e.1 e.2 p

/-- `p` lies on the closed segment from `a` to `b` -/
def OnSegment (a b p : Coord) : Prop :=
  cross a b p = 0 ∧ min a.lat b.lat ≤ p.lat ∧ p.lat ≤ max a.lat b.lat ∧
  min a.lon b.lon ≤ p.lon ∧ p.lon ≤ max a.lon b.lon

instance (a b p : Coord) : Decidable (OnSegment a b p) := by unfold OnSegment; infer_instance

/-- the three shapes the property allows for the hull of more than three points -/
def IsPolygonHull (h pts : List Coord) : Prop :=
  ∃ s : Int, (s = 1 ∨ s = -1) ∧ StrictlyConvex s h ∧ Encloses s h pts
def IsSegmentHull (h pts : List Coord) : Prop :=
  ∃ a b, a ≠ b ∧ h = [a, b] ∧ ∀ p ∈ pts, OnSegment a b p
def IsPointHull (h pts : List Coord) : Prop :=
  ∃ a, h ≠ [] ∧ (∀ v ∈ h, v = a) ∧ ∀ p ∈ pts, p = a

/-- a correct hull of the point list `pts` (more than three points) -/
def IsHullOf (h pts : List Coord) : Prop :=
  (∀ v ∈ h, v ∈ pts) ∧ (IsPolygonHull h pts ∨ IsSegmentHull h pts ∨ IsPointHull h pts)

/-- what `monotone_chain` owes for any input: up to three points are returned as they are -/
def HullSpec (pts h : List Coord) : Prop :=
  if pts.length ≤ 3 then h = pts else IsHullOf h pts

/-! decidable checkers -/

def enclosesB (s : Int) (h pts : List Coord) : Bool :=
  (edges h).all fun e => pts.all fun p => decide (0 ≤ s * cross e.1 e.2 p)

def nodupB : List Coord → Bool
  | [] => true
  | x :: xs => !xs.contains x && nodupB xs

def strictlyConvexB (s : Int) (h : List Coord) : Bool :=
  decide (3 ≤ h.length) && nodupB h &&
  (edges h).all fun e => h.all fun p => p == e.1 || p == e.2 || decide (0 < s * cross e.1 e.2 p)

def isPolygonHullB (h pts : List Coord) : Bool :=
  (strictlyConvexB 1 h && enclosesB 1 h pts) || (strictlyConvexB (-1) h && enclosesB (-1) h pts)

def isSegmentHullB (h pts : List Coord) : Bool :=
  match h with
  | [a, b] => a != b && pts.all fun p => decide (OnSegment a b p)
  | _ => false

def isPointHullB (h pts : List Coord) : Bool :=
  match h with
  | [] => false
  | a :: _ => h.all (· == a) && pts.all (· == a)

def isHullOfB (h pts : List Coord) : Bool :=
  h.all (fun v => pts.contains v) && (isPolygonHullB h pts || isSegmentHullB h pts || isPointHullB h pts)

def hullSpecB (pts h : List Coord) : Bool :=
  if pts.length ≤ 3 then h == pts else isHullOfB h pts

theorem enclosesB_iff (s : Int) (h pts : List Coord) : enclosesB s h pts = true ↔ Encloses s h pts := by
  simp [enclosesB, Encloses]

theorem nodupB_iff (l : List Coord) : nodupB l = true ↔ l.Nodup := by
  induction l with
  | nil => simp [nodupB]
  | cons x xs ih => simp [nodupB, ih]

theorem strictlyConvexB_iff (s : Int) (h : List Coord) :
    strictlyConvexB s h = true ↔ StrictlyConvex s h := by
  simp only [strictlyConvexB, StrictlyConvex, Bool.and_eq_true, decide_eq_true_eq, nodupB_iff,
    List.all_eq_true, Bool.or_eq_true, beq_iff_eq]
  constructor
  · rintro ⟨⟨h1, h2⟩, h3⟩
    refine ⟨h1, h2, ?_⟩
    intro e he p hp n1 n2
    rcases h3 e he p hp with (h | h) | h
    · exact absurd h n1
    · exact absurd h n2
    · exact h
  · rintro ⟨h1, h2, h3⟩
    refine ⟨⟨h1, h2⟩, ?_⟩
    intro e he p hp
    by_cases n1 : p = e.1
    · exact Or.inl (Or.inl n1)
    · by_cases n2 : p = e.2
      · exact Or.inl (Or.inr n2)
      · exact Or.inr (h3 e he p hp n1 n2)

theorem isPolygonHullB_iff (h pts : List Coord) : isPolygonHullB h pts = true ↔ IsPolygonHull h pts := by
  simp only [isPolygonHullB, IsPolygonHull, Bool.or_eq_true, Bool.and_eq_true, strictlyConvexB_iff,
    enclosesB_iff]
  constructor
  · rintro (⟨h1, h2⟩ | ⟨h1, h2⟩)
    · exact ⟨1, Or.inl rfl, h1, h2⟩
    · exact ⟨-1, Or.inr rfl, h1, h2⟩
  · rintro ⟨s, hs | hs, h1, h2⟩
    · subst hs; exact Or.inl ⟨h1, h2⟩
    · subst hs; exact Or.inr ⟨h1, h2⟩

theorem isSegmentHullB_iff (h pts : List Coord) : isSegmentHullB h pts = true ↔ IsSegmentHull h pts := by
  unfold isSegmentHullB IsSegmentHull
  constructor
  · intro hb
    split at hb
    · rename_i a b
      simp only [Bool.and_eq_true, bne_iff_ne, ne_eq, List.all_eq_true, decide_eq_true_eq] at hb
      exact ⟨a, b, hb.1, rfl, hb.2⟩
    · cases hb
  · rintro ⟨a, b, hne, rfl, hp⟩
    simp only [Bool.and_eq_true, bne_iff_ne, ne_eq, List.all_eq_true, decide_eq_true_eq]
    exact ⟨hne, hp⟩

theorem isPointHullB_iff (h pts : List Coord) : isPointHullB h pts = true ↔ IsPointHull h pts := by
  unfold isPointHullB IsPointHull
  cases h with
  | nil => simp
  | cons a t =>
    simp only [Bool.and_eq_true, List.all_eq_true, beq_iff_eq, ne_eq, reduceCtorEq, not_false_eq_true,
      true_and]
    constructor
    · rintro ⟨h1, h2⟩
      exact ⟨a, h1, h2⟩
    · rintro ⟨b, h1, h2⟩
      have hab : a = b := h1 a (List.mem_cons_self)
      subst hab
      exact ⟨h1, h2⟩

/-- the judge's hull check is exactly the Spec -/
theorem isHullOfB_iff (h pts : List Coord) : isHullOfB h pts = true ↔ IsHullOf h pts := by
  simp only [isHullOfB, IsHullOf, Bool.and_eq_true, Bool.or_eq_true, List.all_eq_true,
    List.contains_iff_mem, isPolygonHullB_iff, isSegmentHullB_iff, isPointHullB_iff]
  constructor
  · rintro ⟨h1, (h2 | h2) | h2⟩
    · exact ⟨h1, Or.inl h2⟩
    · exact ⟨h1, Or.inr (Or.inl h2)⟩
    · exact ⟨h1, Or.inr (Or.inr h2)⟩
  · rintro ⟨h1, h2 | h2 | h2⟩
    · exact ⟨h1, Or.inl (Or.inl h2)⟩
    · exact ⟨h1, Or.inl (Or.inr h2)⟩
    · exact ⟨h1, Or.inr h2⟩

theorem hullSpecB_iff (pts h : List Coord) : hullSpecB pts h = true ↔ HullSpec pts h := by
  unfold hullSpecB HullSpec
  split
  · simp
  · exact isHullOfB_iff h pts

/-! ### z-order -/

/-- an i32 with its sign bit flipped, read as an unsigned number (order preserving) -/
def off32 (x : Int) : Nat := (x + 2147483648).toNat

/-- bit interleaving of two `n`-bit numbers; bit i of `hi` lands on bit 2i+1, bit i of `lo` on bit 2i -/
def interleave : Nat → Nat → Nat → Nat
  | 0, _, _ => 0
  | n + 1, hi, lo => 4 * interleave n (hi / 2) (lo / 2) + 2 * (hi % 2) + lo % 2

/-- position of a coordinate on the z-order curve: latitude is the more significant bit of each pair -/
def zkey (c : Coord) : Nat := interleave 32 (off32 c.lat) (off32 c.lon)

def InI32 (x : Int) : Prop := -2147483648 ≤ x ∧ x ≤ 2147483647
instance (x : Int) : Decidable (InI32 x) := by unfold InI32; infer_instance
def CoordI32 (c : Coord) : Prop := InI32 c.lat ∧ InI32 c.lon
instance (c : Coord) : Decidable (CoordI32 c) := by unfold CoordI32; infer_instance

/-- the order the property demands: a strict total order consistent with equality, given by the key -/
def zcmpSpec (a b : Coord) : Ordering := compare (zkey a) (zkey b)

/-! ### bounding boxes -/

structure BoxCorners where
  minLat : Int
  minLon : Int
  maxLat : Int
  maxLon : Int
deriving DecidableEq, Repr, Inhabited

/-- a coordinate is between the corners -/
def Between (b : BoxCorners) (q : Coord) : Prop :=
  b.minLat ≤ q.lat ∧ q.lat ≤ b.maxLat ∧ b.minLon ≤ q.lon ∧ q.lon ≤ b.maxLon

instance (b : BoxCorners) (q : Coord) : Decidable (Between b q) := by unfold Between; infer_instance

/-- `b` is the tightest box around the (non-empty) list: every corner value is attained and bounds all -/
def IsBoxOf (b : BoxCorners) (cs : List Coord) : Prop :=
  (∀ c ∈ cs, Between b c) ∧
  (∃ c ∈ cs, c.lat = b.minLat) ∧ (∃ c ∈ cs, c.lon = b.minLon) ∧
  (∃ c ∈ cs, c.lat = b.maxLat) ∧ (∃ c ∈ cs, c.lon = b.maxLon)

def isBoxOfB (b : BoxCorners) (cs : List Coord) : Bool :=
  cs.all (fun c => decide (Between b c)) &&
  cs.any (fun c => c.lat == b.minLat) && cs.any (fun c => c.lon == b.minLon) &&
  cs.any (fun c => c.lat == b.maxLat) && cs.any (fun c => c.lon == b.maxLon)

theorem isBoxOfB_iff (b : BoxCorners) (cs : List Coord) : isBoxOfB b cs = true ↔ IsBoxOf b cs := by
  simp only [isBoxOfB, IsBoxOf, Bool.and_eq_true, List.all_eq_true, decide_eq_true_eq, List.any_eq_true,
    beq_iff_eq]
  constructor
  · rintro ⟨⟨⟨⟨h1, h2⟩, h3⟩, h4⟩, h5⟩
    exact ⟨h1, h2, h3, h4, h5⟩
  · rintro ⟨h1, h2, h3, h4, h5⟩
    exact ⟨⟨⟨⟨h1, h2⟩, h3⟩, h4⟩, h5⟩

/-- the smallest box containing both -/
def joinCorners (a b : BoxCorners) : BoxCorners :=
  ⟨min a.minLat b.minLat, min a.minLon b.minLon, max a.maxLat b.maxLat, max a.maxLon b.maxLon⟩

/-- closest point of a (valid) box to `q`: componentwise clamp -/
def clampInto (b : BoxCorners) (q : Coord) : Coord :=
  ⟨max b.minLat (min q.lat b.maxLat), max b.minLon (min q.lon b.maxLon)⟩

end Tbx.Geo
