import Tbx.Model.Arr
/-
Spec for C01 / C02 — what "the reported number is the maximum s-t flow value" and "the returned
assignment is the canonical minimum cut" are checked against, as *executable* certificate checkers.
Core Lean only (the drivers link this file).  Nothing here knows about any max-flow algorithm.

An input is a list of edges `(source, target, capacity)`.  The solvers work on a residual graph; its
final state is handed to the checker as a list of `(source, target, residual capacity)` triples
(duplicates allowed: everything is defined through sums).  With

    c u v = Σ capacities of input edges u→v          (`capOf edges u v`)
    r u v = Σ residual capacities of entries u→v      (`capOf residual u v`)
    f u v = c u v − r u v                             (`flowOf`)

`certOK` accepts iff   r ≥ 0,   r u v + r v u = c u v + c v u   (so f is antisymmetric and f ≤ c),
f is conserved at every node other than s and t,   the reported value is the net outflow of s,   and
there is a set of nodes containing s but not t that no positive residual entry leaves.
`Tbx.FlowTheory.certOK_sound` (Proofs/FlowTheory.lean) shows that this implies
`IsMaxFlowValue c s t value`: a flow of that value exists and no flow has a larger one.
-/
namespace Tbx.FlowSpec
open Tbx

/-- (source, target, capacity) -/
abbrev E := Nat × Nat × Int

/-- sum of the capacities of all entries `u → v` -/
def capOf (es : List E) (u v : Nat) : Int :=
  (es.map fun e => if e.1 = u ∧ e.2.1 = v then e.2.2 else 0).sum

def maxId (es : List E) : Nat := es.foldr (fun e m => max (max e.1 e.2.1) m) 0

/-- number of nodes: largest id that occurs + 1 (this is how `StaticGraph` sizes its arrays) -/
def nNodes (es : List E) : Nat := maxId es + 1

def sumTo (n : Nat) (g : Nat → Int) : Int := ((List.range n).map g).sum
def allTo (n : Nat) (p : Nat → Bool) : Bool := (List.range n).all p

/-- one round of "add the heads of positive entries whose tail is already in the list" -/
def grow (n : Nat) (res : List E) (cur : List Nat) : List Nat :=
  cur ++ (res.filter fun e => decide (0 < e.2.2) && cur.contains e.1 && decide (e.2.1 < n)).map (·.2.1)

def closureL (n : Nat) (res : List E) (s : Nat) : Nat → List Nat
  | 0 => [s]
  | k + 1 => grow n res (closureL n res s k)

/-- nodes reachable from `s` through entries of positive capacity (n rounds reach everything) -/
def closure (n : Nat) (res : List E) (s : Nat) : List Nat := closureL n res s n

/-- no entry of positive capacity leads from inside the set to outside -/
def closedUnder (res : List E) (inS : Nat → Bool) : Bool :=
  res.all fun e => !inS e.1 || inS e.2.1 || decide (e.2.2 ≤ 0)

def nonnegAll (res : List E) : Bool := res.all fun e => decide (0 ≤ e.2.2)

def pairOK (n : Nat) (c r : Nat → Nat → Int) : Bool :=
  allTo n fun u => allTo n fun v => decide (r u v + r v u = c u v + c v u)

def conservedOK (n : Nat) (c r : Nat → Nat → Int) (s t : Nat) : Bool :=
  allTo n fun u => u == s || u == t || decide (sumTo n (fun v => c u v - r u v) = 0)

def valueOf (n : Nat) (c r : Nat → Nat → Int) (s : Nat) : Int := sumTo n (fun v => c s v - r s v)

/-- the certificate check with the two capacity functions as parameters (only their values on
    `[0,n) × [0,n)` are used); `res` is the list `r` was obtained from -/
def certCore (n : Nat) (c r : Nat → Nat → Int) (s t : Nat) (res : List E) (value : Int) : Bool :=
  let cl := closure n res s
  decide (s < n) && decide (t < n) && decide (s ≠ t) &&
  nonnegAll res && pairOK n c r && conservedOK n c r s t &&
  decide (value = valueOf n c r s) &&
  !cl.contains t && closedUnder res (fun v => cl.contains v)

/-- the max-flow certificate check (C01), reference version: capacities are list sums -/
def certOK (es : List E) (s t : Nat) (res : List E) (value : Int) : Bool :=
  certCore (nNodes es) (capOf es) (capOf res) s t res value

/-- n×n matrix of merged capacities (row-major); entries with an id ≥ n are ignored -/
def matOf (n : Nat) (es : List E) : Array Int :=
  es.foldl (fun M e =>
    if e.1 < n ∧ e.2.1 < n then st M (e.1 * n + e.2.1) (gt M (e.1 * n + e.2.1) + e.2.2) else M)
    (Array.replicate (n * n) 0)

def look (n : Nat) (M : Array Int) (u v : Nat) : Int := gt M (u * n + v)

/-- the same check with the capacity sums tabulated once (what the judge runs;
    `Tbx.FlowTheory.certFast_eq`: it is equal to `certOK`) -/
def certFast (es : List E) (s t : Nat) (res : List E) (value : Int) : Bool :=
  let n := nNodes es
  let C := matOf n es
  let R := matOf n res
  certCore n (look n C) (look n R) s t res value

/-- capacity of the *input* edges that lead from the set to its complement -/
def cutCapL (es : List E) (inA : Nat → Bool) : Int :=
  (es.map fun e => if inA e.1 && !inA e.2.1 then e.2.2 else 0).sum

/-- the parts of the canonical-min-cut check (C02) that come on top of the certificate: the bit vector
    `bits` (one bit per node) contains s, not t, the input edges leaving it carry exactly `value`, no
    positive residual entry leaves it, and every member is reachable from s through positive entries -/
def cutPart (es : List E) (s t : Nat) (res : List E) (value : Int) (bits : List Bool) : Bool :=
  let n := nNodes es
  let inA := fun v => bits.getD v false
  let cl := closure n res s
  decide (bits.length = n) && inA s && !inA t &&
  decide (cutCapL es inA = value) &&
  closedUnder res inA &&
  allTo n (fun v => !inA v || cl.contains v)

/-- the canonical-min-cut check (C02), reference version -/
def minCutOK (es : List E) (s t : Nat) (res : List E) (value : Int) (bits : List Bool) : Bool :=
  certOK es s t res value && cutPart es s t res value bits

/-- what the judge runs (equal to `minCutOK`: `Tbx.FlowTheory.minCutFast_eq`) -/
def minCutFast (es : List E) (s t : Nat) (res : List E) (value : Int) (bits : List Bool) : Bool :=
  certFast es s t res value && cutPart es s t res value bits

/-- which conjunct of `certFast` fails first (diagnostic text for the judge; `certFast` decides) -/
def certWhy (es : List E) (s t : Nat) (res : List E) (value : Int) : String :=
  let n := nNodes es
  let c := look n (matOf n es)
  let r := look n (matOf n res)
  let cl := closure n res s
  if !(decide (s < n) && decide (t < n) && decide (s ≠ t)) then "source/target out of range or equal"
  else if !nonnegAll res then "a residual capacity is negative"
  else if !pairOK n c r then "r(u,v)+r(v,u) differs from c(u,v)+c(v,u) for some pair"
  else if !conservedOK n c r s t then "flow is not conserved at some inner node"
  else if !decide (value = valueOf n c r s) then
    s!"reported value {value} is not the net outflow {valueOf n c r s} of the source"
  else if cl.contains t then
    s!"the target is still reachable in the residual graph (flow {value} is not maximum)"
  else if !closedUnder res (fun v => cl.contains v) then "closure not closed (checker bug)"
  else "ok"

def minCutWhy (es : List E) (s t : Nat) (res : List E) (value : Int) (bits : List Bool) : String :=
  let n := nNodes es
  let inA := fun v => bits.getD v false
  let cl := closure n res s
  if !certFast es s t res value then "certificate: " ++ certWhy es s t res value
  else if !decide (bits.length = n) then s!"assignment has {bits.length} bits for {n} nodes"
  else if !inA s then "assignment does not contain the source"
  else if inA t then "assignment contains the target"
  else if !decide (cutCapL es inA = value) then
    s!"input edges leaving the assignment carry {cutCapL es inA}, reported flow is {value}"
  else if !closedUnder res inA then "a positive residual edge leaves the assignment"
  else if !allTo n (fun v => !inA v || cl.contains v) then
    "assignment contains a node that is not reachable from the source in the residual graph (not the minimal min cut)"
  else "ok"

end Tbx.FlowSpec
