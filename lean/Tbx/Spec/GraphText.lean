import Tbx.Model.Bincode
/-
C07 Spec: what an abstract DIMACS / METIS / DDSG file *describes*, independent of any parser.
(Only the two record types `InputEdge` / `FPCoordinate` are shared with the model.)

An abstract file is the list of its meaningful items in file order.  The graph it describes is a list
of directed weighted edges with 0-based node ids, without self-loops, in file order:

* DIMACS `.gr`: `c` comment lines, `p sp n m`, `a u v w` with 1-based u, v: edge (u-1, v-1, w).
* DIMACS `.co`: `c`, `p aux sp co n`, `v id lon lat` with integer coordinates copied as they are.
* METIS: header `n m`, then line i (0-based) lists the 1-based neighbours of node i; an empty line is an
  isolated node; every edge has weight 1.
* DDSG: `d`, `n m`, then `u v w dir` with 0-based u, v and dir 0 = open in both directions (u->v then
  v->u), 1 = forward only, 2 = backward only (v->u), 3 = closed (no edge).
* METIS / DDSG coordinates: decimal numbers in units of 1e-5 degree, lon before lat; the stored value
  is in micro-degrees and may deviate by at most one micro-degree (`WithinMicro`).

The judge of the driver evaluates exactly these functions on the abstract description that the
generator attaches to every text line and compares with what the real pipeline wrote and read back.
-/
namespace Tbx.GraphSpec
open Tbx.Bincode

/-! ### DIMACS -/

inductive DimacsItem where
  | comment
  | problem (n m : Nat)
  | arc (u v w : Nat)            -- 1-based ids
deriving DecidableEq, Repr, Inhabited

def dimacsEdges : List DimacsItem → List InputEdge
  | [] => []
  | .arc u v w :: r => if u = v then dimacsEdges r else ⟨u - 1, v - 1, w⟩ :: dimacsEdges r
  | _ :: r => dimacsEdges r

/-- ids are 1-based -/
def DimacsWF (F : List DimacsItem) : Prop :=
  ∀ u v w, DimacsItem.arc u v w ∈ F → 1 ≤ u ∧ 1 ≤ v

inductive DimacsCoItem where
  | comment
  | problem (n : Nat)
  | vertex (id : Nat) (lon lat : Int)
deriving DecidableEq, Repr, Inhabited

def dimacsCoords : List DimacsCoItem → List FPCoordinate
  | [] => []
  | .vertex _ lon lat :: r => ⟨lat, lon⟩ :: dimacsCoords r
  | _ :: r => dimacsCoords r

/-! ### METIS -/

/-- the edges of the adjacency lines of nodes `i, i+1, …` -/
def metisEdgesFrom : Nat → List (List Nat) → List InputEdge
  | _, [] => []
  | i, nbrs :: r =>
    (nbrs.filter (fun t => t - 1 ≠ i)).map (fun t => ⟨i, t - 1, 1⟩) ++ metisEdgesFrom (i + 1) r

def metisEdges (adj : List (List Nat)) : List InputEdge := metisEdgesFrom 0 adj

/-- `n` nodes: at most `n` adjacency lines, neighbours in 1..n -/
def MetisWF (n : Nat) (adj : List (List Nat)) : Prop :=
  adj.length ≤ n ∧ ∀ nbrs ∈ adj, ∀ t ∈ nbrs, 1 ≤ t ∧ t ≤ n

/-! ### DDSG -/

structure DdsgArc where
  u : Nat
  v : Nat
  w : Nat
  dir : Nat                     -- 0 both, 1 forward, 2 backward, 3 closed
deriving DecidableEq, Repr, Inhabited

def ddsgArcEdges (a : DdsgArc) : List InputEdge :=
  if a.u = a.v then []
  else if a.dir = 0 then [⟨a.u, a.v, a.w⟩, ⟨a.v, a.u, a.w⟩]
  else if a.dir = 1 then [⟨a.u, a.v, a.w⟩]
  else if a.dir = 2 then [⟨a.v, a.u, a.w⟩]
  else []

def ddsgEdges : List DdsgArc → List InputEdge
  | [] => []
  | a :: r => ddsgArcEdges a ++ ddsgEdges r

def DdsgWF (arcs : List DdsgArc) : Prop := ∀ a ∈ arcs, a.dir ≤ 3

/-! ### decimal coordinates (METIS, DDSG) -/

/-- the decimal number `mant / 10^scale`, in units of 1e-5 degree -/
structure Dec where
  mant : Int
  scale : Nat
deriving DecidableEq, Repr, Inhabited

/-- `r` micro-degrees is within one micro-degree of `d`·1e-5 degrees:
|r − 10·mant/10^scale| ≤ 1, cleared of the denominator -/
def WithinMicro (d : Dec) (r : Int) : Prop :=
  r * 10 ^ d.scale - 10 * d.mant ≤ 10 ^ d.scale ∧ 10 * d.mant - r * 10 ^ d.scale ≤ 10 ^ d.scale

def withinMicroB (d : Dec) (r : Int) : Bool :=
  decide (r * 10 ^ d.scale - 10 * d.mant ≤ 10 ^ d.scale) && decide (10 * d.mant - r * 10 ^ d.scale ≤ 10 ^ d.scale)

theorem withinMicroB_iff (d : Dec) (r : Int) : withinMicroB d r = true ↔ WithinMicro d r := by
  simp [withinMicroB, WithinMicro]

/-- coordinates (lon, lat as decimals) against stored coordinates -/
def CoordsWithin : List (Dec × Dec) → List FPCoordinate → Prop
  | [], [] => True
  | (lon, lat) :: ds, c :: cs => WithinMicro lat c.lat ∧ WithinMicro lon c.lon ∧ CoordsWithin ds cs
  | _, _ => False

def coordsWithinB : List (Dec × Dec) → List FPCoordinate → Bool
  | [], [] => true
  | (lon, lat) :: ds, c :: cs => withinMicroB lat c.lat && withinMicroB lon c.lon && coordsWithinB ds cs
  | _, _ => false

theorem coordsWithinB_iff (ds : List (Dec × Dec)) (cs : List FPCoordinate) :
    coordsWithinB ds cs = true ↔ CoordsWithin ds cs := by
  induction ds generalizing cs with
  | nil => cases cs <;> simp [coordsWithinB, CoordsWithin]
  | cons d ds ih =>
    obtain ⟨lon, lat⟩ := d
    cases cs with
    | nil => simp [coordsWithinB, CoordsWithin]
    | cons c cs =>
      simp only [coordsWithinB, CoordsWithin, Bool.and_eq_true, withinMicroB_iff, ih, and_assoc]

/-! ### what the pipeline must deliver -/

/-- the intermediate file decodes (completely) to the described list, and the loader read back the same -/
def Delivered {α : Type} (dec : List Nat → Option (List α × List Nat)) (bytes : List Nat)
    (readBack expected : List α) : Prop :=
  dec bytes = some (expected, []) ∧ readBack = expected

def deliveredB {α : Type} [DecidableEq α] (dec : List Nat → Option (List α × List Nat)) (bytes : List Nat)
    (readBack expected : List α) : Bool :=
  decide (dec bytes = some (expected, [])) && decide (readBack = expected)

theorem deliveredB_iff {α : Type} [DecidableEq α] (dec : List Nat → Option (List α × List Nat))
    (bytes : List Nat) (readBack expected : List α) :
    deliveredB dec bytes readBack expected = true ↔ Delivered dec bytes readBack expected := by
  simp [deliveredB, Delivered]

end Tbx.GraphSpec
