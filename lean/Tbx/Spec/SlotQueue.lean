/-
Reference for the loser tree used as a slot-indexed queue: the state is just the content of the
slots.  `IsMinSlot q s x`: slot s is live with item x and no live slot holds a smaller item.
-/
namespace Tbx.SlotQueue

abbrev Q := List (Option Int)

def empty (cap : Nat) : Q := List.replicate cap none
def live (q : Q) : Nat := (q.filter Option.isSome).length
def free (q : Q) (s : Nat) : Bool := s < q.length && (q.getD s none).isNone
def push (q : Q) (s : Nat) (x : Int) : Q := q.set s (some x)
def remove (q : Q) (s : Nat) : Q := q.set s none
def clear (q : Q) : Q := List.replicate q.length none

def IsMinSlot (q : Q) (s : Nat) (x : Int) : Prop :=
  q[s]? = some (some x) ∧ ∀ (j : Nat) (y : Int), q[j]? = some (some y) → x ≤ y

def isMinSlotB (q : Q) (s : Nat) (x : Int) : Bool :=
  q[s]? == some (some x) && q.all fun o => match o with
    | some y => decide (x ≤ y)
    | none => true

theorem isMinSlotB_iff (q : Q) (s : Nat) (x : Int) : isMinSlotB q s x = true ↔ IsMinSlot q s x := by
  unfold isMinSlotB IsMinSlot
  simp only [Bool.and_eq_true, beq_iff_eq, List.all_eq_true]
  constructor
  · rintro ⟨h1, h2⟩
    refine ⟨h1, ?_⟩
    intro j y hj
    have hm : some y ∈ q := List.mem_of_getElem? hj
    have := h2 _ hm
    simpa using this
  · rintro ⟨h1, h2⟩
    refine ⟨h1, ?_⟩
    intro o ho
    cases o with
    | none => rfl
    | some y =>
      obtain ⟨j, hj, hj2⟩ := List.mem_iff_getElem.mp ho
      have : q[j]? = some (some y) := by rw [List.getElem?_eq_getElem hj, hj2]
      simpa using h2 j y this

end Tbx.SlotQueue
