/-
Exact reading of IEEE-754 binary64 bit patterns, used by the C19 judge to apply tolerances to the
values computed by the real code without any floating-point arithmetic of its own: every finite
double is the dyadic rational `m * 2^e`; differences and comparisons are done on integers.
-/
namespace Tbx.F64

/-- the rational `m * 2^e` -/
structure Dy where
  m : Int
  e : Int
deriving Repr, Inhabited

/-- finite doubles only (`none` for infinities and NaN) -/
def decode (bits : Nat) : Option Dy :=
  let s : Nat := bits / 2 ^ 63 % 2
  let ex : Nat := bits / 2 ^ 52 % 2048
  let f : Nat := bits % 2 ^ 52
  if ex = 2047 then none
  else
    let mn : Nat := if ex = 0 then f else 2 ^ 52 + f
    let m : Int := Int.ofNat mn
    let e : Int := if ex = 0 then -1074 else Int.ofNat ex - 1075
    some ⟨if s = 1 then -m else m, e⟩

def ofInt (n : Int) : Dy := ⟨n, 0⟩

/-- a - b -/
def sub (a b : Dy) : Dy :=
  let e := min a.e b.e
  ⟨a.m * 2 ^ (a.e - e).toNat - b.m * 2 ^ (b.e - e).toNat, e⟩

def isZero (a : Dy) : Bool := a.m == 0
def le (a b : Dy) : Bool := decide ((sub a b).m ≤ 0)
def lt (a b : Dy) : Bool := decide ((sub a b).m < 0)
def eq (a b : Dy) : Bool := (sub a b).m == 0

/-- |d| < p / q  (q > 0) -/
def absLt (d : Dy) (p q : Nat) : Bool :=
  if d.e ≥ 0 then decide (d.m.natAbs * q * 2 ^ d.e.toNat < p)
  else decide (d.m.natAbs * q < p * 2 ^ (-d.e).toNat)

/-- |a - b| < p / q -/
def within (a b : Dy) (p q : Nat) : Bool := absLt (sub a b) p q

/-- |a| ≤ p / q -/
def absLe (d : Dy) (p q : Nat) : Bool :=
  if d.e ≥ 0 then decide (d.m.natAbs * q * 2 ^ d.e.toNat ≤ p)
  else decide (d.m.natAbs * q ≤ p * 2 ^ (-d.e).toNat)

def dmin (a b : Dy) : Dy := if le a b then a else b

end Tbx.F64
