import Tbx.Spec.Flow
/-
Spec for C03 — what "one inertial-flow bisection step returns a valid, minimum, balanced cut" means,
independent of `sub_step`, its renumbering table and of any max-flow algorithm.  Core Lean only.

A cell is a list of node ids `cell` (given here in key order: `sorted`), and a list of directed edges
`(u, v)` whose sources lie in the cell; targets may lie outside.  With `k` = size of contraction,
`S = sorted.take k` (first along the axis) and `T = sorted.drop (n - k)` (last along the axis).

`Valid edges sorted k flow left right` is the property's statement:
  disjoint     left ∩ right = ∅
  cover        left ∪ right = the cell ids that were contracted or are touched by an edge
  endsL/endsR  S ⊆ left, T ⊆ right
  flowCounts   flow = number of edges leading from the left set to the right set
  minimal      flow ≤ number of cell edges leaving L, for EVERY side L with S ⊆ L, T ∩ L = ∅
               (edges to nodes outside the cell never count: an outside node can always be put on the side
               of the tail)
  leftMinimal  every such L that attains the flow contains the left set

Decidable parts (`structOK`) are checked directly.  The two ∀-clauses are checked through a certificate
on the contracted graph (`contract`: S ↦ 0, T ↦ 1, every other node x ↦ x + 2, unit capacities, loops
dropped): a residual graph of ANY maximum flow (`res`), and a spanning tree (`tree`) showing that every
node of the claimed source side is reachable from node 0 through positive residual entries.
`cutCertOK` = the C01 certificate conjuncts (`nonnegAll`, `pairOK`, `conservedOK`, value) + the claimed
side contains 0, not 1, no positive residual entry leaves it, and the tree check.
Soundness: `Tbx.BisectionTheory.cutCertOK_sound`, `Tbx.BisectionTheory.checker_sound`.

Also here: exact (integer-arithmetic) IEEE-754 binary64 rounding of a quotient of naturals, used for
`balance = min(|L|,|R|) as f64 / (|L|+|R|) as f64` and for `size_of_contraction`.
-/
namespace Tbx.Bisection
open Tbx Tbx.FlowSpec

/-! ### the statement -/

def touched (edges : List (Nat × Nat)) (x : Nat) : Bool := edges.any fun e => e.1 == x || e.2 == x

/-- number of edges leading from the left set to the right set -/
def crossLR (edges : List (Nat × Nat)) (left right : List Nat) : Nat :=
  edges.countP fun e => left.contains e.1 && right.contains e.2

/-- number of cell edges that lead from `L` to a cell node outside `L` -/
def crossCell (edges : List (Nat × Nat)) (cell : List Nat) (L : Nat → Bool) : Nat :=
  edges.countP fun e => L e.1 && cell.contains e.2 && !L e.2

def firstK (sorted : List Nat) (k : Nat) : List Nat := sorted.take k
def lastK (sorted : List Nat) (k : Nat) : List Nat := sorted.drop (sorted.length - k)

structure Valid (edges : List (Nat × Nat)) (sorted : List Nat) (k : Nat) (flow : Int)
    (left right : List Nat) : Prop where
  disjoint : ∀ x, x ∈ left → x ∉ right
  cover : ∀ x, (x ∈ left ∨ x ∈ right) ↔
    (x ∈ sorted ∧ (x ∈ firstK sorted k ∨ x ∈ lastK sorted k ∨ touched edges x = true))
  endsL : ∀ x, x ∈ firstK sorted k → x ∈ left
  endsR : ∀ x, x ∈ lastK sorted k → x ∈ right
  flowCounts : flow = (crossLR edges left right : Int)
  minimal : ∀ L : Nat → Bool, (∀ x, x ∈ firstK sorted k → L x = true) →
    (∀ x, x ∈ lastK sorted k → L x = false) → flow ≤ (crossCell edges sorted L : Int)
  leftMinimal : ∀ L : Nat → Bool, (∀ x, x ∈ firstK sorted k → L x = true) →
    (∀ x, x ∈ lastK sorted k → L x = false) → (crossCell edges sorted L : Int) = flow →
    ∀ x, x ∈ left → L x = true

/-- the domain of the property's quantifier: distinct ids, at least two, `1 ≤ k`, `2k ≤ n`, every edge
    source lies in the cell -/
def preOK (edges : List (Nat × Nat)) (sorted : List Nat) (k : Nat) : Bool :=
  decide (sorted.Nodup) && decide (2 ≤ sorted.length) && decide (1 ≤ k) && decide (2 * k ≤ sorted.length) &&
  edges.all fun e => sorted.contains e.1

/-! ### decidable structural clauses -/

def structOK (edges : List (Nat × Nat)) (sorted : List Nat) (k : Nat) (flow : Int)
    (left right : List Nat) : Bool :=
  left.all (fun x => !right.contains x) &&
  left.all (fun x => sorted.contains x) && right.all (fun x => sorted.contains x) &&
  (left ++ right).all (fun x => (firstK sorted k).contains x || (lastK sorted k).contains x || touched edges x) &&
  sorted.all (fun x => !((firstK sorted k).contains x || (lastK sorted k).contains x || touched edges x) ||
                       left.contains x || right.contains x) &&
  (firstK sorted k).all (fun x => left.contains x) &&
  (lastK sorted k).all (fun x => right.contains x) &&
  decide (flow = (crossLR edges left right : Int))

/-- which structural clause fails first (diagnostic text; `structOK` decides) -/
def structWhy (edges : List (Nat × Nat)) (sorted : List Nat) (k : Nat) (flow : Int)
    (left right : List Nat) : String :=
  if !left.all (fun x => !right.contains x) then "left and right are not disjoint"
  else if !(left.all (fun x => sorted.contains x) && right.all (fun x => sorted.contains x)) then
    "left/right contain an id that is not a cell node"
  else if !(left ++ right).all (fun x => (firstK sorted k).contains x || (lastK sorted k).contains x || touched edges x) then
    "left/right contain a cell node that was neither contracted nor is touched by an edge"
  else if !sorted.all (fun x => !((firstK sorted k).contains x || (lastK sorted k).contains x || touched edges x) ||
                       left.contains x || right.contains x) then
    "a contracted or edge-touched cell node is in neither set"
  else if !(firstK sorted k).all (fun x => left.contains x) then s!"one of the first {k} nodes along the axis is not on the left"
  else if !(lastK sorted k).all (fun x => right.contains x) then s!"one of the last {k} nodes along the axis is not on the right"
  else if !decide (flow = (crossLR edges left right : Int)) then
    s!"reported flow {flow} but {crossLR edges left right} edges lead from the left set to the right set"
  else "ok"

/-! ### the contracted graph and the min-cut certificate -/

/-- S ↦ 0, T ↦ 1, every other node x ↦ x + 2 -/
def rho (S T : List Nat) (x : Nat) : Nat :=
  if S.contains x then 0 else if T.contains x then 1 else x + 2

/-- the contracted cell graph: unit capacities, loops dropped -/
def contract (S T : List Nat) (edges : List (Nat × Nat)) : List E :=
  (edges.filter fun e => rho S T e.1 != rho S T e.2).map fun e => (rho S T e.1, rho S T e.2, 1)

/-- the source side the reported left set claims in the contracted graph: node 0, the non-contracted left
    nodes, and the outside nodes a left node points to -/
def sideOf (edges : List (Nat × Nat)) (sorted : List Nat) (k : Nat) (left : List Nat) (p : Nat) : Bool :=
  p == 0 || (decide (2 ≤ p) && !(firstK sorted k).contains (p - 2) && !(lastK sorted k).contains (p - 2) &&
    (left.contains (p - 2) ||
      (!sorted.contains (p - 2) && edges.any fun e => left.contains e.1 && e.2 == p - 2)))

/-- `tree` lists (parent, node) pairs; every parent must already have been seen and the residual entry
    parent → node must be positive -/
def treeOK (res : List E) (n : Nat) : List Nat → List (Nat × Nat) → Bool
  | _, [] => true
  | seen, (p, v) :: rest =>
    seen.contains p && decide (v < n) &&
    res.any (fun e => e.1 == p && e.2.1 == v && decide (0 < e.2.2)) && treeOK res n (v :: seen) rest

/-- certificate check with the capacity functions as parameters (cf. `FlowSpec.certCore`) -/
def cutCertCore (n : Nat) (c r : Nat → Nat → Int) (s t : Nat) (res : List E) (value : Int)
    (inA : Nat → Bool) (tree : List (Nat × Nat)) : Bool :=
  decide (s < n) && decide (t < n) && decide (s ≠ t) &&
  nonnegAll res && pairOK n c r && conservedOK n c r s t &&
  decide (value = valueOf n c r s) &&
  inA s && !inA t && closedUnder res inA &&
  treeOK res n [s] tree &&
  allTo n (fun v => !inA v || (s :: tree.map (·.2)).contains v)

/-- reference version: capacities are list sums -/
def cutCertOK (es : List E) (s t : Nat) (res : List E) (value : Int) (inA : Nat → Bool)
    (tree : List (Nat × Nat)) : Bool :=
  cutCertCore (nNodes es) (capOf es) (capOf res) s t res value inA tree

/-- what the judge runs (capacity sums tabulated once; `Tbx.BisectionTheory.cutCertFast_eq`) -/
def cutCertFast (es : List E) (s t : Nat) (res : List E) (value : Int) (inA : Nat → Bool)
    (tree : List (Nat × Nat)) : Bool :=
  let n := nNodes es
  cutCertCore n (look n (matOf n es)) (look n (matOf n res)) s t res value inA tree

def cutCertWhy (es : List E) (s t : Nat) (res : List E) (value : Int) (inA : Nat → Bool)
    (tree : List (Nat × Nat)) : String :=
  let n := nNodes es
  let c := look n (matOf n es)
  let r := look n (matOf n res)
  if !(decide (s < n) && decide (t < n) && decide (s ≠ t)) then "contracted graph has no node 0 or 1"
  else if !nonnegAll res then "judge residual graph: negative capacity (judge bug)"
  else if !pairOK n c r then "judge residual graph: pair sums differ (judge bug)"
  else if !conservedOK n c r s t then "judge residual graph: not conserved (judge bug)"
  else if !decide (value = valueOf n c r s) then
    s!"reported flow {value} differs from the maximum flow {valueOf n c r s} of the contracted cell graph"
  else if !inA s then "the claimed left side does not contain the contracted first end"
  else if inA t then "the claimed left side contains the contracted last end"
  else if !closedUnder res inA then
    "the left side (plus the outside nodes it points to) is not the source side of a minimum cut: a residual edge of a maximum flow leaves it"
  else if !treeOK res n [s] tree then "judge reachability tree invalid (judge bug)"
  else if !allTo n (fun v => !inA v || (s :: tree.map (·.2)).contains v) then
    "the left side is a minimum cut but not the inclusion-minimal one (it contains a node that is not reachable in the residual graph)"
  else "ok"

/-- the whole check the judge runs for a cell with pairwise distinct keys: domain, structural clauses,
    every left node is a node of the contracted flow graph (a node all of whose edges are self-loops is
    not, and must be on the right), and the min-cut certificate (flow 0 when no edge connects two
    different contracted nodes) -/
def checkerOK (edges : List (Nat × Nat)) (sorted : List Nat) (k : Nat) (flow : Int)
    (left right : List Nat) (res : List E) (tree : List (Nat × Nat)) : Bool :=
  let S := firstK sorted k
  let T := lastK sorted k
  let ces := contract S T edges
  preOK edges sorted k && structOK edges sorted k flow left right &&
  left.all (fun x => decide (rho S T x < nNodes ces)) &&
  (if ces.isEmpty then decide (flow = 0)
   else cutCertOK ces 0 1 res flow (sideOf edges sorted k left) tree)

/-- what the judge executes: `checkerOK` with the tabulated certificate check
    (`Tbx.BisectionTheory.checkerFast_eq`) -/
def checkerFast (edges : List (Nat × Nat)) (sorted : List Nat) (k : Nat) (flow : Int)
    (left right : List Nat) (res : List E) (tree : List (Nat × Nat)) : Bool :=
  let S := firstK sorted k
  let T := lastK sorted k
  let ces := contract S T edges
  preOK edges sorted k && structOK edges sorted k flow left right &&
  left.all (fun x => decide (rho S T x < nNodes ces)) &&
  (if ces.isEmpty then decide (flow = 0)
   else cutCertFast ces 0 1 res flow (sideOf edges sorted k left) tree)

/-! ### exact binary64 rounding -/

def log2 (a : Nat) : Nat := Nat.log2 a

/-- round-to-nearest-even binary64 bit pattern of `a / b` for `a, b > 0` whose quotient lies in the
    normal range; `0` for `a = 0` -/
def ratToF64Bits (a b : Nat) : Nat :=
  if a = 0 ∨ b = 0 then 0
  else
    -- choose s with 2^52 ≤ floor(a * 2^s / b) < 2^53   (s may be negative)
    let s0 : Int := 52 + (log2 b : Int) - (log2 a : Int)
    let q0 := if s0 ≥ 0 then (a <<< s0.toNat) / b else a / (b <<< (-s0).toNat)
    let s : Int := if q0 < 2 ^ 52 then s0 + 1 else if q0 ≥ 2 ^ 53 then s0 - 1 else s0
    let num := if s ≥ 0 then a <<< s.toNat else a
    let den := if s ≥ 0 then b else b <<< (-s).toNat
    let q := num / den
    let r := num % den
    let up := decide (2 * r > den) || (decide (2 * r = den) && q % 2 == 1)
    let q1 := if up then q + 1 else q
    let (q2, s2) := if q1 = 2 ^ 53 then (2 ^ 52, s - 1) else (q1, s)
    let e : Int := 1023 + 52 - s2
    e.toNat * 2 ^ 52 + (q2 - 2 ^ 52)

/-- (numerator, denominator) of the exact value of a non-negative finite binary64 bit pattern -/
def f64ToRat (bits : Nat) : Nat × Nat :=
  let ex := (bits / 2 ^ 52) % 2048
  let fr := bits % 2 ^ 52
  let m := if ex = 0 then fr else fr + 2 ^ 52
  let e : Int := (if ex = 0 then 1 else ex : Nat) - 1075
  if e ≥ 0 then (m <<< e.toNat, 1) else (m, 2 ^ (-e).toNat)

/-- `x as usize` for a non-negative finite binary64 (truncation) -/
def f64Trunc (bits : Nat) : Nat :=
  let (a, b) := f64ToRat bits
  a / b

/-- `max(1, (n as f64 * b) as usize)`: one correctly rounded multiplication, truncation, max -/
def sizeOfContraction (n : Nat) (bBits : Nat) : Nat :=
  let (a, b) := f64ToRat bBits
  max 1 (f64Trunc (ratToF64Bits (n * a) b))

/-- `min(l, r) as f64 / (l + r) as f64` (both conversions exact below 2^53) -/
def balanceBits (l r : Nat) : Nat := ratToF64Bits (min l r) (l + r)

end Tbx.Bisection
