/-
Spec for the Huffman clauses of C20: what a prefix-free code is, its weighted length, Kraft's sum and
the optimum cost computed by the textbook greedy on a sorted list (independent of the two
constructions in /repo: no trees, no queues, no heap).  Core Lean only.
-/
namespace Tbx.Spec.Huff

abbrev Code := List Bool

/-- no code word is a prefix of another one (positions, not values: duplicates are excluded too) -/
def PrefixFree (cs : List Code) : Prop := cs.Pairwise fun a b => ¬ a <+: b ∧ ¬ b <+: a

def prefixFreeB : List Code → Bool
  | [] => true
  | c :: cs => (cs.all fun d => !c.isPrefixOf d && !d.isPrefixOf c) && prefixFreeB cs

theorem prefixFreeB_iff (cs : List Code) : prefixFreeB cs = true ↔ PrefixFree cs := by
  induction cs with
  | nil => simp [prefixFreeB, PrefixFree]
  | cons c cs ih =>
    simp only [prefixFreeB, PrefixFree, Bool.and_eq_true, List.all_eq_true, Bool.not_eq_eq_eq_not,
      Bool.not_true, List.pairwise_cons]
    rw [ih]
    constructor
    · rintro ⟨h1, h2⟩
      refine ⟨?_, h2⟩
      intro d hd
      have := h1 d hd
      constructor
      · intro hp; rw [← List.isPrefixOf_iff_prefix] at hp; rw [hp] at this; exact absurd this.1 (by decide)
      · intro hp; rw [← List.isPrefixOf_iff_prefix] at hp; rw [hp] at this; exact absurd this.2 (by decide)
    · rintro ⟨h1, h2⟩
      refine ⟨?_, h2⟩
      intro d hd
      have := h1 d hd
      constructor
      · cases hq : c.isPrefixOf d with
        | false => rfl
        | true => exact absurd (List.isPrefixOf_iff_prefix.mp hq) this.1
      · cases hq : d.isPrefixOf c with
        | false => rfl
        | true => exact absurd (List.isPrefixOf_iff_prefix.mp hq) this.2

/-- Kraft sum scaled by `2^L` -/
def kraftSum (L : Nat) (cs : List Code) : Nat := (cs.map fun c => 2 ^ (L - c.length)).sum

def maxLen (cs : List Code) : Nat := cs.foldl (fun m c => max m c.length) 0

/-- `Σ 2^(-len) = 1`: the code tree is full (necessary for optimality with ≥ 2 symbols) -/
def kraftEqB (cs : List Code) : Bool := kraftSum (maxLen cs) cs == 2 ^ maxLen cs

def freqOf (table : List (Nat × Int)) (s : Nat) : Int :=
  match table.find? (fun e => e.1 == s) with
  | some e => e.2
  | none => 0

/-- weighted length `Σ f(s) · |code(s)|` -/
def cost (table : List (Nat × Int)) (book : List (Nat × Code)) : Int :=
  (book.map fun e => freqOf table e.1 * (e.2.length : Int)).sum

def insertSorted (x : Int) : List Int → List Int
  | [] => [x]
  | y :: ys => if x ≤ y then x :: y :: ys else y :: insertSorted x ys

def sortInts (l : List Int) : List Int := l.foldr insertSorted []

/-- repeated merge of the two smallest weights; the cost of a Huffman tree is the sum of the merged weights -/
def greedyCost : Nat → List Int → Int
  | _, [] => 0
  | _, [_] => 0
  | 0, _ :: _ :: _ => 0
  | fuel + 1, a :: b :: rest => (a + b) + greedyCost fuel (insertSorted (a + b) rest)

def optCost (fs : List Int) : Int := greedyCost fs.length (sortInts fs)

/-- every symbol of the table has exactly one code word -/
def allCodedB (table : List (Nat × Int)) (book : List (Nat × Code)) : Bool :=
  (book.map (·.1)).isPerm (table.map (·.1))

end Tbx.Spec.Huff
