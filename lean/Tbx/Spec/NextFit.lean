/-
The laws of next-fit bin packing, stated on the result alone (nothing here knows the algorithm).
`res = none` stands for `Err(_)`, `some (bins, asg)` for `Ok((bins, assignments))`.
-/
namespace Tbx.NextFitSpec

/-- total size of the items assigned to bin b -/
def load : List Nat → List Nat → Nat → Nat
  | x :: xs, a :: as, b => (if a = b then x else 0) + load xs as b
  | _, _, _ => 0

def Laws (items : List Nat) (cap : Nat) (res : Option (Nat × List Nat)) : Prop :=
  -- rejected exactly if the capacity is zero or some item is larger than a bin
  (res = none ↔ (cap = 0 ∨ ∃ x ∈ items, x > cap)) ∧
  ∀ bins asg, res = some (bins, asg) →
    -- one assignment per item
    asg.length = items.length ∧
    -- items are assigned in order to consecutively numbered bins, starting with bin 0
    (0 < asg.length → asg.getD 0 0 = 0) ∧
    (∀ i, i + 1 < asg.length → asg.getD (i + 1) 0 = asg.getD i 0 ∨ asg.getD (i + 1) 0 = asg.getD i 0 + 1) ∧
    -- bin count = last bin + 1 (0 for no items)
    (asg = [] → bins = 0) ∧
    (0 < asg.length → bins = asg.getD (asg.length - 1) 0 + 1) ∧
    -- no bin exceeds the capacity
    (∀ b, load items asg b ≤ cap) ∧
    -- a new bin is opened at an item only if the item does not fit what is left of the previous bin
    (∀ i, i + 1 < asg.length → asg.getD (i + 1) 0 = asg.getD i 0 + 1 →
       items.getD (i + 1) 0 + load items asg (asg.getD i 0) > cap)

def check (items : List Nat) (cap : Nat) (res : Option (Nat × List Nat)) : Bool :=
  match res with
  | none => decide (cap = 0) || items.any (fun x => decide (x > cap))
  | some (bins, asg) =>
    !(decide (cap = 0) || items.any (fun x => decide (x > cap))) &&
    decide (asg.length = items.length) &&
    (decide (asg.length = 0) || decide (asg.getD 0 0 = 0)) &&
    ((List.range (asg.length - 1)).all fun i =>
      decide (asg.getD (i + 1) 0 = asg.getD i 0) || decide (asg.getD (i + 1) 0 = asg.getD i 0 + 1)) &&
    (if asg.length = 0 then decide (bins = 0) else decide (bins = asg.getD (asg.length - 1) 0 + 1)) &&
    (asg.all fun b => decide (load items asg b ≤ cap)) &&
    ((List.range (asg.length - 1)).all fun i =>
      !decide (asg.getD (i + 1) 0 = asg.getD i 0 + 1) ||
      decide (items.getD (i + 1) 0 + load items asg (asg.getD i 0) > cap))

end Tbx.NextFitSpec
