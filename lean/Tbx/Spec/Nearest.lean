/-
Meaning of C12, independent of any index structure: what a nearest-first enumeration of a stored
element list `es` must look like, given the distance `dist e` of every element to the query.
Elements are identified by natural numbers (distinct ids) in the checker.
-/
namespace Tbx.Nearest

/-- every stored element exactly once (as a multiset: `out`'s elements are a permutation of `es`),
each paired with its true distance, distances nondecreasing -/
structure NearestOK {α : Type} (es : List α) (dist : α → Nat) (out : List (α × Nat)) : Prop where
  perm : (out.map Prod.fst).Perm es
  dist_ok : ∀ p ∈ out, p.2 = dist p.1
  sorted : (out.map Prod.snd).Pairwise (· ≤ ·)

/-- completeness part alone (holds whatever priorities the boxes have) -/
structure CompleteOK {α : Type} (es : List α) (dist : α → Nat) (out : List (α × Nat)) : Prop where
  perm : (out.map Prod.fst).Perm es
  dist_ok : ∀ p ∈ out, p.2 = dist p.1

/-- adjacent pairs nondecreasing -/
def nondecB : List Nat → Bool
  | [] => true
  | [_] => true
  | a :: b :: rest => decide (a ≤ b) && nondecB (b :: rest)

theorem nondecB_sound : ∀ (l : List Nat), nondecB l = true → l.Pairwise (· ≤ ·)
  | [], _ => List.Pairwise.nil
  | [_], _ => List.pairwise_singleton _ _
  | a :: b :: rest, h => by
    simp only [nondecB, Bool.and_eq_true, decide_eq_true_eq] at h
    have ih := nondecB_sound (b :: rest) h.2
    refine List.Pairwise.cons ?_ ih
    intro y hy
    rcases List.mem_cons.mp hy with rfl | hy
    · exact h.1
    · exact Nat.le_trans h.1 ((List.pairwise_cons.mp ih).1 y hy)

theorem nondecB_complete : ∀ (l : List Nat), l.Pairwise (· ≤ ·) → nondecB l = true
  | [], _ => rfl
  | [_], _ => rfl
  | a :: b :: rest, h => by
    have h' := List.pairwise_cons.mp h
    simp only [nondecB, Bool.and_eq_true, decide_eq_true_eq]
    exact ⟨h'.1 b (List.mem_cons_self ..), nondecB_complete (b :: rest) h'.2⟩

/-- same multiset of ids: equal after sorting -/
def samePermB (a b : List Nat) : Bool :=
  a.mergeSort (fun x y => decide (x ≤ y)) == b.mergeSort (fun x y => decide (x ≤ y))

theorem samePermB_sound {a b : List Nat} (h : samePermB a b = true) : a.Perm b := by
  simp only [samePermB, beq_iff_eq] at h
  have h1 := (List.mergeSort_perm a (fun x y => decide (x ≤ y))).symm
  rw [h] at h1
  exact h1.trans (List.mergeSort_perm b _)

/-- the judge's check of the completeness clause -/
def completeB (es : List Nat) (dist : Nat → Nat) (out : List (Nat × Nat)) : Bool :=
  samePermB (out.map Prod.fst) es && out.all fun p => p.2 == dist p.1

/-- the judge's check of the whole property -/
def nearestB (es : List Nat) (dist : Nat → Nat) (out : List (Nat × Nat)) : Bool :=
  completeB es dist out && nondecB (out.map Prod.snd)

theorem completeB_sound {es : List Nat} {dist : Nat → Nat} {out : List (Nat × Nat)}
    (h : completeB es dist out = true) : CompleteOK es dist out := by
  simp only [completeB, Bool.and_eq_true, List.all_eq_true, beq_iff_eq] at h
  exact ⟨samePermB_sound h.1, h.2⟩

theorem nearestB_sound {es : List Nat} {dist : Nat → Nat} {out : List (Nat × Nat)}
    (h : nearestB es dist out = true) : NearestOK es dist out := by
  simp only [nearestB, Bool.and_eq_true] at h
  have c := completeB_sound h.1
  exact ⟨c.perm, c.dist_ok, nondecB_sound _ h.2⟩

/-- "the first item is a nearest neighbour, the first k items are the k nearest": nothing emitted
after position `k` is nearer than anything emitted before -/
theorem NearestOK.first_k {α : Type} {es : List α} {dist : α → Nat} {out : List (α × Nat)}
    (h : NearestOK es dist out) (k : Nat) :
    ∀ p ∈ out.take k, ∀ r ∈ out.drop k, dist p.1 ≤ dist r.1 := by
  intro p hp r hr
  have hs := h.sorted
  rw [← List.take_append_drop k out, List.map_append, List.pairwise_append] at hs
  have := hs.2.2 p.2 (List.mem_map_of_mem hp) r.2 (List.mem_map_of_mem hr)
  rw [h.dist_ok p (List.mem_of_mem_take hp), h.dist_ok r (List.mem_of_mem_drop hr)] at this
  exact this

end Tbx.Nearest
