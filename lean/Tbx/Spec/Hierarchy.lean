import Tbx.Gen.Fns
/-
Spec for C05 / C06 — what "chipper emits the recursive inertial-flow hierarchy" means, independent of the
job queue, of the id array and of any max-flow algorithm.  Core Lean only.

A partition id is read top-down: below its leading one bit, every bit is one side decision (0 = left,
1 = right).  `idOfSides` builds an id from a list of sides with the child functions REGENERATED from
`src/partition_id.rs` (`Tbx.Gen.pidMakeLeftChild`, `pidMakeRightChild`), `sidesOf` reads the sides back.

The hierarchy is a recursion over cells, depth first (the implementation works level by level):

    specSides best m d cell x     the sides of node x, `d` levels to go, where `best cell = some (L, R)` is
                                  "the best bisection of that cell":
        d = 0                     nothing more
        x ∈ L, |L| > m            left,  then the sides of x in the cell (edges with source in L, L)
        x ∈ L, |L| ≤ m            left,  then `d-1` times left   (leftmost descendant)
        x ∈ R, |R| > m            right, then the sides of x in the cell (edges with source in R, R)
        x ∈ R, |R| ≤ m            right, then `d-1` times right  (rightmost descendant)

The root cell is always split (also when it has at most m nodes): that is what chipper does and what the
property's "every cell larger than m is split" leaves open for the root.
`specAll` computes the same for all nodes of a cell at once (what the judge runs; `best` is evaluated
once per cell).

Reports: `expectedAssignment` / `expectedCut` say what the two CSV files must contain for given ids.
Jobs: `disjointAll` is the "no two tasks of a level share a node" check of C06.
-/
namespace Tbx.Hierarchy
open Tbx.Gen

abbrev Edge := Nat × Nat

structure Cell where
  edges : List Edge
  ids   : List Nat
deriving Repr, Inhabited, DecidableEq

/-- one step down: `make_left_child` / `make_right_child` -/
def childId (side : Bool) (x : Nat) : Nat := if side then pidMakeRightChild x else pidMakeLeftChild x

/-- the id whose top-down reading is `s` (root = 1) -/
def idOfSides (s : List Bool) : Nat := s.foldl (fun acc b => childId b acc) 1

def sidesAux : Nat → Nat → List Bool → List Bool
  | 0, _, acc => acc
  | fuel + 1, x, acc => if x ≤ 1 then acc else sidesAux fuel (x / 2) ((x % 2 == 1) :: acc)

/-- the bits of `id` below its leading one, most significant first -/
def sidesOf (id : Nat) : List Bool := sidesAux id id []

/-- the sub-cell of one side: its ids, and the edges whose SOURCE lies in it -/
def restrict (c : Cell) (side : List Nat) : Cell :=
  { edges := c.edges.filter fun e => side.contains e.1, ids := side }

/-- the sides of node `x`; `d` = levels still to go -/
def specSides (best : Cell → Option (List Nat × List Nat)) (m : Nat) : Nat → Cell → Nat → List Bool
  | 0, _, _ => []
  | d + 1, c, x =>
    match best c with
    | none => []
    | some (L, R) =>
      if L.contains x then
        false :: (if L.length > m then specSides best m d (restrict c L) x else List.replicate d false)
      else if R.contains x then
        true :: (if R.length > m then specSides best m d (restrict c R) x else List.replicate d true)
      else []

/-- the expected id of node `x` for recursion depth `r` -/
def specId (best : Cell → Option (List Nat × List Nat)) (m r : Nat) (root : Cell) (x : Nat) : Nat :=
  idOfSides (specSides best m r root x)

/-- all nodes of a cell at once: (node, sides) -/
def specAll (best : Cell → Option (List Nat × List Nat)) (m : Nat) : Nat → Cell → List (Nat × List Bool)
  | 0, c => c.ids.map fun x => (x, [])
  | d + 1, c =>
    match best c with
    | none => c.ids.map fun x => (x, [])
    | some (L, R) =>
      (if L.length > m then (specAll best m d (restrict c L)).map fun p => (p.1, false :: p.2)
       else L.map fun x => (x, false :: List.replicate d false)) ++
      ((if R.length > m then (specAll best m d (restrict c R)).map fun p => (p.1, true :: p.2)
        else R.map fun x => (x, true :: List.replicate d true)) ++
       (c.ids.filter fun x => !L.contains x && !R.contains x).map fun x => (x, []))

/-! ### reports -/

/-- rows of the assignment file: (id, lat, lon) per node, in node order -/
def expectedAssignment (ids : List Nat) (coord : Nat → Int × Int) : List (Nat × Int × Int) :=
  (List.range ids.length).map fun i => (ids.getD i 0, (coord i).1, (coord i).2)

/-- rows of the cut file: one pair (source point, target point) per edge whose end points have different ids,
    in file order -/
def expectedCut (edges : List Edge) (ids : List Nat) (coord : Nat → Int × Int) : List ((Int × Int) × (Int × Int)) :=
  (edges.filter fun e => ids.getD e.1 0 != ids.getD e.2 0).map fun e => (coord e.1, coord e.2)

def reportsOK (edges : List Edge) (ids : List Nat) (coord : Nat → Int × Int)
    (arows : List (Nat × Int × Int)) (crows : List ((Int × Int) × (Int × Int))) : Bool :=
  decide (arows = expectedAssignment ids coord) && decide (crows = expectedCut edges ids coord)

/-! ### disjoint jobs (C06) -/

def disjointFrom (xs : List Nat) : List (List Nat) → Bool
  | [] => true
  | ys :: rest => xs.all (fun x => !ys.contains x) && disjointFrom xs rest

/-- the id lists are pairwise disjoint -/
def disjointAll : List (List Nat) → Bool
  | [] => true
  | xs :: rest => disjointFrom xs rest && disjointAll rest

end Tbx.Hierarchy
