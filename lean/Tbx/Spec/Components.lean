/-
Spec for C16: what "strongly connected", "has a directed cycle", "spanning forest of minimal
weight" and "joined by unions" MEAN, independent of any algorithm, plus executable checkers with
kernel-checked soundness/completeness.  The judge of the C16 driver uses only the checkers.
Core Lean only.

A digraph is its list of edges `(u, v)`; an undirected multigraph is a list of pairs read in
both directions; weighted edges are triples `(u, v, w)`.
-/
namespace Tbx.Comp

abbrev Edges := List (Nat × Nat)

/-! ## reachability = reflexive-transitive closure of the edge relation -/

inductive Reach (es : Edges) : Nat → Nat → Prop where
  | refl (u : Nat) : Reach es u u
  | tail {u v w : Nat} : Reach es u v → (v, w) ∈ es → Reach es u w

theorem Reach.trans {es : Edges} {u v w : Nat} (h1 : Reach es u v) (h2 : Reach es v w) : Reach es u w := by
  induction h2 with
  | refl => exact h1
  | tail _ he ih => exact .tail ih he

theorem Reach.single {es : Edges} {u v : Nat} (h : (u, v) ∈ es) : Reach es u v := .tail (.refl u) h

theorem Reach.head {es : Edges} {u v w : Nat} (h : (u, v) ∈ es) (h2 : Reach es v w) : Reach es u w :=
  (Reach.single h).trans h2

theorem Reach.mono {es es' : Edges} (hs : ∀ p, p ∈ es → p ∈ es') {u v : Nat} (h : Reach es u v) :
    Reach es' u v := by
  induction h with
  | refl => exact .refl _
  | tail _ he ih => exact .tail ih (hs _ he)

/-- every path either is empty or starts with an edge -/
theorem Reach.cases_head {es : Edges} {u w : Nat} (h : Reach es u w) :
    u = w ∨ ∃ v, (u, v) ∈ es ∧ Reach es v w := by
  induction h with
  | refl => exact Or.inl rfl
  | tail _ he ih =>
    rcases ih with rfl | ⟨x, hx, hr⟩
    · exact Or.inr ⟨_, he, .refl _⟩
    · exact Or.inr ⟨x, hx, .tail hr he⟩

/-- `u` and `v` are in the same strongly connected component -/
def SameSCC (es : Edges) (u v : Nat) : Prop := Reach es u v ∧ Reach es v u

/-- the digraph has a directed cycle (self-loops count) -/
def HasCycle (es : Edges) : Prop := ∃ u v, (u, v) ∈ es ∧ Reach es v u

/-! ### executable closure -/

/-- one pass over the edge list: add the head of every edge whose tail is already in `S` -/
def expand (es : Edges) (S : List Nat) : List Nat :=
  es.foldl (fun S p => if S.contains p.1 && !S.contains p.2 then p.2 :: S else S) S

/-- `S` is closed under the edge relation -/
def closed (es : Edges) (S : List Nat) : Bool := es.all fun p => !S.contains p.1 || S.contains p.2

/-- expand until closed; `none` if the fuel runs out first (the result is never guessed) -/
def closure (es : Edges) : Nat → List Nat → Option (List Nat)
  | 0, S => if closed es S then some S else none
  | f + 1, S => if closed es S then some S else closure es f (expand es S)

/-- the set of nodes reachable from `u` -/
def reachSet (es : Edges) (u : Nat) : Option (List Nat) := closure es es.length [u]

def reachB (es : Edges) (u v : Nat) : Option Bool := (reachSet es u).map (·.contains v)

theorem expand_sound (es0 es : Edges) (hsub : ∀ p, p ∈ es → p ∈ es0) (u : Nat) (S : List Nat)
    (h : ∀ x, x ∈ S → Reach es0 u x) : ∀ x, x ∈ expand es S → Reach es0 u x := by
  induction es generalizing S with
  | nil => simpa [expand] using h
  | cons p ps ih =>
    intro x hx
    simp only [expand, List.foldl_cons] at hx
    refine ih (fun q hq => hsub q (List.mem_cons_of_mem _ hq)) _ ?_ x hx
    intro y hy
    split at hy
    · rename_i hc
      simp only [Bool.and_eq_true, List.contains_iff_mem, Bool.not_eq_true'] at hc
      rcases List.mem_cons.mp hy with rfl | hy
      · exact .tail (h _ hc.1) (hsub _ List.mem_cons_self)
      · exact h _ hy
    · exact h _ hy

theorem expand_mono (es : Edges) (S : List Nat) : ∀ x, x ∈ S → x ∈ expand es S := by
  induction es generalizing S with
  | nil => simp [expand]
  | cons p ps ih =>
    intro x hx
    simp only [expand, List.foldl_cons]
    apply ih
    split
    · exact List.mem_cons_of_mem _ hx
    · exact hx

theorem closed_complete (es : Edges) (S : List Nat) (hc : closed es S = true) (u : Nat) (hu : u ∈ S)
    (x : Nat) (hr : Reach es u x) : x ∈ S := by
  induction hr with
  | refl => exact hu
  | tail _ he ih =>
    simp only [closed, List.all_eq_true, Bool.or_eq_true, Bool.not_eq_true', List.contains_iff_mem] at hc
    rcases hc _ he with h | h
    · simp only at h
      exact absurd ih (by simpa using h)
    · exact h

theorem closure_spec (es : Edges) (u : Nat) (f : Nat) (S R : List Nat) (hu : u ∈ S)
    (hs : ∀ x, x ∈ S → Reach es u x) (h : closure es f S = some R) : ∀ x, x ∈ R ↔ Reach es u x := by
  induction f generalizing S with
  | zero =>
    simp only [closure] at h
    split at h
    · rename_i hc
      have key : ∀ x, x ∈ S ↔ Reach es u x := fun x => ⟨hs x, closed_complete es S hc u hu x⟩
      cases h
      exact key
    · cases h
  | succ f ih =>
    simp only [closure] at h
    split at h
    · rename_i hc
      have key : ∀ x, x ∈ S ↔ Reach es u x := fun x => ⟨hs x, closed_complete es S hc u hu x⟩
      cases h
      exact key
    · exact ih (expand es S) (expand_mono es S u hu) (expand_sound es es (fun _ h => h) u S hs) h

/-- soundness and completeness of the closure checker -/
theorem reachSet_spec (es : Edges) (u : Nat) (R : List Nat) (h : reachSet es u = some R) (x : Nat) :
    x ∈ R ↔ Reach es u x :=
  closure_spec es u es.length [u] R (by simp) (by intro x hx; simp at hx; subst hx; exact .refl _) h x

theorem reachB_spec (es : Edges) (u v : Nat) (b : Bool) (h : reachB es u v = some b) :
    b = true ↔ Reach es u v := by
  simp only [reachB, Option.map_eq_some_iff] at h
  obtain ⟨R, hR, hb⟩ := h
  subst hb
  rw [List.contains_iff_mem]
  exact reachSet_spec es u R hR v

def sameSccB (es : Edges) (u v : Nat) : Option Bool :=
  match reachB es u v, reachB es v u with
  | some a, some b => some (a && b)
  | _, _ => none

theorem sameSccB_spec (es : Edges) (u v : Nat) (b : Bool) (h : sameSccB es u v = some b) :
    b = true ↔ SameSCC es u v := by
  unfold sameSccB at h
  split at h
  · rename_i a c ha hc
    cases h
    have h1 := reachB_spec es u v a ha
    have h2 := reachB_spec es v u c hc
    simp only [Bool.and_eq_true, SameSCC, h1, h2]
  · cases h

/-- is some edge `(u, v)` of `ps` closed by a path `v ⇝ u` in `es`? -/
def anyBack (es : Edges) : Edges → Option Bool
  | [] => some false
  | p :: ps =>
    match reachB es p.2 p.1 with
    | none => none
    | some true => some true
    | some false => anyBack es ps

def hasCycleB (es : Edges) : Option Bool := anyBack es es

theorem anyBack_spec (es ps : Edges) (b : Bool) (h : anyBack es ps = some b) :
    b = true ↔ ∃ u v, (u, v) ∈ ps ∧ Reach es v u := by
  induction ps with
  | nil => simp only [anyBack] at h; cases h; simp
  | cons p ps ih =>
    simp only [anyBack] at h
    split at h
    · cases h
    · rename_i hr
      cases h
      have := (reachB_spec es p.2 p.1 true hr).mp rfl
      simp only [true_iff]
      exact ⟨p.1, p.2, List.mem_cons_self, this⟩
    · rename_i hr
      have hn : ¬ Reach es p.2 p.1 := fun hh => by
        have := (reachB_spec es p.2 p.1 false hr).mpr hh
        cases this
      rw [ih h]
      constructor
      · rintro ⟨u, v, hm, hr'⟩
        exact ⟨u, v, List.mem_cons_of_mem _ hm, hr'⟩
      · rintro ⟨u, v, hm, hr'⟩
        rcases List.mem_cons.mp hm with rfl | hm
        · exact absurd hr' hn
        · exact ⟨u, v, hm, hr'⟩

theorem hasCycleB_spec (es : Edges) (b : Bool) (h : hasCycleB es = some b) : b = true ↔ HasCycle es :=
  anyBack_spec es es b h

/-! ## undirected connectivity = equivalence closure of the pairs -/

/-- every pair in both directions -/
def sym (ps : Edges) : Edges := ps ++ ps.map fun p => (p.2, p.1)

/-- `a` and `b` are connected when the pairs are read as undirected edges -/
def Conn (ps : Edges) (a b : Nat) : Prop := Reach (sym ps) a b

def connB (ps : Edges) (a b : Nat) : Option Bool := reachB (sym ps) a b

theorem connB_spec (ps : Edges) (a b : Nat) (r : Bool) (h : connB ps a b = some r) :
    r = true ↔ Conn ps a b := reachB_spec _ _ _ _ h

theorem mem_sym {ps : Edges} {a b : Nat} : (a, b) ∈ sym ps ↔ (a, b) ∈ ps ∨ (b, a) ∈ ps := by
  simp only [sym, List.mem_append, List.mem_map, Prod.mk.injEq, Prod.exists]
  constructor
  · rintro (h | ⟨x, y, h, rfl, rfl⟩)
    · exact Or.inl h
    · exact Or.inr h
  · rintro (h | h)
    · exact Or.inl h
    · exact Or.inr ⟨b, a, h, rfl, rfl⟩

theorem Conn.refl (ps : Edges) (a : Nat) : Conn ps a a := Reach.refl a

theorem Conn.trans {ps : Edges} {a b c : Nat} (h1 : Conn ps a b) (h2 : Conn ps b c) : Conn ps a c :=
  Reach.trans h1 h2

theorem Conn.symm {ps : Edges} {a b : Nat} (h : Conn ps a b) : Conn ps b a := by
  unfold Conn at *
  induction h with
  | refl => exact .refl _
  | @tail v w _ he ih =>
    have : (w, v) ∈ sym ps := by
      rw [mem_sym] at he ⊢
      exact he.symm
    exact Reach.head this ih

theorem Conn.of_mem {ps : Edges} {a b : Nat} (h : (a, b) ∈ ps) : Conn ps a b :=
  Reach.single (mem_sym.mpr (Or.inl h))

theorem Conn.mono {ps qs : Edges} (hs : ∀ p, p ∈ ps → p ∈ qs) {a b : Nat} (h : Conn ps a b) : Conn qs a b := by
  refine Reach.mono ?_ h
  rintro ⟨x, y⟩ hp
  rw [mem_sym] at hp ⊢
  exact hp.imp (hs _) (hs _)

/-- the textbook definition: smallest equivalence relation containing the pairs -/
inductive EqvClosure (ps : Edges) : Nat → Nat → Prop where
  | rel {a b : Nat} : (a, b) ∈ ps → EqvClosure ps a b
  | refl (a : Nat) : EqvClosure ps a a
  | symm {a b : Nat} : EqvClosure ps a b → EqvClosure ps b a
  | trans {a b c : Nat} : EqvClosure ps a b → EqvClosure ps b c → EqvClosure ps a c

theorem conn_iff_eqvClosure (ps : Edges) (a b : Nat) : Conn ps a b ↔ EqvClosure ps a b := by
  constructor
  · intro h
    unfold Conn at h
    induction h with
    | refl => exact .refl _
    | tail _ he ih =>
      rcases mem_sym.mp he with h | h
      · exact .trans ih (.rel h)
      · exact .trans ih (.symm (.rel h))
  · intro h
    induction h with
    | rel h => exact Conn.of_mem h
    | refl => exact Conn.refl _ _
    | symm _ ih => exact ih.symm
    | trans _ _ ih1 ih2 => exact ih1.trans ih2

/-! ## forests and minimum spanning forests -/

/-- cycle-free: no edge joins two nodes that the remaining edges already connect
    (so self-loops and doubled edges are excluded too) -/
def Acyclic (F : Edges) : Prop := ∀ e, e ∈ F → ¬ Conn (F.erase e) e.1 e.2

/-- all `connB` answers for the edges `ps` against their own removal from `F` -/
def acyclicAux (F : Edges) : Edges → Option Bool
  | [] => some true
  | e :: ps =>
    match connB (F.erase e) e.1 e.2 with
    | none => none
    | some true => some false
    | some false => acyclicAux F ps

def acyclicB (F : Edges) : Option Bool := acyclicAux F F

theorem acyclicAux_spec (F ps : Edges) (b : Bool) (h : acyclicAux F ps = some b) :
    b = true ↔ ∀ e, e ∈ ps → ¬ Conn (F.erase e) e.1 e.2 := by
  induction ps with
  | nil => simp only [acyclicAux] at h; cases h; simp
  | cons p ps ih =>
    simp only [acyclicAux] at h
    split at h
    · cases h
    · rename_i hr
      cases h
      have := (connB_spec _ _ _ true hr).mp rfl
      constructor
      · intro hh; cases hh
      · intro hh; exact absurd this (hh p List.mem_cons_self)
    · rename_i hr
      have hn : ¬ Conn (F.erase p) p.1 p.2 := fun hh => by
        have := (connB_spec _ _ _ false hr).mpr hh
        cases this
      rw [ih h]
      constructor
      · intro hh e he
        rcases List.mem_cons.mp he with rfl | he
        · exact hn
        · exact hh e he
      · intro hh e he
        exact hh e (List.mem_cons_of_mem _ he)

theorem acyclicB_spec (F : Edges) (b : Bool) (h : acyclicB F = some b) : b = true ↔ Acyclic F :=
  acyclicAux_spec F F b h

/-- weighted edge `(u, v, w)` -/
abbrev WEdge := Nat × Nat × Nat

def ends (E : List WEdge) : Edges := E.map fun e => (e.1, e.2.1)
def cost (E : List WEdge) : Nat := (E.map fun e => e.2.2).sum

/-- `F` uses every input edge at most as often as it occurs in the input -/
def SubMulti (F inp : List WEdge) : Prop := ∀ e, F.count e ≤ inp.count e

/-- `F` is a spanning forest of `inp`: a cycle-free sub-multiset connecting exactly what `inp` connects -/
structure SpanningForest (inp F : List WEdge) : Prop where
  sub : SubMulti F inp
  acyclic : Acyclic (ends F)
  spans : ∀ a b, Conn (ends F) a b ↔ Conn (ends inp) a b

/-- … of minimal total weight among all spanning forests -/
def MinSpanningForest (inp F : List WEdge) : Prop :=
  SpanningForest inp F ∧ ∀ F', SpanningForest inp F' → cost F ≤ cost F'

/-- all sub-multisets, as sublists in input order -/
def sublists : List WEdge → List (List WEdge)
  | [] => [[]]
  | e :: es => let r := sublists es; r ++ r.map (e :: ·)

/-- does `F` connect the two ends of every edge of `inp` (⇔ everything `inp` connects) -/
def spansAux (F : Edges) : Edges → Option Bool
  | [] => some true
  | e :: ps =>
    match connB F e.1 e.2 with
    | none => none
    | some false => some false
    | some true => spansAux F ps

def spansB (inp F : Edges) : Option Bool := spansAux F inp

/-- the Boolean counterpart of `SpanningForest` for a sublist of the input -/
def forestB (inp F : List WEdge) : Option Bool :=
  match acyclicB (ends F), spansB (ends inp) (ends F) with
  | some a, some b => some (a && b)
  | _, _ => none

/-- minimum cost over all spanning forests by enumeration (`none`: a closure ran out of fuel, or,
    impossible, no spanning forest exists) -/
def minForestCost (inp : List WEdge) : Option Nat :=
  (sublists inp).foldl (fun acc F =>
    match acc with
    | none => none
    | some best =>
      match forestB inp F with
      | none => none
      | some false => some best
      | some true => some (match best with | none => some (cost F) | some c => some (Nat.min c (cost F))))
    (some none) |>.bind id

/-- number of classes among `0..n-1`: nodes that are not connected to a smaller node -/
def countClasses (ps : Edges) (n : Nat) : Option Nat :=
  (List.range n).foldl (fun acc v =>
    match acc with
    | none => none
    | some k =>
      match (List.range v).foldl (fun a u => match a with
          | none => none
          | some found => match connB ps u v with | none => none | some c => some (found || c)) (some false) with
      | none => none
      | some true => some k
      | some false => some (k + 1)) (some 0)

end Tbx.Comp
