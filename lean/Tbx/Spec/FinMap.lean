/-
Reference finite map for C13: what "a reference map returns".

A map from `Nat` keys to `Int` values is an association list without duplicate keys.  Its meaning
is given by the laws below (`get?_insert`, `get?_erase`, `get?_clear`, `len_insert`, `len_erase`):
`get?` after an update is the updated function, `len` is the number of keys present.  Nothing here
knows about hashing, probing or generations.  Core Lean only (linked into the driver).
-/
namespace Tbx.FinMap

abbrev M := List (Nat × Int)

def get? : M → Nat → Option Int
  | [], _ => none
  | (k', v) :: m, k => if k' = k then some v else get? m k

def erase : M → Nat → M
  | [], _ => []
  | (k', v) :: m, k => if k' = k then erase m k else (k', v) :: erase m k

def contains (m : M) (k : Nat) : Bool := (get? m k).isSome
def insert (m : M) (k : Nat) (v : Int) : M := (k, v) :: erase m k
def clear : M := []
def len (m : M) : Nat := m.length
def isEmpty (m : M) : Bool := m.length == 0

/-- get-or-create with default `d`: the value handed out and the map afterwards -/
def getOrCreate (m : M) (k : Nat) (d : Int) : M × Int :=
  match get? m k with
  | some v => (m, v)
  | none => (insert m k d, d)

/-- `remove`: the map afterwards and whether the key was present -/
def remove (m : M) (k : Nat) : M × Bool := (erase m k, contains m k)

def keys (m : M) : List Nat := m.map (·.1)

/-- representation invariant: no key twice -/
def NoDup (m : M) : Prop := (keys m).Nodup

/-! ### laws -/

theorem get?_clear (k : Nat) : get? clear k = none := rfl

theorem get?_erase (m : M) (k k' : Nat) : get? (erase m k) k' = if k = k' then none else get? m k' := by
  induction m with
  | nil => simp [erase, get?]
  | cons e m ih =>
    obtain ⟨a, v⟩ := e
    by_cases h1 : a = k
    · subst h1
      simp only [erase, if_true, ih, get?]
      by_cases h2 : a = k' <;> simp [h2]
    · simp only [erase, h1, if_false, get?, ih]
      by_cases h2 : a = k'
      · subst h2
        have : ¬ k = a := fun h => h1 h.symm
        simp [this]
      · simp [h2]

theorem get?_insert (m : M) (k k' : Nat) (v : Int) :
    get? (insert m k v) k' = if k = k' then some v else get? m k' := by
  simp only [insert, get?, get?_erase]
  by_cases h : k = k' <;> simp [h]

theorem erase_erase (m : M) (k : Nat) : erase (erase m k) k = erase m k := by
  induction m with
  | nil => rfl
  | cons e m ih =>
    obtain ⟨a, v⟩ := e
    by_cases h : a = k
    · simp only [erase, h, if_true, ih]
    · simp only [erase, h, if_false, ih]

/-- overwriting right after get-or-create is a plain insert -/
theorem insert_getOrCreate (m : M) (k : Nat) (d v : Int) :
    insert (getOrCreate m k d).1 k v = insert m k v := by
  simp only [getOrCreate]
  cases get? m k with
  | some w => rfl
  | none => simp only [insert, erase, if_true, erase_erase]

theorem mem_keys_iff (m : M) (k : Nat) : k ∈ keys m ↔ contains m k = true := by
  induction m with
  | nil => simp [keys, contains, get?]
  | cons e m ih =>
    obtain ⟨a, v⟩ := e
    simp only [keys, List.map_cons, List.mem_cons, contains, get?] at ih ⊢
    by_cases h : a = k
    · simp [h]
    · have h' : ¬ k = a := fun x => h x.symm
      simp [h, h', ih]

theorem keys_erase_sub (m : M) (k x : Nat) : x ∈ keys (erase m k) → x ∈ keys m := by
  intro hx
  rw [mem_keys_iff] at hx ⊢
  simp only [contains, get?_erase] at hx ⊢
  by_cases h : k = x
  · simp [h] at hx
  · simpa [h] using hx

theorem noDup_erase (m : M) (k : Nat) (h : NoDup m) : NoDup (erase m k) := by
  induction m with
  | nil => simpa [erase] using h
  | cons e m ih =>
    obtain ⟨a, v⟩ := e
    simp only [NoDup, keys, List.map_cons, List.nodup_cons] at h
    by_cases h1 : a = k
    · simp only [erase, h1, if_true]; exact ih h.2
    · simp only [erase, h1, if_false, NoDup, keys, List.map_cons, List.nodup_cons]
      exact ⟨fun hx => h.1 (keys_erase_sub m k a hx), ih h.2⟩

theorem not_mem_keys_erase (m : M) (k : Nat) : k ∉ keys (erase m k) := by
  rw [mem_keys_iff]; simp [contains, get?_erase]

theorem noDup_insert (m : M) (k : Nat) (v : Int) (h : NoDup m) : NoDup (insert m k v) := by
  simp only [insert, NoDup, keys, List.map_cons, List.nodup_cons]
  exact ⟨not_mem_keys_erase m k, noDup_erase m k h⟩

theorem noDup_clear : NoDup clear := by simp [NoDup, keys, clear]

theorem pos_of_contains (m : M) (k : Nat) (h : contains m k = true) : 0 < m.length := by
  cases m with
  | nil => simp [contains, get?] at h
  | cons _ _ => simp

theorem len_erase (m : M) (k : Nat) (h : NoDup m) :
    len (erase m k) = if contains m k then len m - 1 else len m := by
  unfold len
  induction m with
  | nil => simp [erase, contains, get?]
  | cons e m ih =>
    obtain ⟨a, v⟩ := e
    simp only [NoDup, keys, List.map_cons, List.nodup_cons] at h
    have ih' := ih h.2
    by_cases h1 : a = k
    · subst h1
      have hc : contains m a = false := by
        have := h.1
        rw [show (List.map (fun x => x.1) m) = keys m from rfl, mem_keys_iff] at this
        simpa using this
      have hc2 : contains ((a, v) :: m) a = true := by simp [contains, get?]
      simp only [hc, Bool.false_eq_true, if_false] at ih'
      simp only [erase, if_true, hc2, List.length_cons, ih']
      omega
    · have hcc : contains ((a, v) :: m) k = contains m k := by simp [contains, get?, h1]
      simp only [erase, h1, if_false, hcc, List.length_cons, ih']
      by_cases hc : contains m k = true
      · have := pos_of_contains m k hc
        simp only [hc, if_true]; omega
      · simp [hc]

theorem len_insert (m : M) (k : Nat) (v : Int) (h : NoDup m) :
    len (insert m k v) = if contains m k then len m else len m + 1 := by
  have he := len_erase m k h
  simp only [insert, len, List.length_cons] at he ⊢
  rw [he]
  by_cases hc : contains m k = true
  · have := pos_of_contains m k hc
    simp only [hc, if_true]; omega
  · simp [hc]

/-- `len` is the number of keys present: the key list has no repetition and lists exactly the keys
with a value -/
theorem len_meaning (m : M) (h : NoDup m) :
    len m = (keys m).length ∧ (keys m).Nodup ∧ ∀ k, k ∈ keys m ↔ (get? m k).isSome = true :=
  ⟨by simp [len, keys], h, fun k => mem_keys_iff m k⟩

/-! ### checker used by the judge: the observed answers over a key universe are the map's answers -/

structure Obs where
  len : Nat
  empty : Bool
  peek : List (Option Int)
  contains : List Bool
deriving DecidableEq, Repr

def observe (m : M) (U : List Nat) : Obs :=
  { len := len m, empty := isEmpty m, peek := U.map (get? m), contains := U.map (contains m) }

def checkObs (m : M) (U : List Nat) (o : Obs) : Bool := decide (o = observe m U)

theorem checkObs_sound (m : M) (U : List Nat) (o : Obs) :
    checkObs m U o = true ↔
      (o.len = len m ∧ o.empty = isEmpty m ∧ o.peek = U.map (get? m) ∧ o.contains = U.map (contains m)) := by
  unfold checkObs observe
  rw [decide_eq_true_eq]
  constructor
  · intro h; rw [h]; exact ⟨rfl, rfl, rfl, rfl⟩
  · rintro ⟨h1, h2, h3, h4⟩
    cases o; simp_all

end Tbx.FinMap
