import Tbx.Model.Arr
/-
Specification of C08 / C09: what a shortest-path distance and a shortest path ARE, independent of
Dijkstra, heaps or graph representations.  Core Lean only (the drivers link this file).

A graph is an adjacency function `g u = [(target, weight), …]` (parallel edges, self-loops and zero
weights allowed; weights are natural numbers, so non-negative by construction).

  Walk g s t d      there is a walk s ⇝ t whose edge weights add up to d
  IsDist g s t d    d is the weight of a walk s ⇝ t and no walk s ⇝ t is lighter
  ValidPath g s v p d   p is a node-simple path s … v, consecutive nodes joined by an edge, and d is
                    the sum of the cheapest parallel-edge weights along it

Executable checkers used by the judges (with soundness theorems below):

  distB g n s       Bellman-Ford label array; `certB` re-checks that the array is a fixpoint
                    (certificate check), and `distB_spec` shows: certificate ok ⇒ every entry is
                    `IsDist` / unreachable.  Convergence within n rounds is NOT assumed by the
                    theorem: a non-converged array fails `certB` and the judge reports that.
  validPathB        decides `ValidPath`.
-/
namespace Tbx.SP

abbrev Adj := Nat → List (Nat × Nat)

/-- walks from `s`, built edge by edge at the far end -/
inductive Walk (g : Adj) (s : Nat) : Nat → Nat → Prop
  | nil : Walk g s s 0
  | snoc {u v d w : Nat} : Walk g s u d → (v, w) ∈ g u → Walk g s v (d + w)

def Reachable (g : Adj) (s t : Nat) : Prop := ∃ d, Walk g s t d

def IsDist (g : Adj) (s t d : Nat) : Prop := Walk g s t d ∧ ∀ d', Walk g s t d' → d ≤ d'

theorem IsDist.unique {g : Adj} {s t d₁ d₂ : Nat} (h₁ : IsDist g s t d₁) (h₂ : IsDist g s t d₂) : d₁ = d₂ :=
  Nat.le_antisymm (h₁.2 _ h₂.1) (h₂.2 _ h₁.1)

theorem isDist_self (g : Adj) (s : Nat) : IsDist g s s 0 := ⟨.nil, fun _ _ => Nat.zero_le _⟩

/-- prepend an edge to a walk -/
theorem Walk.cons {g : Adj} {a b v w d : Nat} (he : (b, w) ∈ g a) (h : Walk g b v d) : Walk g a v (w + d) := by
  induction h with
  | nil => simpa using Walk.snoc Walk.nil he
  | snoc _ he' ih => rw [← Nat.add_assoc]; exact Walk.snoc ih he'

theorem Walk.trans {g : Adj} {a b c d₁ d₂ : Nat} (h₁ : Walk g a b d₁) (h₂ : Walk g b c d₂) : Walk g a c (d₁ + d₂) := by
  induction h₂ with
  | nil => simpa using h₁
  | snoc _ he ih => rw [← Nat.add_assoc]; exact Walk.snoc ih he

/-! ### Bellman-Ford labels with a certificate check -/

abbrev DistArr := Array (Option Nat)

/-- relax one edge `u → v` of weight `w` -/
def relaxB (D : DistArr) (u v w : Nat) : DistArr :=
  match gt D u with
  | none => D
  | some du =>
    match gt D v with
    | none => st D v (some (du + w))
    | some dv => if du + w < dv then st D v (some (du + w)) else D

def relaxNodeB (g : Adj) (D : DistArr) (u : Nat) : DistArr :=
  (g u).foldl (fun D e => relaxB D u e.1 e.2) D

/-- one round: all nodes in ascending, then in descending order (long chains in either id
direction converge in one round; soundness does not depend on the order) -/
def roundB (g : Adj) (n : Nat) (D : DistArr) : DistArr :=
  (List.range n ++ (List.range n).reverse).foldl (relaxNodeB g) D

/-- at most `k` rounds, stopping at the first round that changes nothing -/
def iterB (g : Adj) (n : Nat) : Nat → DistArr → DistArr
  | 0, D => D
  | k + 1, D =>
    let D' := roundB g n D
    if D' == D then D else iterB g n k D'

def initB (n s : Nat) : DistArr := st (Array.replicate n none) s (some 0)

def distB (g : Adj) (n s : Nat) : DistArr := iterB g n (n + 1) (initB n s)

/-- every edge out of a node `< n` stays below `n`, and no edge can lower a label any more -/
def closedB (g : Adj) (n : Nat) (D : DistArr) : Bool :=
  (List.range n).all fun u => (g u).all fun e =>
    decide (e.1 < n) &&
    match gt D u with
    | none => true
    | some du =>
      match gt D e.1 with
      | none => false
      | some dv => decide (dv ≤ du + e.2)

/-- the certificate: source labelled 0 and the labels are closed under all edges -/
def certB (g : Adj) (n s : Nat) (D : DistArr) : Bool :=
  decide (s < n) && (gt D s == some 0) && closedB g n D

/-- every label is the weight of a real walk from `s` -/
def SoundD (g : Adj) (s : Nat) (D : DistArr) : Prop := ∀ v d, gt D v = some d → Walk g s v d

theorem relaxB_sound {g : Adj} {s : Nat} {D : DistArr} (u v w : Nat) (he : (v, w) ∈ g u) (h : SoundD g s D) :
    SoundD g s (relaxB D u v w) := by
  unfold relaxB
  split
  · exact h
  · rename_i du hu
    have hw : Walk g s v (du + w) := Walk.snoc (h u du hu) he
    have key : SoundD g s (st D v (some (du + w))) := by
      intro x d hx
      rw [gt_st] at hx
      split at hx
      · rename_i hc; cases hx; rw [← hc.1]; exact hw
      · exact h x d hx
    split
    · exact key
    · split
      · exact key
      · exact h

theorem foldl_relax_sound {g : Adj} {s u : Nat} (l : List (Nat × Nat)) (hl : ∀ e ∈ l, e ∈ g u) (D : DistArr)
    (h : SoundD g s D) : SoundD g s (l.foldl (fun D e => relaxB D u e.1 e.2) D) := by
  induction l generalizing D with
  | nil => exact h
  | cons e l ih =>
    simp only [List.foldl_cons]
    apply ih (fun e' he' => hl e' (List.mem_cons_of_mem _ he'))
    exact relaxB_sound u e.1 e.2 (hl e List.mem_cons_self) h

theorem relaxNodeB_sound {g : Adj} {s : Nat} (u : Nat) (D : DistArr) (h : SoundD g s D) :
    SoundD g s (relaxNodeB g D u) :=
  foldl_relax_sound (g u) (fun _ he => he) D h

theorem roundB_sound {g : Adj} {s : Nat} (n : Nat) (D : DistArr) (h : SoundD g s D) : SoundD g s (roundB g n D) := by
  unfold roundB
  generalize List.range n ++ (List.range n).reverse = l
  induction l generalizing D with
  | nil => exact h
  | cons u l ih => simp only [List.foldl_cons]; exact ih _ (relaxNodeB_sound u D h)

theorem iterB_sound {g : Adj} {s : Nat} (n k : Nat) (D : DistArr) (h : SoundD g s D) : SoundD g s (iterB g n k D) := by
  induction k generalizing D with
  | zero => exact h
  | succ k ih =>
    simp only [iterB]
    split
    · exact h
    · exact ih _ (roundB_sound n D h)

theorem gt_replicate_none (n v : Nat) : gt (Array.replicate n (none : Option Nat)) v = none := by
  simp only [gt, Array.getD_eq_getD_getElem?, Array.getElem?_replicate]
  split <;> rfl

theorem initB_sound (g : Adj) (n s : Nat) : SoundD g s (initB n s) := by
  intro v d hv
  unfold initB at hv
  rw [gt_st] at hv
  split at hv
  · rename_i hc; cases hv; rw [← hc.1]; exact Walk.nil
  · rw [gt_replicate_none] at hv; cases hv

/-- the Bellman-Ford labels are weights of real walks (no convergence needed) -/
theorem distB_sound (g : Adj) (n s : Nat) : SoundD g s (distB g n s) :=
  iterB_sound n (n + 1) _ (initB_sound g n s)

theorem closedB_edge {g : Adj} {n : Nat} {D : DistArr} (h : closedB g n D = true) {u v w : Nat} (hu : u < n)
    (he : (v, w) ∈ g u) :
    v < n ∧ ∀ du, gt D u = some du → ∃ dv, gt D v = some dv ∧ dv ≤ du + w := by
  unfold closedB at h
  rw [List.all_eq_true] at h
  have h1 := h u (List.mem_range.mpr hu)
  rw [List.all_eq_true] at h1
  have h2 := h1 (v, w) he
  simp only [Bool.and_eq_true, decide_eq_true_eq] at h2
  refine ⟨h2.1, ?_⟩
  intro du hdu
  have h3 := h2.2
  rw [hdu] at h3
  simp only at h3
  split at h3
  · cases h3
  · rename_i dv hdv
    exact ⟨dv, hdv, by simpa using h3⟩

/-- a certified label array bounds every walk from below (and walks stay below `n`) -/
theorem cert_lower {g : Adj} {n s : Nat} {D : DistArr} (h : certB g n s D = true) {v d' : Nat}
    (hw : Walk g s v d') : v < n ∧ ∃ d, gt D v = some d ∧ d ≤ d' := by
  unfold certB at h
  simp only [Bool.and_eq_true, decide_eq_true_eq, beq_iff_eq] at h
  obtain ⟨⟨hs, h0⟩, hc⟩ := h
  induction hw with
  | nil => exact ⟨hs, 0, h0, Nat.le_refl _⟩
  | snoc _ he ih =>
    obtain ⟨hu, du, hdu, hle⟩ := ih
    obtain ⟨hv, hrel⟩ := closedB_edge hc hu he
    obtain ⟨dv, hdv, hle2⟩ := hrel du hdu
    exact ⟨hv, dv, hdv, by omega⟩

/-- **Soundness of the judge's distance oracle.**  If the certificate check succeeds on the
computed labels then every entry is the true distance and every missing entry is unreachable. -/
theorem distB_spec {g : Adj} {n s : Nat} (h : certB g n s (distB g n s) = true) (t : Nat) :
    match gt (distB g n s) t with
    | some d => IsDist g s t d
    | none => ¬ Reachable g s t := by
  split
  · rename_i d hd
    refine ⟨distB_sound g n s t d hd, ?_⟩
    intro d' hw
    obtain ⟨_, d0, hd0, hle⟩ := cert_lower h hw
    rw [hd] at hd0; cases hd0; exact hle
  · rename_i hn
    rintro ⟨d', hw⟩
    obtain ⟨_, d0, hd0, _⟩ := cert_lower h hw
    rw [hn] at hd0; cases hd0

/-! ### Paths (C09) -/

/-- `w` is the weight of a cheapest edge among the parallel edges `a → b` -/
def IsCheapest (g : Adj) (a b w : Nat) : Prop := (b, w) ∈ g a ∧ ∀ w', (b, w') ∈ g a → w ≤ w'

/-- node list with the sum of cheapest parallel-edge weights between consecutive nodes -/
inductive PathW (g : Adj) : List Nat → Nat → Prop
  | single (a : Nat) : PathW g [a] 0
  | cons {a b : Nat} {rest : List Nat} {d w : Nat} :
      IsCheapest g a b w → PathW g (b :: rest) d → PathW g (a :: b :: rest) (w + d)

def ValidPath (g : Adj) (s v : Nat) (p : List Nat) (d : Nat) : Prop :=
  p.head? = some s ∧ p.getLast? = some v ∧ p.Nodup ∧ PathW g p d

/-- minimum weight over a list of (target, weight) pairs restricted to target `b` -/
def cheapestIn (b : Nat) : List (Nat × Nat) → Option Nat
  | [] => none
  | e :: es =>
    if e.1 = b then
      match cheapestIn b es with
      | none => some e.2
      | some m => some (if e.2 ≤ m then e.2 else m)
    else cheapestIn b es

def cheapest (g : Adj) (a b : Nat) : Option Nat := cheapestIn b (g a)

def pathWeightB (g : Adj) : List Nat → Option Nat
  | [] => none
  | [_] => some 0
  | a :: b :: rest =>
    match cheapest g a b, pathWeightB g (b :: rest) with
    | some w, some r => some (w + r)
    | _, _ => none

def validPathB (g : Adj) (s v : Nat) (p : List Nat) (d : Nat) : Bool :=
  (p.head? == some s) && (p.getLast? == some v) && decide p.Nodup && (pathWeightB g p == some d)

theorem cheapestIn_spec (b : Nat) (l : List (Nat × Nat)) :
    match cheapestIn b l with
    | none => ∀ w, (b, w) ∉ l
    | some m => (b, m) ∈ l ∧ ∀ w, (b, w) ∈ l → m ≤ w := by
  induction l with
  | nil => simp [cheapestIn]
  | cons e l ih =>
    obtain ⟨e1, e2⟩ := e
    simp only [cheapestIn]
    by_cases hb : e1 = b
    · subst hb
      simp only [if_true]
      cases hc : cheapestIn e1 l with
      | none =>
        rw [hc] at ih
        simp only
        refine ⟨List.mem_cons_self, ?_⟩
        intro w hw
        rcases List.mem_cons.mp hw with h | h
        · cases h; exact Nat.le_refl _
        · exact absurd h (ih w)
      | some m =>
        rw [hc] at ih
        simp only
        by_cases hle : e2 ≤ m
        · simp only [hle, if_true]
          refine ⟨List.mem_cons_self, ?_⟩
          intro w hw
          rcases List.mem_cons.mp hw with h | h
          · cases h; exact Nat.le_refl _
          · exact Nat.le_trans hle (ih.2 w h)
        · simp only [hle, if_false]
          refine ⟨List.mem_cons_of_mem _ ih.1, ?_⟩
          intro w hw
          rcases List.mem_cons.mp hw with h | h
          · cases h; omega
          · exact ih.2 w h
    · simp only [hb, if_false]
      cases hc : cheapestIn b l with
      | none =>
        rw [hc] at ih
        simp only
        intro w hw
        rcases List.mem_cons.mp hw with h | h
        · cases h; exact hb rfl
        · exact ih w h
      | some m =>
        rw [hc] at ih
        simp only
        refine ⟨List.mem_cons_of_mem _ ih.1, ?_⟩
        intro w hw
        rcases List.mem_cons.mp hw with h | h
        · cases h; exact absurd rfl hb
        · exact ih.2 w h

theorem cheapest_some {g : Adj} {a b m : Nat} (h : cheapest g a b = some m) : IsCheapest g a b m := by
  have := cheapestIn_spec b (g a)
  unfold cheapest at h
  rw [h] at this
  exact this

theorem isCheapest_unique {g : Adj} {a b w₁ w₂ : Nat} (h₁ : IsCheapest g a b w₁) (h₂ : IsCheapest g a b w₂) :
    w₁ = w₂ := Nat.le_antisymm (h₁.2 _ h₂.1) (h₂.2 _ h₁.1)

theorem cheapest_of_isCheapest {g : Adj} {a b w : Nat} (h : IsCheapest g a b w) : cheapest g a b = some w := by
  have := cheapestIn_spec b (g a)
  unfold cheapest
  cases hc : cheapestIn b (g a) with
  | none => rw [hc] at this; exact absurd h.1 (this w)
  | some m => rw [hc] at this; rw [isCheapest_unique this h]

theorem pathWeightB_sound {g : Adj} (p : List Nat) (d : Nat) (h : pathWeightB g p = some d) : PathW g p d := by
  induction p generalizing d with
  | nil => simp [pathWeightB] at h
  | cons a rest ih =>
    cases rest with
    | nil => simp only [pathWeightB, Option.some.injEq] at h; subst h; exact .single a
    | cons b rest =>
      simp only [pathWeightB] at h
      split at h
      · rename_i w r hw hr
        cases h
        exact .cons (cheapest_some hw) (ih r hr)
      · cases h

theorem pathWeightB_complete {g : Adj} {p : List Nat} {d : Nat} (h : PathW g p d) : pathWeightB g p = some d := by
  induction h with
  | single a => rfl
  | cons hc _ ih => simp only [pathWeightB, cheapest_of_isCheapest hc, ih]

/-- **the C09 judge decides exactly `ValidPath`** -/
theorem validPathB_iff (g : Adj) (s v : Nat) (p : List Nat) (d : Nat) :
    validPathB g s v p d = true ↔ ValidPath g s v p d := by
  unfold validPathB ValidPath
  simp only [Bool.and_eq_true, beq_iff_eq, decide_eq_true_eq]
  constructor
  · rintro ⟨⟨⟨h1, h2⟩, h3⟩, h4⟩
    exact ⟨h1, h2, h3, pathWeightB_sound p d h4⟩
  · rintro ⟨h1, h2, h3, h4⟩
    exact ⟨⟨⟨h1, h2⟩, h3⟩, pathWeightB_complete h4⟩

/-- a `PathW` node list is a real walk from its head to its last node -/
theorem PathW.walk {g : Adj} {p : List Nat} {d : Nat} (h : PathW g p d) :
    ∀ a v, p.head? = some a → p.getLast? = some v → Walk g a v d := by
  induction h with
  | single a =>
    intro a' v h1 h2
    simp at h1 h2; subst h1; subst h2; exact .nil
  | cons hc _ ih =>
    intro a' v h1 h2
    simp only [List.head?_cons, Option.some.injEq] at h1
    subst h1
    rw [List.getLast?_cons_cons] at h2
    exact Walk.cons hc.1 (ih _ v rfl h2)

/-- a valid path is a real walk of the stated weight (so if that weight is the distance, it is a
shortest path: no walk is lighter, by `IsDist`) -/
theorem ValidPath.walk {g : Adj} {s v : Nat} {p : List Nat} {d : Nat} (h : ValidPath g s v p d) : Walk g s v d :=
  h.2.2.2.walk s v h.1 h.2.1

end Tbx.SP
