/-
Reference priority queue for C10 (and, through it, for the Dijkstra models of C08/C09):
the list of all entries ever inserted since the last clear, in insertion order.
Short enough to read in a minute; nothing here knows about heaps.
-/
namespace Tbx.PQ

structure Entry where
  id : Int
  weight : Int
  data : Int
  live : Bool
deriving Repr, DecidableEq, Inhabited

abbrev Q := List Entry

def find? (q : Q) (id : Int) : Option Entry := q.find? (fun e => e.id == id)

def insert (q : Q) (id w d : Int) : Q := q ++ [⟨id, w, d, true⟩]
def decreaseKey (q : Q) (id w : Int) : Q := q.map fun e => if e.id == id then { e with weight := w } else e
def setData (q : Q) (id d : Int) : Q := q.map fun e => if e.id == id then { e with data := d } else e
def remove (q : Q) (id : Int) : Q := q.map fun e => if e.id == id then { e with live := false } else e
def flush (q : Q) : Q := q.map fun e => { e with live := false }
def clear (_ : Q) : Q := []

def len (q : Q) : Nat := (q.filter (·.live)).length
def insertedLen (q : Q) : Nat := q.length

/-- `id` is contained and no contained entry is lighter -/
def IsMin (q : Q) (id : Int) : Prop :=
  ∃ e ∈ q, e.id = id ∧ e.live = true ∧ ∀ e' ∈ q, e'.live = true → e.weight ≤ e'.weight

/-- executable version of `IsMin` (equivalence: `Tbx.PQ.isMinB_iff`) -/
def isMinB (q : Q) (id : Int) : Bool :=
  q.any fun e => e.id == id && e.live && q.all fun e' => !e'.live || decide (e.weight ≤ e'.weight)

theorem isMinB_iff (q : Q) (id : Int) : isMinB q id = true ↔ IsMin q id := by
  unfold isMinB IsMin
  simp only [List.any_eq_true, Bool.and_eq_true, beq_iff_eq, List.all_eq_true, Bool.or_eq_true,
    Bool.not_eq_eq_eq_not, Bool.not_true, decide_eq_true_eq]
  constructor
  · rintro ⟨e, he, ⟨h1, h2⟩, h3⟩
    refine ⟨e, he, h1, h2, ?_⟩
    intro e' he' hl
    rcases h3 e' he' with h | h
    · rw [hl] at h; cases h
    · exact h
  · rintro ⟨e, he, h1, h2, h3⟩
    refine ⟨e, he, ⟨h1, h2⟩, ?_⟩
    intro e' he'
    cases hl : e'.live
    · left; rfl
    · right; exact h3 e' he' hl

def weight (q : Q) (wmax : Int) (id : Int) : Int := match find? q id with | some e => e.weight | none => wmax
def contains (q : Q) (id : Int) : Bool := match find? q id with | some e => e.live | none => false
def removed (q : Q) (id : Int) : Bool := match find? q id with | some e => !e.live | none => false
def inserted (q : Q) (id : Int) : Bool := (find? q id).isSome
def data? (q : Q) (id : Int) : Option Int := (find? q id).map (·.data)

end Tbx.PQ
