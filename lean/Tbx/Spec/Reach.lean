/-
Spec for C15 (and for the searches inside the augmenting-path max-flow solvers): what reachability,
a valid path and "no shorter path" MEAN, independent of any search algorithm; plus executable checkers
with kernel-checked soundness/completeness theorems.  The judge of the C15 driver uses only the checkers.
Core Lean only.

Graph: `g u` = list of `(target, edge id)` of the out-edges of `u`.  `filt e = true` = edge `e` is removed.
-/
namespace Tbx.Reach

abbrev Graph := Nat → List (Nat × Nat)

/-- there is an unfiltered edge `u → v` -/
def Edge (g : Graph) (filt : Nat → Bool) (u v : Nat) : Prop := ∃ e, (v, e) ∈ g u ∧ filt e = false

def edgeB (g : Graph) (filt : Nat → Bool) (u v : Nat) : Bool := (g u).any (fun p => p.1 == v && !filt p.2)

theorem edgeB_iff (g : Graph) (filt : Nat → Bool) (u v : Nat) : edgeB g filt u v = true ↔ Edge g filt u v := by
  simp only [edgeB, Edge, List.any_eq_true, Bool.and_eq_true, beq_iff_eq, Bool.not_eq_true']
  constructor
  · rintro ⟨⟨w, e⟩, hm, hw, hf⟩
    simp only at hw hf
    subst hw
    exact ⟨e, hm, hf⟩
  · rintro ⟨e, hm, hf⟩
    exact ⟨(v, e), hm, rfl, hf⟩

/-- unfiltered out-neighbours in edge order -/
def succs (g : Graph) (filt : Nat → Bool) (u : Nat) : List Nat :=
  ((g u).filter (fun p => !filt p.2)).map (·.1)

theorem mem_succs (g : Graph) (filt : Nat → Bool) (u v : Nat) : v ∈ succs g filt u ↔ Edge g filt u v := by
  simp only [succs, Edge, List.mem_map, List.mem_filter, Bool.not_eq_true']
  constructor
  · rintro ⟨⟨w, e⟩, ⟨hm, hf⟩, hw⟩
    simp only at hw hf
    subst hw
    exact ⟨e, hm, hf⟩
  · rintro ⟨e, hm, hf⟩
    exact ⟨(v, e), ⟨hm, hf⟩, rfl⟩

/-- `v` is reachable from some source through unfiltered edges -/
inductive Reachable (g : Graph) (filt : Nat → Bool) (isSrc : Nat → Prop) : Nat → Prop where
  | src (v : Nat) : isSrc v → Reachable g filt isSrc v
  | step (u v : Nat) : Reachable g filt isSrc u → Edge g filt u v → Reachable g filt isSrc v

/-- there is a walk of exactly `k` unfiltered edges from some source to `v` -/
inductive Walk (g : Graph) (filt : Nat → Bool) (isSrc : Nat → Prop) : Nat → Nat → Prop where
  | src (v : Nat) : isSrc v → Walk g filt isSrc 0 v
  | step (k u v : Nat) : Walk g filt isSrc k u → Edge g filt u v → Walk g filt isSrc (k + 1) v

theorem reachable_iff_walk (g : Graph) (filt : Nat → Bool) (isSrc : Nat → Prop) (v : Nat) :
    Reachable g filt isSrc v ↔ ∃ k, Walk g filt isSrc k v := by
  constructor
  · intro h
    induction h with
    | src v hs => exact ⟨0, .src v hs⟩
    | step u v _ he ih =>
      obtain ⟨k, hk⟩ := ih
      exact ⟨k + 1, .step k u v hk he⟩
  · rintro ⟨k, hk⟩
    induction hk with
    | src v hs => exact .src v hs
    | step k u v _ he ih => exact .step u v ih he

/-! ### executable layered closure -/

def addNew (acc : List Nat) (v : Nat) : List Nat := if acc.contains v then acc else acc ++ [v]

def addAll (acc : List Nat) (vs : List Nat) : List Nat := vs.foldl addNew acc

theorem mem_addNew (acc : List Nat) (v x : Nat) : x ∈ addNew acc v ↔ x ∈ acc ∨ x = v := by
  unfold addNew
  split
  · rename_i h
    have hv : v ∈ acc := by simpa using h
    constructor
    · exact Or.inl
    · rintro (h1 | rfl)
      · exact h1
      · exact hv
  · simp

theorem mem_addAll (vs acc : List Nat) (x : Nat) : x ∈ addAll acc vs ↔ x ∈ acc ∨ x ∈ vs := by
  induction vs generalizing acc with
  | nil => simp [addAll]
  | cons v vs ih =>
    have : addAll acc (v :: vs) = addAll (addNew acc v) vs := rfl
    rw [this, ih, mem_addNew]
    simp only [List.mem_cons]
    constructor
    · rintro ((h | h) | h)
      · exact Or.inl h
      · exact Or.inr (Or.inl h)
      · exact Or.inr (Or.inr h)
    · rintro (h | h | h)
      · exact Or.inl (Or.inl h)
      · exact Or.inl (Or.inr h)
      · exact Or.inr h

/-- one more layer: everything in `C` plus all unfiltered out-neighbours of members of `C` -/
def expand (g : Graph) (filt : Nat → Bool) (C : List Nat) : List Nat :=
  addAll C (C.flatMap (succs g filt))

theorem mem_expand (g : Graph) (filt : Nat → Bool) (C : List Nat) (x : Nat) :
    x ∈ expand g filt C ↔ x ∈ C ∨ ∃ u, u ∈ C ∧ Edge g filt u x := by
  simp only [expand, mem_addAll, List.mem_flatMap, mem_succs]

/-- nodes within `k` hops of a source -/
def ball (g : Graph) (filt : Nat → Bool) (srcs : List Nat) : Nat → List Nat
  | 0 => srcs
  | k + 1 => expand g filt (ball g filt srcs k)

theorem ball_mono (g : Graph) (filt : Nat → Bool) (srcs : List Nat) (k j : Nat) (h : j ≤ k) (x : Nat)
    (hx : x ∈ ball g filt srcs j) : x ∈ ball g filt srcs k := by
  induction k with
  | zero =>
    have : j = 0 := by omega
    subst this; exact hx
  | succ k ih =>
    by_cases hj : j = k + 1
    · subst hj; exact hx
    · have : x ∈ ball g filt srcs k := ih (by omega)
      show x ∈ expand g filt (ball g filt srcs k)
      rw [mem_expand]; exact Or.inl this

/-- `ball k` is exactly the set of nodes with a walk of at most `k` hops from a source -/
theorem mem_ball (g : Graph) (filt : Nat → Bool) (srcs : List Nat) (k : Nat) (x : Nat) :
    x ∈ ball g filt srcs k ↔ ∃ j, j ≤ k ∧ Walk g filt (· ∈ srcs) j x := by
  induction k generalizing x with
  | zero =>
    constructor
    · intro h; exact ⟨0, Nat.le_refl 0, .src x h⟩
    · rintro ⟨j, hj, hw⟩
      have : j = 0 := by omega
      subst this
      cases hw with
      | src _ hs => exact hs
  | succ k ih =>
    show x ∈ expand g filt (ball g filt srcs k) ↔ _
    rw [mem_expand]
    constructor
    · rintro (h | ⟨u, hu, he⟩)
      · obtain ⟨j, hj, hw⟩ := (ih x).mp h
        exact ⟨j, by omega, hw⟩
      · obtain ⟨j, hj, hw⟩ := (ih u).mp hu
        exact ⟨j + 1, by omega, .step j u x hw he⟩
    · rintro ⟨j, hj, hw⟩
      cases hw with
      | src _ hs =>
        left
        exact ball_mono g filt srcs k 0 (Nat.zero_le k) x hs
      | step j' u _ hw' he =>
        right
        exact ⟨u, (ih u).mpr ⟨j', by omega, hw'⟩, he⟩

/-- `C` contains every unfiltered out-neighbour of each of its members -/
def closedB (g : Graph) (filt : Nat → Bool) (C : List Nat) : Bool :=
  C.all (fun u => (succs g filt u).all (fun v => C.contains v))

/-- the reachability checker: once a ball is closed it IS the reachable set.  (The judge computes
    `ball n` for a graph on `n` nodes and evaluates `closedB` on it instead of trusting a pigeonhole
    argument; a ball that is not closed is reported, never used.) -/
theorem closed_ball_reachable (g : Graph) (filt : Nat → Bool) (srcs : List Nat) (k : Nat)
    (hc : closedB g filt (ball g filt srcs k) = true) (x : Nat) :
    x ∈ ball g filt srcs k ↔ Reachable g filt (· ∈ srcs) x := by
  constructor
  · intro h
    obtain ⟨j, _, hw⟩ := (mem_ball g filt srcs k x).mp h
    exact (reachable_iff_walk g filt _ x).mpr ⟨j, hw⟩
  · intro h
    induction h with
    | src v hs => exact ball_mono g filt srcs k 0 (Nat.zero_le k) v hs
    | step u v _ he ih =>
      simp only [closedB, List.all_eq_true, List.contains_iff_mem] at hc
      exact hc u ih v ((mem_succs g filt u v).mpr he)

/-- reachability of some target, as a Bool (meaningful when `closedB (ball k)` holds) -/
def anyTargetIn (C : List Nat) (tgts : List Nat) : Bool := tgts.any (fun t => C.contains t)

theorem anyTargetIn_iff (g : Graph) (filt : Nat → Bool) (srcs tgts : List Nat) (k : Nat)
    (hc : closedB g filt (ball g filt srcs k) = true) :
    anyTargetIn (ball g filt srcs k) tgts = true ↔ ∃ t, t ∈ tgts ∧ Reachable g filt (· ∈ srcs) t := by
  simp only [anyTargetIn, List.any_eq_true, List.contains_iff_mem]
  constructor
  · rintro ⟨t, ht, hb⟩
    exact ⟨t, ht, (closed_ball_reachable g filt srcs k hc t).mp hb⟩
  · rintro ⟨t, ht, hr⟩
    exact ⟨t, ht, (closed_ball_reachable g filt srcs k hc t).mpr hr⟩

/-! ### paths -/

/-- consecutive elements are related -/
def Linked (R : Nat → Nat → Prop) : List Nat → Prop
  | [] => True
  | [_] => True
  | u :: v :: rest => R u v ∧ Linked R (v :: rest)

def linkedB (r : Nat → Nat → Bool) : List Nat → Bool
  | [] => true
  | [_] => true
  | u :: v :: rest => r u v && linkedB r (v :: rest)

theorem linkedB_iff (R : Nat → Nat → Prop) (r : Nat → Nat → Bool) (h : ∀ u v, r u v = true ↔ R u v)
    (l : List Nat) : linkedB r l = true ↔ Linked R l := by
  induction l with
  | nil => simp [linkedB, Linked]
  | cons u l ih =>
    cases l with
    | nil => simp [linkedB, Linked]
    | cons v rest => simp only [linkedB, Linked, Bool.and_eq_true, h, ih]

/-- a simple path from a source to a target along existing unfiltered edges -/
structure ValidPath (g : Graph) (filt : Nat → Bool) (isSrc isT : Nat → Prop) (p : List Nat) : Prop where
  first  : ∃ s, p.head? = some s ∧ isSrc s
  last   : ∃ t, p.getLast? = some t ∧ isT t
  simple : p.Nodup
  linked : Linked (Edge g filt) p

def nodupB : List Nat → Bool
  | [] => true
  | x :: xs => !xs.contains x && nodupB xs

theorem nodupB_iff (l : List Nat) : nodupB l = true ↔ l.Nodup := by
  induction l with
  | nil => simp [nodupB]
  | cons x xs ih => simp [nodupB, ih, List.nodup_cons]

def validPathB (g : Graph) (filt : Nat → Bool) (srcs tgts : List Nat) (p : List Nat) : Bool :=
  (match p.head? with | some s => srcs.contains s | none => false) &&
  (match p.getLast? with | some t => tgts.contains t | none => false) &&
  nodupB p && linkedB (edgeB g filt) p

theorem validPathB_iff (g : Graph) (filt : Nat → Bool) (srcs tgts : List Nat) (p : List Nat) :
    validPathB g filt srcs tgts p = true ↔ ValidPath g filt (· ∈ srcs) (· ∈ tgts) p := by
  simp only [validPathB, Bool.and_eq_true, nodupB_iff, linkedB_iff (Edge g filt) (edgeB g filt) (edgeB_iff g filt)]
  constructor
  · rintro ⟨⟨⟨h1, h2⟩, h3⟩, h4⟩
    refine ⟨?_, ?_, h3, h4⟩
    · cases hh : p.head? with
      | none => simp [hh] at h1
      | some s => simp only [hh, List.contains_iff_mem] at h1; exact ⟨s, rfl, h1⟩
    · cases hh : p.getLast? with
      | none => simp [hh] at h2
      | some t => simp only [hh, List.contains_iff_mem] at h2; exact ⟨t, rfl, h2⟩
  · rintro ⟨⟨s, hs, hs'⟩, ⟨t, ht, ht'⟩, h3, h4⟩
    refine ⟨⟨⟨?_, ?_⟩, h3⟩, h4⟩
    · simp [hs, hs']
    · simp [ht, ht']

/-- the edge list has exactly one edge per hop of the node list, edge `i` leading from node `i` to node `i+1`
    (an edge id `e` joins `u → v` iff `(v, e)` is an out-edge entry of `u`) -/
def EdgesJoin (g : Graph) : List Nat → List Nat → Prop
  | [_], [] => True
  | u :: v :: rest, e :: es => (v, e) ∈ g u ∧ EdgesJoin g (v :: rest) es
  | _, _ => False

def edgesJoinB (g : Graph) : List Nat → List Nat → Bool
  | [_], [] => true
  | u :: v :: rest, e :: es => (g u).contains (v, e) && edgesJoinB g (v :: rest) es
  | _, _ => false

theorem edgesJoinB_iff (g : Graph) (p es : List Nat) : edgesJoinB g p es = true ↔ EdgesJoin g p es := by
  induction p generalizing es with
  | nil => simp [edgesJoinB, EdgesJoin]
  | cons u p ih =>
    cases p with
    | nil => cases es <;> simp [edgesJoinB, EdgesJoin]
    | cons v rest =>
      cases es with
      | nil => simp [edgesJoinB, EdgesJoin]
      | cons e es => simp only [edgesJoinB, EdgesJoin, Bool.and_eq_true, List.contains_iff_mem, ih]

/-! ### minimality -/

/-- no target can be reached from a source with fewer than `h` unfiltered edges -/
def NoShorter (g : Graph) (filt : Nat → Bool) (isSrc isT : Nat → Prop) (h : Nat) : Prop :=
  ∀ k v, k < h → Walk g filt isSrc k v → ¬ isT v

def noShorterB (g : Graph) (filt : Nat → Bool) (srcs tgts : List Nat) (h : Nat) : Bool :=
  match h with
  | 0 => true
  | h' + 1 => tgts.all (fun t => !(ball g filt srcs h').contains t)

theorem noShorterB_iff (g : Graph) (filt : Nat → Bool) (srcs tgts : List Nat) (h : Nat) :
    noShorterB g filt srcs tgts h = true ↔ NoShorter g filt (· ∈ srcs) (· ∈ tgts) h := by
  cases h with
  | zero =>
    simp only [noShorterB, NoShorter, true_iff]
    intro k v hk; omega
  | succ h' =>
    simp only [noShorterB, NoShorter, List.all_eq_true, Bool.not_eq_true', List.contains_eq_mem,
      decide_eq_false_iff_not]
    constructor
    · intro hall k v hk hw ht
      exact hall v ht ((mem_ball g filt srcs h' v).mpr ⟨k, by omega, hw⟩)
    · intro hns t ht hb
      obtain ⟨j, hj, hw⟩ := (mem_ball g filt srcs h' t).mp hb
      exact hns j t (by omega) hw ht

/-- BFS distance of the nearest target, searched up to `bound` hops -/
def minDist (g : Graph) (filt : Nat → Bool) (srcs tgts : List Nat) (bound : Nat) : Option Nat :=
  (List.range (bound + 1)).find? (fun k => anyTargetIn (ball g filt srcs k) tgts)

end Tbx.Reach
