/-
Specification for C14: a graph *is* its number of nodes and the multiset of edges it was given.

The state is `n` and the list of (source,target,data) triples in the order they were given; the
adjacency of node `v` is `adjOf es v : List (target,data)`, meaningful **up to permutation**
(`List.Perm`).  Nothing here knows about offsets, slices or spare slots.

Executable comparison of adjacencies: `canon` (sort by (target,data)) with
`canon_eq_iff_perm : canon a = canon b ↔ a.Perm b`; the judge compares canonical forms.
-/
namespace Tbx.Adj

structure Edge where
  src : Nat
  tgt : Nat
  data : Int
deriving Repr, Inhabited, DecidableEq

/-- the (target,data) pairs of the edges with source `v`, in the order given -/
def adjOf (es : List Edge) (v : Nat) : List (Nat × Int) :=
  (es.filter fun e => e.src == v).map fun e => (e.tgt, e.data)

structure S where
  n : Nat
  es : List Edge
deriving Repr

/-- `m` is the largest id mentioned by a non-empty edge list -/
def IsMaxId (es : List Edge) (m : Nat) : Prop :=
  (∃ e ∈ es, e.src = m ∨ e.tgt = m) ∧ ∀ e ∈ es, e.src ≤ m ∧ e.tgt ≤ m

/-- executable maximum id; 0 for the empty list (convention of the code: the running maximum
    starts at 0, so an empty edge list yields a graph with ONE node) -/
def maxIdOf (es : List Edge) : Nat := es.foldr (fun e m => max (max e.src e.tgt) m) 0

/-- a static graph built from `es` -/
def ofList (es : List Edge) : S := { n := maxIdOf es + 1, es := es }

/-- a dynamic graph built from `n` nodes and `es` (domain: all ids below `n`) -/
def init (n : Nat) (es : List Edge) : S := { n := n, es := es }
def idsBelow (n : Nat) (es : List Edge) : Bool := es.all fun e => decide (e.src < n) && decide (e.tgt < n)

def insertNode (σ : S) : S := { σ with n := σ.n + 1 }
/-- inserting an edge creates every node up to its endpoints -/
def insertEdge (σ : S) (s t : Nat) (d : Int) : S :=
  { n := max σ.n (max s t + 1), es := σ.es ++ [⟨s, t, d⟩] }
/-- removes one occurrence (domain: the edge is present) -/
def removeEdge (σ : S) (s t : Nat) (d : Int) : S := { σ with es := σ.es.erase ⟨s, t, d⟩ }

/-- replace the first occurrence of `a` by `b` -/
def replaceFirst (a b : Edge) : List Edge → List Edge
  | [] => []
  | x :: xs => if x = a then b :: xs else x :: replaceFirst a b xs

/-- overwrite the data of one occurrence of the edge (s,t,d) (domain: the edge is present) -/
def setData (σ : S) (s t : Nat) (d d' : Int) : S :=
  { σ with es := replaceFirst ⟨s, t, d⟩ ⟨s, t, d'⟩ σ.es }

def numNodes (σ : S) : Nat := σ.n
def numEdges (σ : S) : Nat := σ.es.length
def degree (σ : S) (v : Nat) : Nat := (adjOf σ.es v).length
/-- `find_edge(s,t)` must answer iff this holds -/
def HasEdge (σ : S) (s t : Nat) : Prop := s < σ.n ∧ ∃ e ∈ σ.es, e.src = s ∧ e.tgt = t
def hasEdgeB (σ : S) (s t : Nat) : Bool := decide (s < σ.n) && σ.es.any fun e => e.src == s && e.tgt == t

theorem hasEdgeB_iff (σ : S) (s t : Nat) : hasEdgeB σ s t = true ↔ HasEdge σ s t := by
  simp [hasEdgeB, HasEdge]

/-! canonical form of an adjacency list -/

def pairLe (a b : Nat × Int) : Bool := a.1 < b.1 || (a.1 == b.1 && decide (a.2 ≤ b.2))

def canon (l : List (Nat × Int)) : List (Nat × Int) := l.mergeSort fun a b => pairLe a b

theorem pairLe_trans (a b c : Nat × Int) : pairLe a b = true → pairLe b c = true → pairLe a c = true := by
  simp only [pairLe, Bool.or_eq_true, Bool.and_eq_true, decide_eq_true_eq, beq_iff_eq]
  omega

theorem pairLe_total (a b : Nat × Int) : (pairLe a b || pairLe b a) = true := by
  simp only [pairLe, Bool.or_eq_true, Bool.and_eq_true, decide_eq_true_eq, beq_iff_eq]
  omega

theorem pairLe_antisymm (a b : Nat × Int) : pairLe a b = true → pairLe b a = true → a = b := by
  simp only [pairLe, Bool.or_eq_true, Bool.and_eq_true, decide_eq_true_eq, beq_iff_eq]
  intro h1 h2
  have : a.1 = b.1 ∧ a.2 = b.2 := by omega
  exact Prod.ext this.1 this.2

theorem canon_perm (l : List (Nat × Int)) : (canon l).Perm l := List.mergeSort_perm l _

theorem canon_sorted (l : List (Nat × Int)) : (canon l).Pairwise fun a b => pairLe a b = true :=
  List.pairwise_mergeSort (le := fun a b => pairLe a b) pairLe_trans pairLe_total l

/-- the judge's comparison is exactly "equal as multisets" -/
theorem canon_eq_iff_perm (a b : List (Nat × Int)) : canon a = canon b ↔ a.Perm b := by
  constructor
  · intro h
    exact (canon_perm a).symm.trans (h ▸ canon_perm b)
  · intro h
    have hp : (canon a).Perm (canon b) := (canon_perm a).trans (h.trans (canon_perm b).symm)
    exact List.Perm.eq_of_pairwise (le := fun a b => pairLe a b = true)
      (fun x y _ _ hxy hyx => pairLe_antisymm x y hxy hyx) (canon_sorted a) (canon_sorted b) hp

end Tbx.Adj
