/-
Spec for C17: what "sorted" means for each element type supported by `rdx_sort`, independent of
any sorting algorithm.

Elements are exchanged and modelled as their bit patterns (`Nat < 256^w`, `w` = width in bytes).
The order of a type is defined on the *decoded* value:
  * unsigned / bool : the pattern itself (bool: false = 0 < true = 1),
  * signed          : the two's complement value `toInt`,
  * float           : IEEE-754 `totalOrder` read off the sign–magnitude form: every negative value is
                      before every non-negative one, non-negative values ascend with the magnitude
                      bits, negative values descend with them (so −0.0 < +0.0, −∞ first, +∞ last).
                      On non-NaN values this is `f32::total_cmp` / `f64::total_cmp`; it refines
                      `partial_cmp` (which only identifies −0.0 and +0.0).

`IsSortOf t inp out`  :=  `out` is a permutation of `inp` and pairwise ordered by `le t`.
`checkB` is the executable checker used by the judge; `checkB_iff` is its soundness/completeness.
-/
namespace Tbx.SortSpec

inductive Kind where
  | unsigned | signed | float | bool
deriving DecidableEq, Repr, Inhabited

/-- an element type: width in bytes and kind -/
structure Ty where
  w : Nat
  kind : Kind
deriving DecidableEq, Repr, Inhabited

/-- number of bit patterns, `2^(8w)` -/
def Ty.card (t : Ty) : Nat := 256 ^ t.w
/-- the sign bit, `2^(8w-1)` -/
def Ty.half (t : Ty) : Nat := 128 * 256 ^ (t.w - 1)

/-- two's complement value of a pattern -/
def toInt (t : Ty) (x : Nat) : Int := if x < t.half then (x : Int) else (x : Int) - (t.card : Int)

/-- sign bit set -/
def fneg (t : Ty) (x : Nat) : Prop := t.half ≤ x
/-- magnitude bits (exponent and mantissa) -/
def fmag (t : Ty) (x : Nat) : Nat := x % t.half

instance (t : Ty) (x : Nat) : Decidable (fneg t x) := by unfold fneg; infer_instance

/-- IEEE totalOrder on sign–magnitude patterns -/
def fle (t : Ty) (a b : Nat) : Prop :=
  if fneg t a then (if fneg t b then fmag t b ≤ fmag t a else True)
  else (if fneg t b then False else fmag t a ≤ fmag t b)

/-- the order of the element type, on bit patterns -/
def le (t : Ty) (a b : Nat) : Prop :=
  match t.kind with
  | .unsigned => a ≤ b
  | .bool => a ≤ b
  | .signed => toInt t a ≤ toInt t b
  | .float => fle t a b

instance (t : Ty) (a b : Nat) : Decidable (fle t a b) := by unfold fle; infer_instance
instance (t : Ty) (a b : Nat) : Decidable (le t a b) := by unfold le; split <;> infer_instance

def leB (t : Ty) (a b : Nat) : Bool := decide (le t a b)

/-- patterns that are values of the type (`bool` only has 0 and 1) -/
def Valid (t : Ty) (x : Nat) : Prop := x < t.card ∧ (t.kind = .bool → x < 2)
instance (t : Ty) (x : Nat) : Decidable (Valid t x) := by unfold Valid; infer_instance

/-- bit pattern of +∞ (exponent all ones, mantissa 0) for the two IEEE widths -/
def infBits (t : Ty) : Nat := if t.w = 4 then 0x7F800000 else 0x7FF0000000000000
/-- NaN patterns (outside the property's quantifier) -/
def isNaN (t : Ty) (x : Nat) : Bool := t.kind == .float && decide (infBits t < fmag t x)

/-! ### `partial_cmp` / `==` on non-NaN float patterns (the two zeros are equal) -/

/-- IEEE zero of either sign -/
def isZeroF (t : Ty) (x : Nat) : Bool := fmag t x == 0
/-- `partial_cmp(a,b) != Greater` on non-NaN patterns: totalOrder, except that −0.0 and +0.0 are equal -/
def pleB (t : Ty) (a b : Nat) : Bool := leB t a b || (isZeroF t a && isZeroF t b)
/-- float `==` on non-NaN patterns -/
def feqB (t : Ty) (a b : Nat) : Bool := a == b || (isZeroF t a && isZeroF t b)
/-- representative of the `==` class: −0.0 ↦ +0.0, everything else itself -/
def canon (t : Ty) (x : Nat) : Nat := if fmag t x = 0 then 0 else x

/-- THE SPEC: `out` is `inp` sorted in the type's order -/
def IsSortOf (t : Ty) (inp out : List Nat) : Prop := out.Perm inp ∧ out.Pairwise (le t)

theorem fle_trans (t : Ty) {a b c : Nat} (h1 : fle t a b) (h2 : fle t b c) : fle t a c := by
  unfold fle at *
  by_cases ha : fneg t a <;> by_cases hb : fneg t b <;> by_cases hc : fneg t c <;>
    simp only [ha, hb, hc, if_true, if_false] at * <;> omega

theorem le_trans (t : Ty) {a b c : Nat} (h1 : le t a b) (h2 : le t b c) : le t a c := by
  unfold le at *
  cases hk : t.kind <;> simp only [hk] at h1 h2 ⊢
  · exact Nat.le_trans h1 h2
  · exact Int.le_trans h1 h2
  · exact fle_trans t h1 h2
  · exact Nat.le_trans h1 h2

theorem fle_total (t : Ty) (a b : Nat) : fle t a b ∨ fle t b a := by
  unfold fle
  by_cases ha : fneg t a <;> by_cases hb : fneg t b <;> simp only [ha, hb, if_true, if_false] <;>
    first | omega | simp

theorem le_total (t : Ty) (a b : Nat) : le t a b ∨ le t b a := by
  unfold le
  cases hk : t.kind <;> simp only
  · exact Nat.le_total a b
  · exact Int.le_total _ _
  · exact fle_total t a b
  · exact Nat.le_total a b

/-! ### executable checker -/

/-- adjacent pairs are ordered (equivalent to `Pairwise` for a transitive relation) -/
def sortedAdjB (r : Nat → Nat → Bool) : List Nat → Bool
  | [] => true
  | [_] => true
  | a :: b :: l => r a b && sortedAdjB r (b :: l)

theorem sortedAdjB_iff (r : Nat → Nat → Bool) (trans : ∀ a b c, r a b = true → r b c = true → r a c = true)
    (l : List Nat) : sortedAdjB r l = true ↔ l.Pairwise (fun a b => r a b = true) := by
  induction l with
  | nil => simp [sortedAdjB]
  | cons a l ih =>
    cases l with
    | nil => simp [sortedAdjB]
    | cons b l =>
      simp only [sortedAdjB, Bool.and_eq_true, ih, List.pairwise_cons]
      constructor
      · rintro ⟨hab, hb, hl⟩
        refine ⟨?_, hb, hl⟩
        intro c hc
        rcases List.mem_cons.mp hc with rfl | hc
        · exact hab
        · exact trans a b c hab (hb c hc)
      · rintro ⟨ha, hb, hl⟩
        exact ⟨ha b (List.mem_cons_self), hb, hl⟩

def natLeB (a b : Nat) : Bool := decide (a ≤ b)

/-- multiset equality of two lists of patterns: both have the same sorted arrangement as numbers -/
def permB (l₁ l₂ : List Nat) : Bool := l₁.mergeSort natLeB == l₂.mergeSort natLeB

theorem permB_iff (l₁ l₂ : List Nat) : permB l₁ l₂ = true ↔ l₁.Perm l₂ := by
  unfold permB
  have tr : ∀ a b c : Nat, natLeB a b = true → natLeB b c = true → natLeB a c = true := by
    intro a b c; simp only [natLeB, decide_eq_true_eq]; omega
  have tot : ∀ a b : Nat, (natLeB a b || natLeB b a) = true := by
    intro a b; simp only [natLeB, Bool.or_eq_true, decide_eq_true_eq]; omega
  constructor
  · intro h
    have h' : l₁.mergeSort natLeB = l₂.mergeSort natLeB := by simpa using h
    exact ((List.mergeSort_perm l₁ natLeB).symm.trans (h' ▸ List.Perm.refl _)).trans
      (List.mergeSort_perm l₂ natLeB)
  · intro h
    have p : (l₁.mergeSort natLeB).Perm (l₂.mergeSort natLeB) :=
      ((List.mergeSort_perm l₁ natLeB).trans h).trans (List.mergeSort_perm l₂ natLeB).symm
    have e := List.Perm.eq_of_pairwise (le := fun a b => natLeB a b = true)
      (by intro a b _ _; simp only [natLeB, decide_eq_true_eq]; omega)
      (List.pairwise_mergeSort tr tot l₁) (List.pairwise_mergeSort tr tot l₂) p
    simp [e]

/-- the judge's check: `out` is a permutation of `inp` and sorted in the type's order -/
def checkB (t : Ty) (inp out : List Nat) : Bool := permB out inp && sortedAdjB (leB t) out

theorem checkB_iff (t : Ty) (inp out : List Nat) : checkB t inp out = true ↔ IsSortOf t inp out := by
  unfold checkB IsSortOf
  rw [Bool.and_eq_true, permB_iff, sortedAdjB_iff]
  · simp only [leB, decide_eq_true_eq]
  · intro a b c; simp only [leB, decide_eq_true_eq]; exact le_trans t

end Tbx.SortSpec
