import Tbx.Drv.C17
def main : IO Unit := Tbx.Drv.runDriver Tbx.Drv.C17.handle
