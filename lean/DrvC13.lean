import Tbx.Drv.C13
def main : IO Unit := Tbx.Drv.runDriver Tbx.Drv.C13.handle
