import Tbx.Drv.C08
def main : IO Unit := Tbx.Drv.runDriver Tbx.Drv.C08.handle
