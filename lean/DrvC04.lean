import Tbx.Drv.C04
def main : IO Unit := Tbx.Drv.runDriver Tbx.Drv.C04.handle
