import Tbx.Drv.C06
def main : IO Unit := Tbx.Drv.runDriver Tbx.Drv.C06.handle
