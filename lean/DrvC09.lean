import Tbx.Drv.C09
def main : IO Unit := Tbx.Drv.runDriver Tbx.Drv.C09.handle
