import Tbx.Drv.C02
def main : IO Unit := Tbx.Drv.runDriver Tbx.Drv.C02.handle
